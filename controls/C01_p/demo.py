"""
C01 negative control p: sintl computed as |B.hkl| (through form_b_mat) instead
of the hand-expanded closed formula.

Checks the C01 property (A, B, volume, sin(theta)/lambda share one metric;
inverse maps return the original cell / true inverse) against an INDEPENDENT
construction of the lattice: basis vectors built in a different Cartesian
setting (c along z, a in the xz-plane), reciprocal vectors from cross products.
Run as:  PYTHONPATH=<checkout root> /venv/bin/python -B demo.py
Exit status 0 = property holds on every generated input.
"""
from __future__ import print_function
import sys, math, random, hashlib
import numpy as np
from xfab import tools, laue

RTOL = 1e-9        # relative tolerance on lengths, metric entries, volume
ATOL_DEG = 1e-7    # absolute tolerance on angles in degrees
NCELLS = 300
NHKL = 6


def gram(al, be, ga):
    ca, cb, cg = [math.cos(math.radians(x)) for x in (al, be, ga)]
    return 1 - ca*ca - cb*cb - cg*cg + 2*ca*cb*cg


def random_cell(rng):
    while True:
        kind = rng.random()
        if kind < 0.6:      # anything, incl. strongly oblique
            ang = [rng.uniform(8., 172.) for _ in range(3)]
        elif kind < 0.8:    # monoclinic-like
            ang = [90., rng.uniform(20., 160.), 90.]
        else:               # rhombohedral-like
            x = rng.uniform(25., 118.)
            ang = [x, x, x]
        if gram(*ang) >= 0.02:
            break
    abc = [math.exp(rng.uniform(math.log(1.5), math.log(40.))) for _ in range(3)]
    return abc + ang


def independent_lattice(cell):
    """direct basis with c along z, a in the xz plane (NOT Poulsen's setting),
    reciprocal basis (no 2 pi) from cross products, volume from the triple product"""
    a, b, c, al, be, ga = cell
    ca, cb, cg = [math.cos(math.radians(x)) for x in (al, be, ga)]
    sa, sb = math.sin(math.radians(al)), math.sin(math.radians(be))
    cvec = np.array([0., 0., c])
    avec = np.array([a*sb, 0., a*cb])
    # b: b.c = b c cos(al), b.a = a b cos(ga)
    bz = b*ca
    bx = b*(cg - ca*cb)/sb
    by = math.sqrt(max(b*b - bx*bx - bz*bz, 0.))
    bvec = np.array([bx, by, bz])
    vol = abs(np.dot(avec, np.cross(bvec, cvec)))
    astar = np.cross(bvec, cvec)/vol
    bstar = np.cross(cvec, avec)/vol
    cstar = np.cross(avec, bvec)/vol
    D = np.array([avec, bvec, cvec])        # rows
    R = np.array([astar, bstar, cstar])     # rows
    return D, R, vol


def close_metric(M, G, what, errors):
    scale = np.sqrt(np.outer(np.diag(G), np.diag(G)))
    err = np.abs(M - G)/scale
    if not np.all(np.isfinite(M)) or err.max() > RTOL:
        errors.append('%s: metric mismatch, max rel err %g' % (what, err.max()))


def check_upper(M, what, errors):
    M = np.asarray(M)
    if M.shape != (3, 3):
        errors.append('%s: shape %s' % (what, M.shape,)); return
    if M[1, 0] != 0 or M[2, 0] != 0 or M[2, 1] != 0:
        errors.append('%s: not upper triangular' % what)
    if not np.all(np.diag(M) > 0):
        errors.append('%s: diagonal not positive' % what)


def close_cell(got, want, what, errors):
    got = [float(x) for x in got]
    if len(got) != 6:
        errors.append('%s: %d values' % (what, len(got))); return
    for i in range(3):
        if not abs(got[i] - want[i]) <= RTOL*1e2*want[i]:
            errors.append('%s: length %d %r != %r' % (what, i, got[i], want[i]))
    for i in range(3, 6):
        if not abs(got[i] - want[i]) <= ATOL_DEG:
            errors.append('%s: angle %d %r != %r' % (what, i, got[i], want[i]))


def check_cell(cell, hkls):
    errors = []
    D, R, vol = independent_lattice(cell)
    G = np.dot(D, D.T)       # direct metric
    Gs = np.dot(R, R.T)      # reciprocal metric, no 2 pi
    for mod, twopi in ((tools, 2*math.pi), (laue, 1.0)):
        nm = mod.__name__.split('.')[-1]
        A = mod.form_a_mat(list(cell))
        B = mod.form_b_mat(list(cell))
        check_upper(A, nm + '.form_a_mat', errors)
        check_upper(B, nm + '.form_b_mat', errors)
        A = np.asarray(A, float); B = np.asarray(B, float)
        close_metric(np.dot(A.T, A), G, nm + '.A^T A', errors)
        close_metric(np.dot(B.T, B), Gs*twopi**2, nm + '.B^T B', errors)
        V = float(mod.cell_volume(list(cell)))
        if not abs(V - vol) <= RTOL*vol:
            errors.append('%s.cell_volume %r != %r' % (nm, V, vol))
        if not abs(np.linalg.det(A) - vol) <= RTOL*vol:
            errors.append('%s det A %r != %r' % (nm, np.linalg.det(A), vol))
        for hkl in hkls:
            want = np.linalg.norm(np.dot(np.asarray(hkl, float), R))/2.
            got = float(mod.sintl(list(cell), list(hkl)))
            if not abs(got - want) <= RTOL*want:
                errors.append('%s.sintl%r = %r, expected %r' % (nm, hkl, got, want))
            viaB = np.linalg.norm(np.dot(B, np.asarray(hkl, float)))/(2.*twopi)
            if not abs(got - viaB) <= RTOL*want:
                errors.append('%s.sintl%r = %r, but |B.hkl| gives %r' % (nm, hkl, got, viaB))
        close_cell(mod.a_to_cell(A), cell, nm + '.a_to_cell(A)', errors)
        close_cell(mod.b_to_cell(B), cell, nm + '.b_to_cell(B)', errors)
        close_cell(mod.cell_invert(mod.cell_invert(list(cell))), cell,
                   nm + '.cell_invert twice', errors)
        # reciprocal cell itself
        rc = [float(x) for x in mod.cell_invert(list(cell))]
        rl = np.sqrt(np.diag(Gs))
        want_rc = [rl[0], rl[1], rl[2],
                   math.degrees(math.acos(Gs[1, 2]/rl[1]/rl[2])),
                   math.degrees(math.acos(Gs[0, 2]/rl[0]/rl[2])),
                   math.degrees(math.acos(Gs[0, 1]/rl[0]/rl[1]))]
        close_cell(rc, want_rc, nm + '.cell_invert', errors)
        Ainv = np.asarray(mod.form_a_mat_inv(list(cell)), float)
        P = np.dot(Ainv, A)
        if not np.abs(P - np.eye(3)).max() <= 1e-9:
            errors.append('%s.form_a_mat_inv: Ainv.A deviates from 1 by %g'
                          % (nm, np.abs(P - np.eye(3)).max()))
    return errors


FIXED_CELLS = [[4., 4., 4., 90., 90., 90.],
               [3.2, 5.7, 11.9, 63.1, 97.3, 41.9],
               [7.31, 7.31, 7.31, 101.2, 101.2, 101.2],
               [8.5, 6.1, 4.3, 90., 143.7, 90.],
               [2.9, 2.9, 17.2, 90., 90., 120.]]
FIXED_HKL = [(1, 0, 0), (0, 1, 0), (0, 0, 1), (1, 1, 1), (-2, 3, 5), (7, -4, 1), (0, -5, -6)]


def fingerprint():
    """raw sintl outputs (hex floats) and the helper call pattern of sintl"""
    parts = []
    for mod in (tools, laue):
        calls = {'form_b_mat': 0, 'cell_volume': 0}
        orig_b, orig_v = mod.form_b_mat, mod.cell_volume

        def spy_b(uc, _o=orig_b, _c=calls):
            _c['form_b_mat'] += 1
            return _o(uc)

        def spy_v(uc, _o=orig_v, _c=calls):
            _c['cell_volume'] += 1
            return _o(uc)
        mod.form_b_mat, mod.cell_volume = spy_b, spy_v
        try:
            for cell in FIXED_CELLS:
                for hkl in FIXED_HKL:
                    parts.append(float(mod.sintl(cell, hkl)).hex())
        finally:
            mod.form_b_mat, mod.cell_volume = orig_b, orig_v
        parts.append('%s:calls=%r' % (mod.__name__, sorted(calls.items())))
    text = '|'.join(parts)
    return hashlib.sha1(text.encode()).hexdigest()[:16], parts


def main():
    assert all(gram(*c[3:]) >= 0.02 for c in FIXED_CELLS)
    rng = random.Random(20261001)
    nbad = 0
    cells = [list(c) for c in FIXED_CELLS] + [random_cell(rng) for _ in range(NCELLS)]
    for cell in cells:
        hkls = list(FIXED_HKL[:3])
        while len(hkls) < 3 + NHKL:
            h = tuple(rng.randint(-9, 9) for _ in range(3))
            if h != (0, 0, 0):
                hkls.append(h)
        errs = check_cell(cell, hkls)
        if errs:
            nbad += 1
            if nbad <= 5:
                print('VIOLATION for cell %r' % (cell,))
                for e in errs[:6]:
                    print('   ', e)
    print('checked %d cells x %d hkl in tools and laue: %d cells with violations'
          % (len(cells), 3 + NHKL, nbad))
    fp, parts = fingerprint()
    print('sintl call pattern: %s ; %s' % (parts[len(parts)//2 - 1], parts[-1]))
    print('FINGERPRINT: %s' % fp)
    return 1 if nbad else 0


if __name__ == '__main__':
    sys.exit(main())
