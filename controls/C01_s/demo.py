"""Demo for property C01 (cell parameters, A/B matrices, volume and
sin(theta)/lambda share one metric).

Run as:  PYTHONPATH=<checkout root> /venv/bin/python -B demo.py

The property is tested against an independently computed metric tensor
G = [[a.a, a.b, a.c], ...] over a few hundred valid cells (Gram determinant
>= 0.02, also strongly oblique ones) in both xfab.tools and xfab.laue.
Exit status 0: property holds.  A FINGERPRINT line summarises raw output
details the property leaves open (container types, behaviour for cells that
are NOT geometrically valid, i.e. outside the quantifier).
"""
import hashlib
import sys
import warnings

import numpy as np

from xfab import tools, laue

warnings.simplefilter("ignore")
rng = np.random.RandomState(20261001)


def gram(cell):
    ca, cb, cg = np.cos(np.radians(cell[3:6]))
    return 1 - ca * ca - cb * cb - cg * cg + 2 * ca * cb * cg


def metric(cell):
    a, b, c = cell[:3]
    ca, cb, cg = np.cos(np.radians(cell[3:6]))
    return np.array([[a * a, a * b * cg, a * c * cb],
                     [a * b * cg, b * b, b * c * ca],
                     [a * c * cb, b * c * ca, c * c]])


def cells(count):
    out = [[3., 4., 5., 80., 95., 100.], [4.05, 4.05, 4.05, 90., 90., 90.],
           [2., 3., 4., 90., 90., 120.], [5., 5., 5., 60., 60., 60.],
           [7., 7., 7., 110., 110., 110.], [3., 9., 27., 35., 40., 50.],
           [10., 0.7, 31., 150., 60., 100.], [6., 5., 4., 25., 95., 100.]]
    out = [c for c in out if gram(np.array(c)) >= 0.02]
    while len(out) < count:
        abc = np.exp(rng.uniform(np.log(0.5), np.log(60.), 3))
        ang = rng.uniform(15., 165., 3)
        cell = np.concatenate((abc, ang))
        if gram(cell) >= 0.02:
            out.append(list(cell))
    return out


def rel(x, y):
    x = np.asarray(x, float)
    y = np.asarray(y, float)
    return np.max(np.abs(x - y)) / max(np.max(np.abs(y)), 1e-300)


failures = []


def need(ok, what, cell, extra=""):
    if not ok:
        failures.append("%s cell=%r %s" % (what, list(cell), extra))


def check_module(mod, scale, name):
    """scale = 2*pi for tools, 1 for laue"""
    for idx, cell in enumerate(cells(300)):
        # alternate between list and ndarray input, both are documented forms
        ucell = list(cell) if idx % 2 else np.array(cell)
        G = metric(np.array(cell))
        Ginv = np.linalg.inv(G)
        V = np.sqrt(np.linalg.det(G))

        A = np.asarray(mod.form_a_mat(ucell), float)
        B = np.asarray(mod.form_b_mat(ucell), float)
        need(A.shape == (3, 3) and B.shape == (3, 3), name + " shapes", cell)
        for M, nm in ((A, "A"), (B, "B")):
            low = max(abs(M[1, 0]), abs(M[2, 0]), abs(M[2, 1]))
            need(low <= 1e-12 * np.max(np.abs(M)), name + " %s upper triangular" % nm, cell)
            need(np.all(np.diag(M) > 0), name + " %s positive diagonal" % nm, cell)
        need(rel(A.T.dot(A), G) < 1e-9, name + " A'A = G", cell)
        need(rel(B.T.dot(B), scale ** 2 * Ginv) < 1e-9, name + " B'B = G*", cell)
        need(abs(np.linalg.det(A) - V) < 1e-9 * V, name + " det A = V", cell)
        vol = float(mod.cell_volume(ucell))
        need(abs(vol - V) < 1e-9 * V, name + " cell_volume", cell)

        for _ in range(3):
            hkl = rng.randint(-12, 13, 3)
            if not hkl.any():
                hkl[rng.randint(3)] = 1
            want = np.sqrt(hkl.dot(Ginv).dot(hkl)) / 2.
            got = float(mod.sintl(ucell, hkl))
            got_b = np.linalg.norm(B.dot(hkl)) / (2. * scale)
            need(abs(got - want) < 1e-9 * want, name + " sintl", cell, "hkl=%r" % list(hkl))
            need(abs(got_b - want) < 1e-9 * want, name + " |B.hkl|/2", cell, "hkl=%r" % list(hkl))

        # inverse maps
        Ainv = np.asarray(mod.form_a_mat_inv(ucell), float)
        need(np.max(np.abs(Ainv.dot(A) - np.eye(3))) < 1e-9, name + " A^-1", cell)
        back_a = np.array([float(x) for x in mod.a_to_cell(A)])
        back_b = np.array([float(x) for x in mod.b_to_cell(B)])
        rec = mod.cell_invert(ucell)
        need(len(rec) == 6, name + " cell_invert gives six parameters", cell)
        rec = [float(x) for x in rec]
        back_r = np.array([float(x) for x in mod.cell_invert(rec)])
        ref = np.array(cell, float)
        for back, nm in ((back_a, "a_to_cell"), (back_b, "b_to_cell"), (back_r, "cell_invert twice")):
            need(back.shape == (6,), name + " " + nm + " six parameters", cell)
            need(rel(back[:3], ref[:3]) < 1e-8 and np.max(np.abs(back[3:] - ref[3:])) < 1e-6,
                 name + " " + nm + " round trip", cell, "got %r" % list(back))
        # reciprocal cell against the independent reciprocal metric
        Gr = metric(np.array(rec))
        need(rel(Gr, Ginv) < 1e-8, name + " cell_invert metric", cell)


def outside(call):
    """what happens for an input the property does not cover"""
    try:
        with warnings.catch_warnings():
            warnings.simplefilter("ignore")
            res = call()
    except Exception as exc:  # noqa
        return "raises " + type(exc).__name__
    arr = np.asarray(res, float)
    return "returns " + ("nan" if np.isnan(arr).any() else "finite")


def fingerprint():
    parts = []
    cell = [3., 4., 5., 80., 95., 100.]
    digest = hashlib.sha1()
    for mod, nm in ((tools, "tools"), (laue, "laue")):
        A = mod.form_a_mat(cell)
        B = mod.form_b_mat(cell)
        outs = [("form_a_mat", A), ("form_b_mat", B),
                ("form_a_mat_inv", mod.form_a_mat_inv(cell)),
                ("cell_volume", mod.cell_volume(cell)),
                ("cell_invert", mod.cell_invert(cell)),
                ("a_to_cell", mod.a_to_cell(A)), ("b_to_cell", mod.b_to_cell(B)),
                ("sintl", mod.sintl(cell, [1, -2, 3]))]
        for fn, val in outs:
            parts.append("%s.%s:%s" % (nm, fn, type(val).__name__))
            digest.update(np.asarray(val, float).tobytes())
        bad = [3., 4., 5., 60., 60., 150.]       # Gram determinant < 0
        parts.append("%s.cell_volume(impossible angles) %s" % (nm, outside(lambda: mod.cell_volume(bad))))
        parts.append("%s.sintl(impossible angles) %s" % (nm, outside(lambda: mod.sintl(bad, [1, 0, 0]))))
        parts.append("%s.form_b_mat(negative length) %s" % (nm, outside(lambda: mod.form_b_mat([-3., 4., 5., 90., 90., 90.]))))
    types = hashlib.sha1(";".join(parts).encode()).hexdigest()[:12]
    short = sorted(set(p.split(":", 1)[1] if ":" in p else p.split(") ", 1)[1] for p in parts))
    return "behaviour=%s values=%s [%s]" % (types, digest.hexdigest()[:12], ", ".join(short))


check_module(tools, 2 * np.pi, "tools")
check_module(laue, 1.0, "laue")
print("FINGERPRINT: " + fingerprint())
if failures:
    print("PROPERTY C01 VIOLATED: %d failures" % len(failures))
    for f in failures[:20]:
        print("  " + f)
    sys.exit(1)
print("property C01 holds on all generated cells")
sys.exit(0)
