"""
C02 demo: U, B, UBI convert into each other without loss; ub_to_u_b gives the
unique (proper rotation) x (upper triangular, positive diagonal) split.

Run as  PYTHONPATH=<checkout root> /venv/bin/python -B demo.py
Exit 0 if the property holds on every generated input, 1 otherwise.
Prints a FINGERPRINT line made of the raw output bytes of a few fixed calls
and of the numpy.linalg call pattern they produce.
"""
import sys
import hashlib
import numpy as np
from xfab import tools, laue

rng = np.random.RandomState(20261001)
failures = []


def fail(msg):
    failures.append(msg)
    if len(failures) <= 10:
        print("VIOLATION:", msg)


# ---------------------------------------------------------------- generators
def random_rotation():
    """uniform on SO(3) through a normalised gaussian quaternion"""
    q = rng.standard_normal(4)
    q /= np.sqrt(q.dot(q))
    w, x, y, z = q
    return np.array([
        [1 - 2*(y*y + z*z), 2*(x*y - z*w),     2*(x*z + y*w)],
        [2*(x*y + z*w),     1 - 2*(x*x + z*z), 2*(y*z - x*w)],
        [2*(x*z - y*w),     2*(y*z + x*w),     1 - 2*(x*x + y*y)]])


def bunge(phi1, PHI, phi2):
    c1, s1 = np.cos(phi1), np.sin(phi1)
    c, s = np.cos(PHI), np.sin(PHI)
    c2, s2 = np.cos(phi2), np.sin(phi2)
    z1 = np.array([[c1, -s1, 0], [s1, c1, 0], [0, 0, 1.]])
    x = np.array([[1., 0, 0], [0, c, -s], [0, s, c]])
    z2 = np.array([[c2, -s2, 0], [s2, c2, 0], [0, 0, 1.]])
    return z1.dot(x).dot(z2)


def special_rotations():
    out = [np.eye(3)]
    # axis aligned: the 24 proper signed permutation matrices
    import itertools
    for perm in itertools.permutations(range(3)):
        for signs in itertools.product([1., -1.], repeat=3):
            m = np.zeros((3, 3))
            for i, p in enumerate(perm):
                m[i, p] = signs[i]
            if np.linalg.det(m) > 0:
                out.append(m)
    # near singular Euler cases
    for PHI in (0.0, 1e-9, 1e-5, np.pi - 1e-9, np.pi - 1e-5, np.pi):
        for phi1, phi2 in ((0.3, 1.1), (5.9, 0.0), (0.0, 0.0), (3.0, 6.1)):
            out.append(bunge(phi1, PHI, phi2))
    return out


def random_cell():
    while True:
        kind = rng.randint(4)
        if kind == 0:      # triclinic
            cell = np.concatenate([rng.uniform(2., 25., 3), rng.uniform(60., 120., 3)])
        elif kind == 1:    # monoclinic
            cell = np.concatenate([rng.uniform(2., 25., 3), [90., rng.uniform(91., 125.), 90.]])
        elif kind == 2:    # hexagonal
            a = rng.uniform(2., 12.)
            cell = np.array([a, a, rng.uniform(2., 25.), 90., 90., 120.])
        else:              # orthorhombic / cubic
            a = rng.uniform(2., 12.)
            cell = np.array([a, a, a, 90., 90., 90.]) if rng.rand() < .5 else \
                np.concatenate([rng.uniform(2., 25., 3), [90., 90., 90.]])
        ca, cb, cg = np.cos(np.radians(cell[3:]))
        if 1 - ca*ca - cb*cb - cg*cg + 2*ca*cb*cg > 0.05:
            return cell


def ref_b(cell):
    """independent B (no 2 pi): reciprocal basis of a real space basis built
    with a along x, b in the xy-plane, then rotated so that a* is along x and
    b* in the xy plane, i.e. the Cholesky factor of the reciprocal metric."""
    a, b, c = cell[:3]
    al, be, ga = np.radians(cell[3:])
    G = np.array([[a*a, a*b*np.cos(ga), a*c*np.cos(be)],
                  [a*b*np.cos(ga), b*b, b*c*np.cos(al)],
                  [a*c*np.cos(be), b*c*np.cos(al), c*c]])
    Gstar = np.linalg.inv(G)
    return np.linalg.cholesky(Gstar).T      # upper triangular, positive diagonal


def random_ub():
    """det > 0, condition number log-uniform in [1, 1e6)"""
    kappa = 10**rng.uniform(0, 5.99)
    s = np.array([1., 10**rng.uniform(-np.log10(kappa), 0), 1./kappa])
    P, Q = random_rotation(), random_rotation()
    return 10**rng.uniform(-2, 2) * P.dot(np.diag(s)).dot(Q), kappa


def ref_split(UB):
    """independent reference split: B from the Cholesky factor of UB'UB in
    extended precision, U = UB B^-1"""
    M = UB.astype(np.longdouble)
    G = M.T.dot(M)
    L = np.zeros((3, 3), np.longdouble)
    for i in range(3):
        for j in range(i + 1):
            sm = G[i, j] - sum(L[i, k]*L[j, k] for k in range(j))
            L[i, j] = np.sqrt(sm) if i == j else sm/L[j, j]
    B = L.T
    # back substitution for U = M B^-1
    U = np.zeros((3, 3), np.longdouble)
    for j in range(3):
        U[:, j] = (M[:, j] - sum(U[:, k]*B[k, j] for k in range(j)))/B[j, j]
    return U.astype(float), B.astype(float)


def close(a, b, tol):
    a = np.asarray(a, float)
    b = np.asarray(b, float)
    return a.shape == b.shape and np.all(np.isfinite(a)) and np.max(np.abs(a - b)) <= tol


# ------------------------------------------------------------------- checks
def check_roundtrip(mod, twopi, U, cell, tag):
    Bref = ref_b(cell)*twopi
    ubi = np.asarray(mod.u_to_ubi(U, cell), float)
    scale = np.max(cell[:3])
    # rows of UBI are real space lattice vectors: UBI.(U.B.hkl) = hkl (x 2pi)
    hkl = rng.randint(-12, 13, size=(3, 8)).astype(float)
    g = U.dot(Bref).dot(hkl)
    if not close(ubi.dot(g), twopi*hkl, 1e-8*(1 + np.abs(hkl).max())*twopi):
        fail("%s UBI.(U.B.hkl) != hkl for U=%r cell=%r" % (tag, U.tolist(), cell.tolist()))
    # the metric of the rows is the real space metric of the cell
    a, b, c = cell[:3]
    al, be, ga = np.radians(cell[3:])
    G = np.array([[a*a, a*b*np.cos(ga), a*c*np.cos(be)],
                  [a*b*np.cos(ga), b*b, b*c*np.cos(al)],
                  [a*c*np.cos(be), b*c*np.cos(al), c*c]])
    if not close(ubi.dot(ubi.T), G, 1e-9*scale*scale):
        fail("%s rows of UBI do not have the metric of the cell %r" % (tag, cell.tolist()))
    # and back
    U2 = mod.ubi_to_u(ubi)
    if not close(U2, U, 1e-9):
        fail("%s ubi_to_u(u_to_ubi(U)) != U for cell=%r" % (tag, cell.tolist()))
    cell2 = np.asarray(mod.ubi_to_cell(ubi), float)
    if not (close(cell2[:3], cell[:3], 1e-9*scale) and close(cell2[3:], cell[3:], 1e-7)):
        fail("%s ubi_to_cell(u_to_ubi(U, cell)) = %r != %r" % (tag, cell2.tolist(), cell.tolist()))
    U3, B3 = mod.ubi_to_u_b(ubi)
    if not close(U3, U, 1e-9):
        fail("%s ubi_to_u_b: U differs for cell=%r" % (tag, cell.tolist()))
    if not close(B3, Bref, 1e-9*np.abs(Bref).max()):
        fail("%s ubi_to_u_b: B differs for cell=%r" % (tag, cell.tolist()))
    # Rodrigues vector of the UBI = that of U (skip half turns)
    tr = 1 + np.trace(U)
    if tr > 1e-3:
        r = np.array([U[1, 2]-U[2, 1], U[2, 0]-U[0, 2], U[0, 1]-U[1, 0]])/tr
        if not close(mod.ubi_to_rod(ubi), r, 1e-8*(1 + np.abs(r).max())):
            fail("%s ubi_to_rod differs" % tag)


def check_split(mod, UB, kappa, tag):
    U, B = mod.ub_to_u_b(UB.copy())
    U = np.asarray(U, float)
    B = np.asarray(B, float)
    size = np.abs(UB).max()
    if not close(U.T.dot(U), np.eye(3), 1e-10):
        fail("%s ub_to_u_b: U not orthogonal (cond %.1e)" % (tag, kappa))
    if not abs(np.linalg.det(U) - 1) < 1e-10:
        fail("%s ub_to_u_b: det U != +1 (cond %.1e)" % (tag, kappa))
    if not (abs(B[1, 0]) <= 1e-13*size and abs(B[2, 0]) <= 1e-13*size and abs(B[2, 1]) <= 1e-13*size):
        fail("%s ub_to_u_b: B not upper triangular (cond %.1e)" % (tag, kappa))
    if not np.all(np.diag(B) > 0):
        fail("%s ub_to_u_b: diagonal of B not positive (cond %.1e)" % (tag, kappa))
    if not close(U.dot(B), UB, 1e-12*size):
        fail("%s ub_to_u_b: U.B != UB (cond %.1e)" % (tag, kappa))
    Uref, Bref = ref_split(UB)
    if not close(U, Uref, 1e-15*kappa*100 + 1e-12):
        fail("%s ub_to_u_b: U is not the unique rotation (cond %.1e)" % (tag, kappa))
    if not close(B, Bref, (1e-15*kappa*100 + 1e-12)*size):
        fail("%s ub_to_u_b: B is not the unique triangle (cond %.1e)" % (tag, kappa))


rots = special_rotations() + [random_rotation() for _ in range(250)]
for U in rots:
    cell = random_cell()
    check_roundtrip(tools, 2*np.pi, U, cell, "tools")
    check_roundtrip(laue, 1.0, U, cell, "laue")
nsplit = 0
for _ in range(300):
    UB, kappa = random_ub()
    check_split(tools, UB, kappa, "tools")
    check_split(laue, UB, kappa, "laue")
    nsplit += 1
# U.B of a rotation and a cell metric is split into exactly these
for U in rots[:80]:
    cell = random_cell()
    for mod, twopi, tag in ((tools, 2*np.pi, "tools"), (laue, 1., "laue")):
        Bref = ref_b(cell)*twopi
        U1, B1 = mod.ub_to_u_b(U.dot(Bref))
        if not (close(U1, U, 1e-9) and close(B1, Bref, 1e-9*np.abs(Bref).max())):
            fail("%s ub_to_u_b(U.B) != (U, B) for cell %r" % (tag, cell.tolist()))

print("checked %d rotations x 2 modules, %d general matrices x 2 modules: %d violation(s)"
      % (len(rots), nsplit, len(failures)))


# -------------------------------------------------------------- fingerprint
def fingerprint():
    calls = {"qr": 0, "inv": 0}
    real_qr, real_inv = np.linalg.qr, np.linalg.inv

    def qr(*a, **k):
        calls["qr"] += 1
        return real_qr(*a, **k)

    def inv(*a, **k):
        calls["inv"] += 1
        return real_inv(*a, **k)

    h = hashlib.sha256()
    fixedU = [bunge(0.13, 0.4, 0.21), bunge(4.0, 2.2, 5.5), bunge(1.0, 1e-5, 2.0)]
    fixedcell = [np.array([3., 4., 5., 80., 95., 100.]),
                 np.array([7.1, 7.1, 11.3, 90., 90., 120.]),
                 np.array([5.43, 9.2, 12.7, 71., 103., 66.])]
    fixedUB = [np.array([[1.3, -0.2, 0.7], [0.4, 2.1, -0.9], [-0.6, 0.3, 1.7]]),
               np.array([[-0.31, 1.2, 0.05], [0.02, 0.4, 1.9], [2.5, 0.11, -0.3]]),
               np.array([[1e-3, 2., 3.], [4., 5e2, 6.], [7., 8., 1e3]])]
    fixedUB = [m if np.linalg.det(m) > 0 else m[:, [1, 0, 2]] for m in fixedUB]
    np.linalg.qr, np.linalg.inv = qr, inv
    try:
        for mod in (tools, laue):
            for U, cell in zip(fixedU, fixedcell):
                ubi = mod.u_to_ubi(U, cell)
                h.update(np.ascontiguousarray(ubi, float).tobytes())
                h.update(np.ascontiguousarray(mod.ubi_to_u(ubi), float).tobytes())
                h.update(np.ascontiguousarray(mod.ubi_to_cell(ubi), float).tobytes())
            for UB in fixedUB:
                U1, B1 = mod.ub_to_u_b(UB)
                h.update(np.ascontiguousarray(U1, float).tobytes())
                h.update(np.ascontiguousarray(B1, float).tobytes())
    finally:
        np.linalg.qr, np.linalg.inv = real_qr, real_inv
    return "sha256=%s linalg.qr_calls=%d linalg.inv_calls=%d" % (
        h.hexdigest()[:16], calls["qr"], calls["inv"])


print("FINGERPRINT:", fingerprint())
sys.exit(1 if failures else 0)
