"""
C02 demo (control r): U, B, cell <-> UBI round trips and the QR split, checked
against an independent computation, for xfab.tools (2*pi convention) and
xfab.laue (no 2*pi).

run:  PYTHONPATH=<checkout root> /venv/bin/python -B demo.py
exit 0 = property holds on every generated input, 1 = violated.
Prints one line  FINGERPRINT: ...  (raw bits of a few fixed results of
xfab.tools plus which helpers of xfab.tools were entered meanwhile).
"""
import sys
import hashlib
import itertools
import numpy as np

from xfab import tools, laue

FINGERPRINT_KIND = "r"

rng = np.random.RandomState(20261001)
failures = []


def fail(msg):
    failures.append(msg)
    if len(failures) <= 15:
        print("VIOLATION:", msg)


# ----------------------------------------------------------------- oracles
def cell_ok(cell, margin=0.05):
    ca, cb, cg = np.cos(np.radians(cell[3:]))
    return 1 - ca * ca - cb * cb - cg * cg + 2 * ca * cb * cg > margin


def real_vectors(cell):
    """rows = a, b, c in some cartesian frame (a along x, b in the xy plane)"""
    a, b, c = cell[:3]
    ca, cb, cg = np.cos(np.radians(cell[3:]))
    sg = np.sin(np.radians(cell[5]))
    cy = (ca - cb * cg) / sg
    cz = np.sqrt(max(1 - cb * cb - cy * cy, 0.0))
    return np.array([[a, 0, 0], [b * cg, b * sg, 0], [c * cb, c * cy, c * cz]])


def b_independent(cell):
    """upper triangular, positive diagonal, B^T B = reciprocal metric (no 2pi)"""
    A = real_vectors(cell)
    gstar = np.linalg.inv(A.dot(A.T))
    return np.linalg.cholesky(gstar).T


def cell_from_rows(M):
    la = np.sqrt((M * M).sum(axis=1))
    def ang(u, v, lu, lv):
        return np.degrees(np.arccos(np.clip(u.dot(v) / lu / lv, -1, 1)))
    return np.array([la[0], la[1], la[2],
                     ang(M[1], M[2], la[1], la[2]),
                     ang(M[0], M[2], la[0], la[2]),
                     ang(M[0], M[1], la[0], la[1])])


def quat_to_mat(q):
    w, x, y, z = q / np.linalg.norm(q)
    return np.array([[1 - 2 * (y * y + z * z), 2 * (x * y - w * z), 2 * (x * z + w * y)],
                     [2 * (x * y + w * z), 1 - 2 * (x * x + z * z), 2 * (y * z - w * x)],
                     [2 * (x * z - w * y), 2 * (y * z + w * x), 1 - 2 * (x * x + y * y)]])


def rz(t):
    return np.array([[np.cos(t), -np.sin(t), 0], [np.sin(t), np.cos(t), 0], [0, 0, 1]])


def rx(t):
    return np.array([[1, 0, 0], [0, np.cos(t), -np.sin(t)], [0, np.sin(t), np.cos(t)]])


def rot_from_rodrigues(r):
    """active rotation by 2*atan|r| about r/|r|"""
    r = np.asarray(r, float)
    nr = np.linalg.norm(r)
    if nr == 0:
        return np.eye(3)
    k = r / nr
    th = 2 * np.arctan(nr)
    K = np.array([[0, -k[2], k[1]], [k[2], 0, -k[0]], [-k[1], k[0], 0]])
    return np.eye(3) + np.sin(th) * K + (1 - np.cos(th)) * K.dot(K)


def mgs_positive(M):
    """Gram-Schmidt (twice) : the unique Q R with R upper, positive diagonal"""
    Q = np.zeros((3, 3))
    for j in range(3):
        v = M[:, j].copy()
        for _ in range(2):
            for i in range(j):
                v = v - Q[:, i].dot(v) * Q[:, i]
        Q[:, j] = v / np.linalg.norm(v)
    return Q, np.triu(Q.T.dot(M))


# ----------------------------------------------------------------- inputs
def rotations():
    out = []
    for _ in range(150):
        out.append(("uniform", quat_to_mat(rng.standard_normal(4))))
    for perm in itertools.permutations(range(3)):
        for signs in itertools.product([1, -1], repeat=3):
            P = np.zeros((3, 3))
            for i, (p, s) in enumerate(zip(perm, signs)):
                P[i, p] = s
            if np.linalg.det(P) > 0:
                out.append(("axis-aligned", P))
    for PHI in [0.0, 1e-9, 1e-6, 1e-3, np.pi - 1e-3, np.pi - 1e-6, np.pi - 1e-9, np.pi]:
        for _ in range(4):
            p1, p2 = rng.uniform(0, 2 * np.pi, 2)
            out.append(("euler-near-singular", rz(p1).dot(rx(PHI)).dot(rz(p2))))
    return out


def cells():
    out = [[3, 4, 5, 80, 95, 100], [4.0, 4.0, 4.0, 90, 90, 90], [2., 3., 4., 90., 90., 120.],
           [5.4, 5.4, 5.4, 55.0, 55.0, 55.0], [5.4, 5.4, 5.4, 112.0, 112.0, 112.0],
           [7.1, 9.2, 11.3, 90, 103.5, 90], [3, 3, 12, 90, 90, 90]]
    while len(out) < 40:
        c = list(rng.uniform(2, 25, 3)) + list(rng.uniform(55, 125, 3))
        if cell_ok(c):
            out.append(c)
    return out


def ub_matrices():
    out = []
    while len(out) < 300:
        P = quat_to_mat(rng.standard_normal(4))
        Q = quat_to_mat(rng.standard_normal(4))
        logc = rng.uniform(0, 5)                       # condition number up to 1e5
        s = np.array([1.0, 10 ** (-logc * rng.uniform()), 10 ** (-logc)])
        scale = 10 ** rng.uniform(-2, 2)
        out.append(P.dot(np.diag(s * scale)).dot(Q.T))  # det > 0
    return out


# ----------------------------------------------------------------- the checks
def close(a, b, tol, what):
    a = np.asarray(a, float)
    b = np.asarray(b, float)
    if a.shape != b.shape or not np.all(np.isfinite(a)) or np.abs(a - b).max() > tol:
        fail("%s: got %r expected %r" % (what, a.tolist(), b.tolist()))
        return False
    return True


HKLS = [np.array(h) for h in [(1, 0, 0), (0, 1, 0), (0, 0, 1), (1, -2, 3), (-5, 7, 11), (0, 0, -4)]]

ncase = 0
for modname, mod, k in (("tools", tools, 2 * np.pi), ("laue", laue, 1.0)):
    rots = rotations()
    cls = cells()
    for i, (kind, U) in enumerate(rots):
        for cell in (cls[i % len(cls)], cls[(7 * i + 3) % len(cls)]):
            ncase += 1
            tag = "%s %s cell=%s" % (modname, kind, np.round(cell, 4).tolist())
            Bind = b_independent(cell)                 # no 2 pi
            ubi = np.asarray(mod.u_to_ubi(U.copy(), list(cell)))
            sc = max(cell[:3])
            # UBI rows are the real space lattice vectors
            for hkl in HKLS:
                g = U.dot(Bind.dot(hkl)) * k           # g-vector in the module's convention
                close(ubi.dot(g), k * hkl, 1e-8 * (1 + np.abs(hkl).max()) * k, tag + " UBI.(U.B.hkl)")
            close(cell_from_rows(ubi), np.asarray(cell, float), 1e-7 * sc, tag + " rows of UBI have the cell")
            # ... and decompose again
            close(mod.ubi_to_cell(ubi.copy()), np.asarray(cell, float), 1e-7 * sc, tag + " ubi_to_cell")
            close(mod.ubi_to_u(ubi.copy()), U, 1e-8, tag + " ubi_to_u")
            res = mod.ubi_to_u_b(ubi.copy())
            U2, B2 = res
            close(U2, U, 1e-8, tag + " ubi_to_u_b U")
            close(B2, k * Bind, 1e-8 * k * np.abs(Bind).max(), tag + " ubi_to_u_b B")
            if 1 + np.trace(U) > 1e-2:
                r = mod.ubi_to_rod(ubi.copy())
                close(rot_from_rodrigues(r).T, U, 1e-7, tag + " ubi_to_rod")
    for M in ub_matrices():
        ncase += 1
        tag = "%s ub_to_u_b cond=%.3g" % (modname, np.linalg.cond(M))
        U1, B1 = mod.ub_to_u_b(M.copy())
        U1 = np.asarray(U1)
        B1 = np.asarray(B1)
        nm = np.abs(M).max()
        close(U1.T.dot(U1), np.eye(3), 1e-10, tag + " U orthogonal")
        if not np.linalg.det(U1) > 0:
            fail(tag + " det U <= 0")
        if np.abs(np.tril(B1, -1)).max() > 0:
            fail(tag + " B not upper triangular")
        if not np.all(np.diag(B1) > 0):
            fail(tag + " diagonal of B not positive")
        close(U1.dot(B1), M, 1e-12 * nm, tag + " U.B = UB")
        Q, R = mgs_positive(M)
        close(U1, Q, 1e-8, tag + " U vs Gram-Schmidt")
        close(B1, R, 1e-10 * nm, tag + " B vs Gram-Schmidt")

print("cases checked: %d, violations: %d" % (ncase, len(failures)))


# ----------------------------------------------------------------- fingerprint
def fingerprint():
    h = hashlib.sha1()
    fixedU = [rz(0.13).dot(rx(0.4)).dot(rz(0.21)), quat_to_mat(np.array([0.3, -0.5, 0.7, 0.2])),
              quat_to_mat(np.array([0.9, 0.1, -0.2, 0.3]))]
    fixedc = [[3, 4, 5, 80, 95, 100], [6.1, 7.3, 9.9, 71.0, 104.0, 98.0], [4.05, 4.05, 4.05, 90, 90, 90]]
    entered = {}
    names = ["form_b_mat", "a_to_cell", "ubi_to_cell", "ub_to_u_b"]
    saved = dict((nm, getattr(tools, nm)) for nm in names)

    def spy(nm):
        f = saved[nm]
        def w(*a, **kw):
            entered[nm] = entered.get(nm, 0) + 1
            return f(*a, **kw)
        return w
    for nm in names:
        setattr(tools, nm, spy(nm))
    try:
        for U in fixedU:
            for c in fixedc:
                ubi = tools.u_to_ubi(U, c)
                h.update(np.ascontiguousarray(ubi, float).tobytes())
                h.update(np.ascontiguousarray(tools.ubi_to_u(ubi), float).tobytes())
                h.update(np.ascontiguousarray(tools.ubi_to_cell(ubi), float).tobytes())
                U2, B2 = tools.ubi_to_u_b(ubi)
                h.update(np.ascontiguousarray(U2, float).tobytes())
                h.update(np.ascontiguousarray(B2, float).tobytes())
    finally:
        for nm in names:
            setattr(tools, nm, saved[nm])
    calls = ",".join("%s=%d" % (nm, entered.get(nm, 0)) for nm in names)
    return "bits=%s tools-helpers-entered[%s]" % (h.hexdigest()[:16], calls)


print("FINGERPRINT: " + fingerprint())
sys.exit(1 if failures else 0)
