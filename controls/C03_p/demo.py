"""Demo for property C03 (rotation parametrisations are proper rotations equal to
the documented compositions; u_to_euler / u_to_rod invert them to 1e-6).

Run as:  PYTHONPATH=<checkout root> /venv/bin/python -B demo.py
Exit status 0 when the property holds on every generated input, 1 otherwise.
Everything is compared with an independent computation (elementary rotations
built here with the math module and multiplied together).
"""
import sys
import math
import hashlib
import itertools
import numpy as np

import xfab
from xfab import tools, laue

MODULES = (('tools', tools), ('laue', laue))
failures = []


def fail(msg):
    failures.append(msg)
    if len(failures) <= 20:
        print('VIOLATION:', msg)


# ---------------------------------------------------------------- oracle
def Rx(a):
    c, s = math.cos(a), math.sin(a)
    return np.array([[1., 0., 0.], [0., c, -s], [0., s, c]])


def Ry(a):
    c, s = math.cos(a), math.sin(a)
    return np.array([[c, 0., s], [0., 1., 0.], [-s, 0., c]])


def Rz(a):
    c, s = math.cos(a), math.sin(a)
    return np.array([[c, -s, 0.], [s, c, 0.], [0., 0., 1.]])


def mul(*ms):
    out = np.eye(3)
    for m in ms:
        out = out @ m
    return out


def euler_oracle(p1, P, p2):
    return mul(Rz(p1), Rx(P), Rz(p2))


def active_axis_angle(axis, theta):
    """Right handed active rotation by theta about the unit vector axis."""
    x, y, z = axis
    K = np.array([[0., -z, y], [z, 0., -x], [-y, x, 0.]])
    return math.cos(theta) * np.eye(3) + math.sin(theta) * K \
        + (1. - math.cos(theta)) * np.outer(axis, axis)


def rod_oracle(r):
    r = np.asarray(r, float)
    nrm = math.sqrt(float(r @ r))
    if nrm == 0.:
        return np.eye(3)
    return active_axis_angle(r / nrm, 2. * math.atan(nrm)).T   # passive sense


def is_proper(M, tol=1e-10):
    M = np.asarray(M, float)
    return (M.shape == (3, 3) and np.all(np.isfinite(M))
            and np.max(np.abs(M @ M.T - np.eye(3))) < tol
            and abs(np.linalg.det(M) - 1.) < tol)


def check_builder(tag, got, want, tol=1e-10):
    got = np.asarray(got, float)
    if not is_proper(got):
        fail('%s: not a proper rotation' % tag)
    elif np.max(np.abs(got - want)) > tol:
        fail('%s: differs from documented composition by %.3g'
             % (tag, np.max(np.abs(got - want))))


rng = np.random.RandomState(20260301)
ncases = 0

# ---------------------------------------------------------------- constructors
# 'all real arguments': the optional input range checks of the package (which
# reject Euler angles outside [0, 2*pi]) are switched off for this part only
xfab.CHECKS.activated = False
def some_angles(k):
    a = list(rng.uniform(-10., 10., k))
    a[0] = rng.uniform(-1e3, 1e3)
    return a


for name, mod in MODULES:
    for i in range(120):
        a, b, c = rng.uniform(-10., 10., 3)
        if i % 10 == 0:
            a, b, c = rng.uniform(-1e3, 1e3, 3)
        if i % 10 == 1:
            a, b, c = [rng.choice([0., math.pi / 2, math.pi, -math.pi, 2 * math.pi]) for _ in range(3)]
        check_builder('%s.euler_to_u%r' % (name, (a, b, c)), mod.euler_to_u(a, b, c), euler_oracle(a, b, c))
        check_builder('%s.form_omega_mat(%r)' % (name, a), mod.form_omega_mat(a), Rz(a))
        check_builder('%s.form_omega_mat_general%r' % (name, (a, b, c)),
                      mod.form_omega_mat_general(a, b, c), mul(Rx(b), Ry(c), Rz(a)))
        check_builder('%s.detect_tilt%r' % (name, (a, b, c)), mod.detect_tilt(a, b, c),
                      mul(Rx(a), Ry(b), Rz(c)))
        wdeg = math.degrees(a)
        P = mul(Rx(b), Ry(c))
        check_builder('%s.quart_to_omega%r' % (name, (wdeg, b, c)), mod.quart_to_omega(wdeg, b, c),
                      mul(P, Rz(math.radians(wdeg)), P.T))
        ncases += 5
    # Rodrigues vectors, |r| up to 1e3
    for i in range(150):
        d = rng.normal(size=3)
        d /= np.linalg.norm(d)
        mag = [rng.uniform(0, 2), 10 ** rng.uniform(-8, 3), 1e3, 0.0][i % 4]
        r = d * mag
        if i % 15 == 2:
            r = np.array([0., 0., 0.]); r[i % 3] = mag
        check_builder('%s.rod_to_u(%r)' % (name, list(r)), mod.rod_to_u(r), rod_oracle(r))
        check_builder('%s.rod_to_u(list)' % name, mod.rod_to_u(list(r)), rod_oracle(r))
        ncases += 2

xfab.CHECKS.activated = True   # package default

# ---------------------------------------------------------------- u_to_euler
def euler_inputs():
    out = []
    # exact gimbal lock, PHI = 0 or pi
    for P in (0., math.pi):
        for _ in range(20):
            a, b = rng.uniform(0, 2 * math.pi, 2)
            out.append(euler_oracle(a, P, b))
    # near gimbal lock, PHI within 1e-12 .. 1e-3 of 0 or pi
    for e in np.linspace(-12, -3, 46):
        for base in (0., math.pi):
            a, b = rng.uniform(0, 2 * math.pi, 2)
            d = 10. ** e
            out.append(euler_oracle(a, base + d if base == 0. else base - d, b))
    # phi1, phi2 close to multiples of pi/2 (small entries in third row / column)
    for k in range(8):
        for d in (0., 3e-9, -3e-9, 1e-7, -1e-12):
            P = rng.uniform(0.05, math.pi - 0.05)
            out.append(euler_oracle(k * math.pi / 2 + d, P, rng.uniform(0, 2 * math.pi)))
            out.append(euler_oracle(rng.uniform(0, 2 * math.pi), P, k * math.pi / 2 + d))
    # axis aligned proper rotations (24 signed permutation matrices)
    for perm in itertools.permutations(range(3)):
        for signs in itertools.product((1., -1.), repeat=3):
            M = np.zeros((3, 3))
            for i in range(3):
                M[i, perm[i]] = signs[i]
            if np.linalg.det(M) > 0:
                out.append(M)
    # generic rotations
    for _ in range(150):
        q, rr = np.linalg.qr(rng.normal(size=(3, 3)))
        q = q * np.sign(np.diag(rr))
        if np.linalg.det(q) < 0:
            q[:, 0] = -q[:, 0]
        out.append(q)
    return out


EUL = euler_inputs()
for name, mod in MODULES:
    for U in EUL:
        assert is_proper(U, 1e-12)
        ang = np.asarray(mod.u_to_euler(U.copy()), float)
        ncases += 1
        if ang.shape != (3,) or not np.all(np.isfinite(ang)):
            fail('%s.u_to_euler: bad output %r' % (name, ang)); continue
        p1, P, p2 = [float(v) for v in ang]
        if not (0. <= p1 <= 2 * math.pi and 0. <= P <= math.pi and 0. <= p2 <= 2 * math.pi):
            fail('%s.u_to_euler: angles out of range %r' % (name, ang))
        err = np.max(np.abs(euler_oracle(p1, P, p2) - U))
        if err > 1e-6:
            fail('%s.u_to_euler: rebuild error %.3g for U=%r' % (name, err, U.tolist()))

# ---------------------------------------------------------------- u_to_rod
for name, mod in MODULES:
    for i in range(200):
        d = rng.normal(size=3)
        d /= np.linalg.norm(d)
        theta = [rng.uniform(0, math.radians(179.9)), 10 ** rng.uniform(-9, 0),
                 math.radians(179.9), 0.0][i % 4]
        U = active_axis_angle(d, theta).T
        r = np.asarray(mod.u_to_rod(U.copy()), float)
        ncases += 1
        if r.shape != (3,) or not np.all(np.isfinite(r)):
            fail('%s.u_to_rod: not a finite vector %r' % (name, r)); continue
        err = np.max(np.abs(rod_oracle(r) - U))
        if err > 1e-6:
            fail('%s.u_to_rod: rebuild error %.3g' % (name, err))
        err = np.max(np.abs(np.asarray(mod.rod_to_u(r), float) - U))
        if err > 1e-6:
            fail('%s.rod_to_u(u_to_rod(U)): rebuild error %.3g' % (name, err))

# ---------------------------------------------------------------- fingerprint
def h(obj):
    return hashlib.sha1(repr(obj).encode()).hexdigest()[:10]


fixed_U = [euler_oracle(math.pi / 2 - 3e-9, 0.7, 1.0),
           euler_oracle(0.3, 1.1, math.pi + 2e-9),
           euler_oracle(1.234, 2.5e-6, 4.321),
           euler_oracle(2.0, 1.0, 0.5)]
fixed_r = [[0.23, -0.34, 0.7], [1e-3, 2e-3, -3e-3], [300., -400., 500.], [0.1, 0.2, 0.3]]
raw_e, raw_r, layout = [], [], []
for name, mod in MODULES:
    for U in fixed_U:
        raw_e.append([float(v).hex() for v in mod.u_to_euler(U)])
    for r in fixed_r:
        M = mod.rod_to_u(r)
        raw_r.append([float(v).hex() for v in np.asarray(M).ravel()])
        layout.append(bool(np.asarray(M).flags['C_CONTIGUOUS']))
helpers = [hasattr(mod, '_arctan2') for _, mod in MODULES]
print('FINGERPRINT: u_to_euler=%s rod_to_u=%s rod_c_contiguous=%s has__arctan2=%s'
      % (h(raw_e), h(raw_r), layout[0], helpers))

print('%d library calls checked, %d violations' % (ncases, len(failures)))
sys.exit(1 if failures else 0)
