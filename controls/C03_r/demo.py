"""C03 control r: u_to_euler chooses phi1=0 (instead of phi2=0) at gimbal lock.

Tests the property with an independent composition Rz(phi1) Rx(PHI) Rz(phi2):
angles in [0,2pi]x[0,pi]x[0,2pi] and rebuilt matrix within 1e-6 of the input,
for generic rotations, exact lock, near lock (1e-12..1e-3) and axis-aligned
matrices, in both modules.
"""
import sys, itertools, hashlib
import numpy as np
import xfab
from xfab import tools, laue

TWO_PI = 2*np.pi

def Rx(a):
    c, s = np.cos(a), np.sin(a)
    return np.array([[1, 0, 0], [0, c, -s], [0, s, c]], float)

def Rz(a):
    c, s = np.cos(a), np.sin(a)
    return np.array([[c, -s, 0], [s, c, 0], [0, 0, 1]], float)

def compose(p1, P, p2):
    return Rz(p1).dot(Rx(P)).dot(Rz(p2))

def exact_lock(t, pole):
    """Rotation with PHI exactly 0 (pole=+1) or pi (pole=-1): no rounding in
    the third row / column."""
    c, s = np.cos(t), np.sin(t)
    if pole > 0:
        return np.array([[c, -s, 0], [s, c, 0], [0, 0, 1.0]])
    return np.array([[c, s, 0], [s, -c, 0], [0, 0, -1.0]])

def axis_aligned():
    out = []
    for perm in itertools.permutations(range(3)):
        for signs in itertools.product((1, -1), repeat=3):
            M = np.zeros((3, 3))
            for i in range(3):
                M[i, perm[i]] = signs[i]
            if np.linalg.det(M) > 0:
                out.append(M)
    return out

def cases():
    rng = np.random.RandomState(20261001)
    out = []
    for _ in range(200):
        out.append(compose(rng.uniform(0, TWO_PI), np.arccos(rng.uniform(-1, 1)), rng.uniform(0, TWO_PI)))
    for _ in range(60):
        out.append(exact_lock(rng.uniform(-TWO_PI, TWO_PI), +1))
        out.append(exact_lock(rng.uniform(-TWO_PI, TWO_PI), -1))
    for t in (0.0, np.pi/2, np.pi, 3*np.pi/2, TWO_PI):
        out.append(exact_lock(t, +1))
        out.append(exact_lock(t, -1))
    for e in range(-12, -2):
        for _ in range(8):
            d = 10.0**e * rng.uniform(1, 10) if e < -3 else 10.0**e
            p1, p2 = rng.uniform(0, TWO_PI, 2)
            out.append(compose(p1, d, p2))
            out.append(compose(p1, np.pi - d, p2))
    out.extend(axis_aligned())
    return out

def main():
    bad = 0
    total = 0
    for mod in (tools, laue):
        for U in cases():
            total += 1
            ang = mod.u_to_euler(U)
            p1, P, p2 = (float(x) for x in ang)
            ok = (0 <= p1 <= TWO_PI) and (0 <= P <= np.pi) and (0 <= p2 <= TWO_PI)
            ok = ok and np.all(np.isfinite([p1, P, p2]))
            V = compose(p1, P, p2)
            err = np.abs(V - U).max()
            # the library's own constructor must agree with the documented composition
            W = mod.euler_to_u(p1, P, p2)
            err2 = np.abs(W - V).max()
            orth = np.abs(W.T.dot(W) - np.eye(3)).max()
            det = abs(np.linalg.det(W) - 1)
            if not (ok and err < 1e-6 and err2 < 1e-12 and orth < 1e-12 and det < 1e-12):
                bad += 1
                print("VIOLATION", mod.__name__, U.tolist(), (p1, P, p2), err, err2)
    fixed = [exact_lock(0.3, +1), exact_lock(2.5, -1), exact_lock(-1.1, +1),
             exact_lock(4.0, -1), compose(1.0, 2e-9, 0.5), np.diag([1.0, -1.0, -1.0])]
    raw = []
    for mod in (tools, laue):
        for U in fixed:
            raw.append(["%.9f" % (float(x) + 0.0) for x in mod.u_to_euler(U)])
    print("checked %d matrices, %d violations" % (total, bad))
    print("FINGERPRINT: " + hashlib.sha1(repr(raw).encode()).hexdigest()[:16] + " " + repr(raw[:2]))
    return 1 if bad else 0

if __name__ == "__main__":
    sys.exit(main())
