"""C03 control s: u_to_rod returns the point at infinity for exact half turns
(an input the property excludes) instead of raising ValueError.

Tests the Rodrigues part of the property with an independent computation:
rod_to_u(r) is the transpose of the active right-handed rotation about r by
2*atan|r| (orthonormal, det +1), and u_to_rod returns a finite vector that
rebuilds the matrix to 1e-6, for |r| up to 1e3 and for generic proper rotations
whose angle is not within 1e-6 of 180 deg; both modules.
"""
import sys, hashlib
import numpy as np
from xfab import tools, laue

def active_rotation(axis, angle):
    """Right-handed active rotation (Rodrigues' rotation formula)."""
    a = np.asarray(axis, float)
    a = a/np.sqrt(a.dot(a))
    K = np.array([[0, -a[2], a[1]], [a[2], 0, -a[0]], [-a[1], a[0], 0]])
    return np.eye(3) + np.sin(angle)*K + (1 - np.cos(angle))*K.dot(K)

def rod_reference(r):
    r = np.asarray(r, float)
    nr = np.sqrt(r.dot(r))
    if nr == 0:
        return np.eye(3)
    return active_rotation(r, 2*np.arctan(nr)).T

def rod_vectors():
    rng = np.random.RandomState(3031)
    out = [np.zeros(3), np.array([1.0, 0, 0]), np.array([0, -1.0, 0]), np.array([0, 0, 1e3]),
           np.array([1e-9, 0, 0]), np.array([0.23, -0.34, 0.7])]
    for _ in range(300):
        d = rng.normal(size=3)
        d /= np.linalg.norm(d)
        out.append(d * 10.0**rng.uniform(-6, 3))
    return out

def generic_rotations():
    rng = np.random.RandomState(77)
    out = []
    while len(out) < 150:
        d = rng.normal(size=3)
        ang = rng.uniform(-np.pi, np.pi)
        if abs(abs(ang) - np.pi) < 1e-3:
            continue
        out.append(active_rotation(d, ang))
    # close to, but outside, the excluded band around 180 deg
    for delta in (1e-2, 1e-3, 1e-4, 1e-5):
        for _ in range(5):
            out.append(active_rotation(rng.normal(size=3), np.pi - delta))
            out.append(active_rotation(rng.normal(size=3), -np.pi + delta))
    return out

def main():
    bad = 0
    total = 0
    for mod in (tools, laue):
        for r in rod_vectors():
            total += 1
            U = mod.rod_to_u(r)
            ref = rod_reference(r)
            e_ref = np.abs(U - ref).max()
            orth = np.abs(U.T.dot(U) - np.eye(3)).max()
            det = abs(np.linalg.det(U) - 1)
            back = np.asarray(mod.u_to_rod(U), float)
            fin = back.shape == (3,) and np.all(np.isfinite(back))
            e_back = np.abs(rod_reference(back) - U).max() if fin else np.inf
            if not (e_ref < 1e-9 and orth < 1e-9 and det < 1e-9 and fin and e_back < 1e-6):
                bad += 1
                print("VIOLATION rod", mod.__name__, list(r), e_ref, orth, det, fin, e_back)
        for U in generic_rotations():
            total += 1
            back = np.asarray(mod.u_to_rod(U), float)
            fin = back.shape == (3,) and np.all(np.isfinite(back))
            e1 = np.abs(rod_reference(back) - U).max() if fin else np.inf
            e2 = np.abs(mod.rod_to_u(back) - U).max() if fin else np.inf
            if not (fin and e1 < 1e-6 and e2 < 1e-6):
                bad += 1
                print("VIOLATION u", mod.__name__, U.tolist(), back, e1, e2)
    # raw behaviour on a few fixed inputs, two of them inside the quantifier and
    # three exact half turns (excluded by the property)
    fixed = [rod_reference([0.1, 0.2, -0.3]), rod_reference([0, 0, 5.0]),
             np.diag([1.0, -1.0, -1.0]), np.diag([-1.0, -1.0, 1.0]),
             np.array([[0, 1.0, 0], [1.0, 0, 0], [0, 0, -1.0]])]
    raw = []
    for mod in (tools, laue):
        for U in fixed:
            try:
                raw.append(["%.9g" % x for x in mod.u_to_rod(U)])
            except Exception as e:
                raw.append(type(e).__name__)
    print("checked %d inputs, %d violations" % (total, bad))
    print("FINGERPRINT: " + hashlib.sha1(repr(raw).encode()).hexdigest()[:16] + " " + repr(raw[1:4]))
    return 1 if bad else 0

if __name__ == "__main__":
    sys.exit(main())
