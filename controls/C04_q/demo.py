"""
Negative control C04_q: demo / property check.

Run as   PYTHONPATH=<checkout root> /venv/bin/python -B demo.py

Checks property C04 (every tabulated space group is a group modulo lattice
translations, consistent with nsymop / nuniq / Laue / crystal system, and
lookup by name == lookup by number) with an independent computation over all
237 tables and ~1700 spellings of the accepted names.  Exit status 0 iff the
property holds.  Prints a FINGERPRINT line built from the raw, unrounded
translation parts of some groups with 3-/6-fold screw axes or R centring.
"""
import warnings
warnings.simplefilter("ignore")
# ---- independent check of property C04 (shared body) -----------------------
import sys, itertools, hashlib, random
from fractions import Fraction
import numpy as np
from xfab import sg as sgmod

TOL = 2e-5          # tables are given to six decimals (0.333333, 0.666667)
LAUE_ORDER = {"-1": 2, "2/m": 4, "mmm": 8, "4/m": 8, "4/mmm": 16, "-3": 6,
              "-3m": 12, "-3m1": 12, "-31m": 12, "6/m": 12, "6/mmm": 24,
              "m-3": 24, "m-3m": 48}
RHOMB = (146, 148, 155, 160, 161, 166, 167)
failures = []


def fail(msg):
    failures.append(msg)


def E(i, j):
    m = np.zeros((3, 3))
    m[i, j] = m[j, i] = 1.0
    return m


def metric_basis(system, setting):
    """Basis of the linear space of metric tensors of conforming cells."""
    if setting == "rhombohedral":
        return [np.eye(3), np.ones((3, 3)) - np.eye(3)]
    if system == "triclinic":
        return [E(i, j) for i in range(3) for j in range(i, 3)]
    if system == "monoclinic":           # unique axis b
        return [E(0, 0), E(1, 1), E(2, 2), E(0, 2)]
    if system == "orthorhombic":
        return [E(0, 0), E(1, 1), E(2, 2)]
    if system == "tetragonal":
        return [E(0, 0) + E(1, 1), E(2, 2)]
    if system in ("trigonal", "hexagonal"):
        return [E(0, 0) + E(1, 1) - 0.5 * E(0, 1), E(2, 2)]
    if system == "cubic":
        return [np.eye(3)]
    raise KeyError(system)


def latt_equal(t1, t2):
    d = np.asarray(t1, float) - np.asarray(t2, float)
    return bool(np.all(np.abs(d - np.round(d)) < TOL))


def check_group(g, tag):
    rot = np.asarray(g.rot)
    trans = np.asarray(g.trans, float)
    if rot.shape != (g.nsymop, 3, 3) or trans.shape != (g.nsymop, 3):
        fail("%s: shapes %s %s vs nsymop %s" % (tag, rot.shape, trans.shape, g.nsymop))
        return
    if not np.all(rot == np.round(rot)):
        fail("%s: non-integer rotation" % tag)
        return
    R = [np.round(r).astype(int) for r in rot]
    keys = [r.tobytes() for r in R]
    # buckets by rotation
    buckets = {}
    for i, k in enumerate(keys):
        buckets.setdefault(k, []).append(i)

    def find(Rm, t):
        for j in buckets.get(Rm.astype(int).tobytes(), ()):
            if latt_equal(trans[j], t):
                return j
        return None

    # identity
    if find(np.eye(3, dtype=int), np.zeros(3)) is None:
        fail("%s: identity missing" % tag)
    # duplicates
    for k, idx in buckets.items():
        for a, b in itertools.combinations(idx, 2):
            if latt_equal(trans[a], trans[b]):
                fail("%s: duplicate ops %d %d" % (tag, a, b))
    # closure / inverses
    for i in range(g.nsymop):
        Ri = R[i]
        Rinv = np.round(np.linalg.inv(Ri)).astype(int)
        if find(Rinv, -Rinv.dot(trans[i])) is None:
            fail("%s: inverse of op %d missing" % (tag, i))
        for j in range(g.nsymop):
            if find(Ri.dot(R[j]), Ri.dot(trans[j]) + trans[i]) is None:
                fail("%s: product %d*%d not in table" % (tag, i, j))
                break
    # first nuniq rotations = the distinct point group rotations
    first = set(keys[:g.nuniq])
    if len(first) != g.nuniq or first != set(keys):
        fail("%s: first nuniq rotations are not the distinct rotations" % tag)
    ncen = len(buckets[np.eye(3, dtype=int).tobytes()]) if np.eye(3, dtype=int).tobytes() in buckets else 0
    if g.nsymop != g.nuniq * ncen:
        fail("%s: nsymop %d != nuniq %d x centrings %d" % (tag, g.nsymop, g.nuniq, ncen))
    # Laue class order
    withinv = set(keys) | set((-r).tobytes() for r in R)
    if g.Laue not in LAUE_ORDER or len(withinv) != LAUE_ORDER[g.Laue]:
        fail("%s: Laue %r but |P x -1| = %d" % (tag, g.Laue, len(withinv)))
    # determinant +-1 and metric preservation
    setting = "rhombohedral" if g.cell_choice == "rhombohedral" else "std"
    for Gm in metric_basis(g.crystal_system, setting):
        for r in R:
            if abs(abs(np.linalg.det(r)) - 1) > 1e-9 or not np.allclose(r.T.dot(Gm).dot(r), Gm, atol=1e-12):
                fail("%s: rotation does not preserve conforming metric" % tag)
                break


def same_group(g1, g2):
    """same set of operations modulo lattice translations + same metadata"""
    if (g1.no, g1.nsymop, g1.nuniq, g1.Laue, g1.crystal_system, g1.cell_choice, g1.name) != \
       (g2.no, g2.nsymop, g2.nuniq, g2.Laue, g2.crystal_system, g2.cell_choice, g2.name):
        return False
    r1, r2 = np.asarray(g1.rot), np.asarray(g2.rot)
    t1, t2 = np.asarray(g1.trans, float), np.asarray(g2.trans, float)
    used = set()
    for i in range(len(r1)):
        hit = None
        for j in range(len(r2)):
            if j not in used and np.array_equal(r1[i], r2[j]) and latt_equal(t1[i], t2[j]):
                hit = j
                break
        if hit is None:
            return False
        used.add(hit)
    return True


def run_property():
    ntab = 0
    bynumber = {}
    for no in range(1, 231):
        settings = ["standard"] + (["rhombohedral"] if no in RHOMB else [])
        for cc in settings:
            g = sgmod.sg(sgno=no, cell_choice=cc)
            if g.no != no:
                fail("sgno=%d gives group no %r" % (no, g.no))
            check_group(g, "Sg%d/%s" % (no, cc))
            bynumber[(no, cc)] = g
            ntab += 1
    # names
    rnd = random.Random(4)
    nnames = 0
    for key, klass in sorted(sgmod.sgdic.items()):
        no = int(str(klass).replace("Sg", "")) if isinstance(klass, str) else None
        variants = [key, key.upper(), key.capitalize(), "  " + key + " ",
                    " ".join(key), "\t".join(key.capitalize()) + "\n"]
        # one random case / blank pattern
        variants.append("".join((c.upper() if rnd.random() < .5 else c) + (" " if rnd.random() < .3 else "")
                                for c in key))
        for v in variants:
            g = sgmod.sg(sgname=v)
            nnames += 1
            if no is None:
                no = g.no
            cc = "rhombohedral" if (key[0] == "r" and key[-1] == "r") else "standard"
            ref = bynumber.get((g.no, cc))
            if g.no != no or ref is None or not same_group(g, ref):
                fail("name %r does not give the same group as number %s (%s)" % (v, no, cc))
    return ntab, nnames


def check_own_names():
    """every accepted key is the (lower-cased, blank-free) name the group reports
    for itself, up to the h / r setting suffix of the R groups"""
    for key in sgmod.sgdic:
        g = sgmod.sg(sgname=key)
        nm = "".join(g.name.split()).lower()
        k = key
        if k[0] == "r" and k[-1] in "hr":
            k = k[:-1]
        if nm[0] == "r" and nm[-1] in "hr":
            nm = nm[:-1]
        if k != nm:
            fail("key %r resolves to a group calling itself %r" % (key, g.name))


def fingerprint():
    """raw (unrounded) translation parts of a few groups with 3- and 6-fold screw
    axes / R centring, plus the residual of 3*t (6*t) from an integer"""
    h = hashlib.sha1()
    worst = 0.0
    for kw in (dict(sgno=144), dict(sgno=146), dict(sgname="R-3c"), dict(sgno=178),
               dict(sgno=169), dict(sgno=180), dict(sgname="P6122"), dict(sgno=14)):
        g = sgmod.sg(**kw)
        t = np.asarray(g.trans, float)
        h.update(repr(t.tolist()).encode())
        worst = max(worst, float(np.abs(12 * t - np.round(12 * t)).max()))
    t = np.asarray(sgmod.sg(sgno=144).trans, float)
    return "Sg144 trans[1][2]=%r trans[2][2]=%r ; max|12t-round(12t)|=%.3g ; raw trans sha1 %s" % (
        float(t[1][2]), float(t[2][2]), worst, h.hexdigest()[:12])


def check_no_aliasing():
    """two requests for the same group never share mutable state"""
    a = sgmod.sg(sgno=62)
    b = sgmod.sg(sgno=62)
    for attr in ("rot", "trans", "syscond"):
        x, y = getattr(a, attr), getattr(b, attr)
        if x is y or np.shares_memory(x, y):
            fail("instances share %s" % attr)
        keep = np.array(y, copy=True)
        x[...] = 7
        if not np.array_equal(getattr(b, attr), keep) or \
           not np.array_equal(getattr(sgmod.sg(sgno=62), attr), keep):
            fail("writing to one instance's %s is seen by another" % attr)


if __name__ == "__main__":
    ntab, nnames = run_property()
    check_own_names()
    check_no_aliasing()
    print("tables checked: %d, name spellings checked: %d" % (ntab, nnames))
    print("FINGERPRINT: " + fingerprint())
    if failures:
        print("PROPERTY VIOLATED (%d):" % len(failures))
        for f in failures[:30]:
            print("  " + f)
        sys.exit(1)
    print("property C04 holds")
    sys.exit(0)
