"""Independent check of property C04 (every tabulated space group is a group
consistent with its metadata and names).  Exits 0 when the property holds.

Everything is decided modulo lattice translations (translations are compared
after reduction mod 1 with a tolerance that allows for the six-digit tables),
so the check does not care which representative of a coset of the lattice is
stored, in which order the operators come, or how the name table is laid out.
"""
import sys, hashlib, random, itertools
import numpy as np
from xfab import sg as sgmod

TOL = 1e-4          # tables have six decimals; composition errors are ~1e-6
RHOMBO = (146, 148, 155, 160, 161, 166, 167)
LAUE_ORDER = {'-1': 2, '2/m': 4, 'mmm': 8, '4/m': 8, '4/mmm': 16, '-3': 6,
              '-3m': 12, '-3m1': 12, '-31m': 12, '6/m': 12, '6/mmm': 24,
              'm-3': 24, 'm-3m': 48}
failures = []


def fail(msg):
    failures.append(msg)
    if len(failures) < 20:
        print('VIOLATION:', msg)


def lattice_equal(t1, t2):
    d = np.asarray(t1, float) - np.asarray(t2, float)
    return np.abs(d - np.round(d)).max() < TOL


def key(R, t):
    """hashable key of an operator modulo lattice translations; translations
    are multiples of 1/24 up to the rounding of the tables"""
    t24 = np.asarray(t, float) * 24
    k = np.rint(t24)
    if np.abs(t24 - k).max() > 24 * TOL:
        return (tuple(R.ravel()), tuple(np.round(np.mod(t, 1), 4)))
    return (tuple(int(x) for x in R.ravel()), tuple(int(x) % 24 for x in k))


class OpTable(list):
    def index_of(self):
        if not hasattr(self, '_idx'):
            self._idx = {}
            for i, (R, t) in enumerate(self):
                self._idx.setdefault(key(R, t), []).append(i)
        return self._idx


def find(ops, R, t):
    """indices of operators equal to (R,t) modulo lattice translations"""
    if isinstance(ops, OpTable):
        return ops.index_of().get(key(R, t), [])
    return [i for i, (R2, t2) in enumerate(ops)
            if np.array_equal(R, R2) and lattice_equal(t, t2)]


def sym(i, j):
    m = np.zeros((3, 3))
    m[i, j] = m[j, i] = 1
    return m


def metric_basis(crystal_system, cell_choice):
    if crystal_system == 'triclinic':
        return [sym(i, j) for i in range(3) for j in range(i, 3)]
    if crystal_system == 'monoclinic':            # unique axis b
        return [sym(0, 0), sym(1, 1), sym(2, 2), sym(0, 2)]
    if crystal_system == 'orthorhombic':
        return [sym(0, 0), sym(1, 1), sym(2, 2)]
    if crystal_system == 'tetragonal':
        return [sym(0, 0) + sym(1, 1), sym(2, 2)]
    if crystal_system == 'cubic':
        return [np.eye(3)]
    if crystal_system in ('trigonal', 'hexagonal'):
        if cell_choice == 'rhombohedral':
            return [np.eye(3), np.ones((3, 3)) - np.eye(3)]
        return [2 * sym(0, 0) + 2 * sym(1, 1) - sym(0, 1), sym(2, 2)]
    raise ValueError(crystal_system)


def operators(g):
    rot = np.asarray(g.rot)
    trans = np.asarray(g.trans, float)
    R = np.rint(rot).astype(int)
    if np.abs(rot - R).max() != 0:
        fail('%s: non-integer rotation' % g.name)
    return OpTable((R[i], trans[i]) for i in range(len(R)))


def check_group(g, label):
    ops = operators(g)
    nsymop, nuniq = int(g.nsymop), int(g.nuniq)
    if len(ops) != nsymop or len(np.asarray(g.trans)) != nsymop:
        fail('%s: %d operators, nsymop=%d' % (label, len(ops), nsymop))
        return
    E = np.eye(3, dtype=int)
    if not find(ops, E, np.zeros(3)):
        fail('%s: identity missing' % label)
    for i, (R, t) in enumerate(ops):
        if abs(round(np.linalg.det(R))) != 1:
            fail('%s: op %d not unimodular' % (label, i))
        if len(find(ops, R, t)) != 1:
            fail('%s: op %d duplicated' % (label, i))
        Ri = np.rint(np.linalg.inv(R)).astype(int)
        if not find(ops, Ri, -Ri.dot(t)):
            fail('%s: inverse of op %d missing' % (label, i))
    for (R1, t1), (R2, t2) in itertools.product(ops, ops):
        if not find(ops, R1.dot(R2), R1.dot(t2) + t1):
            fail('%s: not closed' % label)
            break
    allrots = set(tuple(R.ravel()) for R, t in ops)
    first = [tuple(R.ravel()) for R, t in ops[:nuniq]]
    if len(set(first)) != nuniq or set(first) != allrots:
        fail('%s: first nuniq rotations are not the distinct rotations' % label)
    ncen = len([1 for R, t in ops if np.array_equal(R, E)])
    if nsymop != nuniq * ncen:
        fail('%s: nsymop %d != nuniq %d x centrings %d' % (label, nsymop, nuniq, ncen))
    # Laue class
    withinv = allrots | set(tuple(-np.array(r)) for r in allrots)
    if g.Laue not in LAUE_ORDER:
        fail('%s: unknown Laue class %r' % (label, g.Laue))
    elif len(withinv) != LAUE_ORDER[g.Laue]:
        fail('%s: Laue %s but %d rotations with inversion' % (label, g.Laue, len(withinv)))
    # metric preservation, exactly, on a basis of the conforming metrics
    setting = 'rhombohedral' if g.cell_choice == 'rhombohedral' else 'std'
    for G in metric_basis(g.crystal_system, setting):
        for R, t in ops:
            if not np.array_equal(R.T.dot(G).dot(R), G):
                fail('%s: metric not preserved' % label)
                break


def same_group(g1, g2):
    if (g1.no, g1.name, g1.crystal_system, g1.Laue, g1.nsymop, g1.nuniq,
            g1.cell_choice) != (g2.no, g2.name, g2.crystal_system, g2.Laue,
                                g2.nsymop, g2.nuniq, g2.cell_choice):
        return False
    o1, o2 = operators(g1), operators(g2)
    return len(o1) == len(o2) and all(len(find(o2, R, t)) == 1 for R, t in o1)


def variants(key, rng):
    out = [key, key.upper(), key.capitalize()]
    spaced = ''.join(c + ' ' * rng.randint(0, 2) for c in key)
    out.append('  ' + spaced.capitalize() + '\t')
    return out


def main():
    rng = random.Random(4)
    tables = {}
    for no in range(1, 231):
        settings = ['standard'] + (['rhombohedral'] if no in RHOMBO else [])
        for cc in settings:
            g = sgmod.sg(sgno=no, cell_choice=cc)
            if g.no != no:
                fail('sgno=%d gives no=%r' % (no, g.no))
            tables[(no, cc == 'rhombohedral')] = g
            check_group(g, 'Sg%d/%s' % (no, cc))
    nlook = 0
    seen_numbers = set()
    for key in list(sgmod.sgdic.keys()):
        for name in variants(key, rng):
            g = sgmod.sg(sgname=name)
            rh = key[0] == 'r' and key[-1] == 'r'
            ref = tables.get((g.no, rh))
            nlook += 1
            if ref is None or not same_group(g, ref):
                fail('lookup %r differs from lookup by number' % name)
            if rh != (g.cell_choice == 'rhombohedral'):
                fail('lookup %r: wrong setting' % name)
            seen_numbers.add(g.no)
            # the normalised own name of the group must lead back to it
            own = ''.join(g.name.split()).lower()
            if own in sgmod.sgdic and not same_group(sgmod.sg(sgname=g.name), g):
                fail('own name %r of lookup %r leads elsewhere' % (g.name, name))
    if seen_numbers != set(range(1, 231)):
        fail('numbers without a name: %r' % sorted(set(range(1, 231)) - seen_numbers))
    print('checked %d tables, %d name lookups' % (len(tables), nlook))
    print('FINGERPRINT: ' + fingerprint())
    if failures:
        print('%d violations' % len(failures))
        sys.exit(1)
    print('property C04 holds')
    sys.exit(0)


def fingerprint():
    """raw entries of the name table for a few fixed keys"""
    d = sgmod.sgdic
    some = [d[k] for k in ('p1', 'p21/c', 'r-3cr', 'fm-3m')]
    h = hashlib.sha1(repr(sorted((k, repr(v)) for k, v in d.items())).encode())
    return 'sgdic %s %r value types %s sha1 %s' % (
        type(d).__name__, some,
        sorted(set(type(v).__name__ for v in d.values())), h.hexdigest()[:12])


if __name__ == '__main__':
    main()
