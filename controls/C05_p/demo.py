"""
C05 demo: genhkl_all returns exactly the reflections the space group allows
in the shell sintlmin < sin(theta)/lambda <= sintlmax.

Run as:  PYTHONPATH=<checkout root> /venv/bin/python -B demo.py

The oracle is independent of the library's traversal / syscond vectors:
  * sin(theta)/lambda from an own reciprocal basis (cross products),
  * brute force enumeration of every hkl in a bounding box,
  * extinction from the group's own operations: hkl is extinct iff some
    operation (R, t) has h.R == h and h.t not an integer.
The comparison is on SETS of integer hkl rows plus a no-repeat check, so the
order of the rows, the float/-0.0 representation, the sin(theta)/lambda
column and the way the library gets there are all left open.

Exit status 0 = property holds on all generated inputs, 1 = violated.
"""
from __future__ import print_function
import sys
import hashlib
import itertools
import warnings

warnings.simplefilter('ignore')

import numpy as np
from xfab import tools, laue, sg

R_GROUPS = [146, 148, 155, 160, 161, 166, 167]


# ----------------------------------------------------------------------------
# independent oracle
# ----------------------------------------------------------------------------
def direct_basis(cell):
    a, b, c, al, be, ga = [float(x) for x in cell]
    al, be, ga = np.radians([al, be, ga])
    va = np.array([a, 0.0, 0.0])
    vb = np.array([b * np.cos(ga), b * np.sin(ga), 0.0])
    cx = c * np.cos(be)
    cy = c * (np.cos(al) - np.cos(be) * np.cos(ga)) / np.sin(ga)
    cz = np.sqrt(c * c - cx * cx - cy * cy)
    vc = np.array([cx, cy, cz])
    return va, vb, vc


def recip_basis(cell):
    va, vb, vc = direct_basis(cell)
    vol = np.dot(va, np.cross(vb, vc))
    return np.array([np.cross(vb, vc), np.cross(vc, va), np.cross(va, vb)]) / vol


def box_hkl(cell, stlmax):
    """all integer hkl that can possibly have stl <= stlmax (|h| <= 2 stl |a|)"""
    lim = [int(np.floor(2.0 * stlmax * 1.0000001 * float(cell[i]))) + 1 for i in range(3)]
    rng = [np.arange(-m, m + 1) for m in lim]
    hkl = np.array(list(itertools.product(*rng)), dtype=int)
    return hkl


def oracle_stl(cell, hkl):
    g = np.dot(hkl, recip_basis(cell))
    return 0.5 * np.sqrt((g * g).sum(axis=1))


def allowed_mask(hkl, rot, trans):
    ok = np.ones(len(hkl), dtype=bool)
    for R, t in zip(rot, trans):
        hR = np.dot(hkl, R)
        fixed = (hR == hkl).all(axis=1)
        ht = np.dot(hkl, t)
        # translations are multiples of 1/12 stored with 6 decimals
        nonint = np.abs(ht - np.rint(ht)) > 1e-3
        ok &= ~(fixed & nonint)
    return ok


def expected(cell, lo, hi, spg):
    hkl = box_hkl(cell, hi)
    stl = oracle_stl(cell, hkl)
    inshell = (stl > lo) & (stl <= hi) & (np.abs(hkl).sum(axis=1) > 0)
    ok = allowed_mask(hkl, np.array(spg.rot), np.array(spg.trans))
    return set(map(tuple, hkl[inshell & ok].tolist()))


def safe_shell(cell, lo, hi):
    """move the bounds away (>= 1e-6 relative) from every lattice point's stl"""
    hkl = box_hkl(cell, hi * 1.05)
    stl = np.unique(oracle_stl(cell, hkl))

    def fix(x):
        if x <= 0:
            return x
        for _ in range(200):
            if np.min(np.abs(stl - x)) > 1e-6 * x:
                return x
            x = x * (1.0 + 3.7e-5)
        raise RuntimeError('no safe bound')
    return fix(lo), fix(hi)


# ----------------------------------------------------------------------------
# input generation
# ----------------------------------------------------------------------------
def random_cell(rs, system, setting):
    a, b, c = rs.uniform(3.0, 7.5, 3)
    if setting == 'rhombohedral':
        # acute rhombohedral cells only: the traversal of the pristine library
        # is known to miss reflections for rhombohedral cells with alpha near
        # or above 90 degrees (open finding, not what this demo is about)
        al = rs.uniform(50.0, 78.0)
        return [a, a, a, al, al, al]
    if system == 'triclinic':
        if rs.rand() < 0.25:
            return [a, b, c, 90.0, 90.0, 90.0]
        al, be, ga = rs.uniform(75.0, 105.0, 3)
        return [a, b, c, al, be, ga]
    if system == 'monoclinic':
        be = 90.0 if rs.rand() < 0.25 else rs.uniform(91.0, 118.0)
        return [a, b, c, 90.0, be, 90.0]
    if system == 'orthorhombic':
        return [a, b, c, 90.0, 90.0, 90.0]
    if system == 'tetragonal':
        return [a, a, c, 90.0, 90.0, 90.0]
    if system in ('trigonal', 'hexagonal'):
        return [a, a, c, 90.0, 90.0, 120.0]
    if system == 'cubic':
        return [a, a, a, 90.0, 90.0, 90.0]
    raise ValueError(system)


def to_int_rows(H):
    H = np.asarray(H, dtype=float)
    Hi = np.rint(H[:, :3]).astype(int)
    assert np.abs(H[:, :3] - Hi).max() < 1e-9 if len(H) else True
    return [tuple(r) for r in Hi.tolist()]


def check_case(label, fn, cell, lo, hi, spg, **kw):
    want = expected(cell, lo, hi, spg)
    H = fn(cell, lo, hi, **kw)
    rows = to_int_rows(H)
    got = set(rows)
    problems = []
    if len(rows) != len(got):
        problems.append('%d repeated rows' % (len(rows) - len(got)))
    if got - want:
        problems.append('extra %s' % sorted(got - want)[:5])
    if want - got:
        problems.append('missing %s' % sorted(want - got)[:5])
    if (0, 0, 0) in got:
        problems.append('000 returned')
    if problems:
        print('VIOLATION', label, cell, lo, hi, kw, problems)
        return False
    return True


def hex_to_rhomb_cell(a, c):
    ar = np.sqrt(3.0 * a * a + c * c) / 3.0
    al = 2.0 * np.degrees(np.arcsin(1.5 / np.sqrt(3.0 + (c / a) ** 2)))
    return [ar, ar, ar, al, al, al]


def obverse(hkl_hex):
    h, k, l = hkl_hex
    t = (2 * h + k + l, -h + k + l, -h - 2 * k + l)
    assert all(x % 3 == 0 for x in t), (hkl_hex, t)
    return tuple(x // 3 for x in t)


def main():
    rs = np.random.RandomState(20240505)
    bad = 0
    ncase = 0

    settings = [(no, 'standard') for no in range(1, 231)]
    settings += [(no, 'rhombohedral') for no in R_GROUPS]
    assert len(settings) == 237

    # every setting once, then some settings a second time: ~300 cases
    order = list(range(len(settings)))
    extra = list(rs.choice(len(settings), 63, replace=False))
    for idx in order + extra:
        no, choice = settings[idx]
        spg = sg.sg(sgno=no, cell_choice=choice)
        setting = 'rhombohedral' if spg.cell_choice == 'rhombohedral' else 'other'
        cell = random_cell(rs, spg.crystal_system, setting)
        hi = rs.uniform(0.24, 0.44)
        lo = 0.0 if rs.rand() < 0.4 else rs.uniform(0.05, 0.8 * hi)
        lo, hi = safe_shell(cell, lo, hi)
        # whatever state the global RNG is in, the answer must be the same
        np.random.seed(int(rs.randint(0, 2 ** 31 - 1)))
        mod = tools if ncase % 4 else laue
        byname = (ncase % 3 == 0)
        kw = dict(cell_choice=choice)
        if byname:
            kw['sgname'] = spg.name
            if choice == 'rhombohedral':
                # names of the rhombohedral settings end in "r"; the name alone selects them
                kw.pop('cell_choice')
        else:
            kw['sgno'] = no
        if ncase % 5 == 0:
            kw['output_stl'] = True
        label = '%s.genhkl_all sg%d/%s' % (mod.__name__, no, choice)
        if not check_case(label, mod.genhkl_all, cell, lo, hi, spg, **kw):
            bad += 1
        ncase += 1

    # hexagonal <-> rhombohedral settings of the R groups (obverse transformation)
    for no in R_GROUPS:
        for rep in range(3):
            a = rs.uniform(3.5, 6.0)
            c = a * rs.uniform(1.8, 3.2)   # keeps the rhombohedral alpha acute (< 75 deg)
            hcell = [a, a, c, 90.0, 90.0, 120.0]
            rcell = hex_to_rhomb_cell(a, c)
            hi = rs.uniform(0.25, 0.4)
            lo, hi = safe_shell(hcell, 0.0, hi)
            np.random.seed(int(rs.randint(0, 2 ** 31 - 1)))
            Hh = set(to_int_rows(tools.genhkl_all(hcell, lo, hi, sgno=no)))
            Hr_rows = to_int_rows(tools.genhkl_all(rcell, lo, hi, sgno=no, cell_choice='rhombohedral'))
            Hr = set(Hr_rows)
            ncase += 1
            try:
                Hh_r = set(obverse(h) for h in Hh)
            except AssertionError as e:
                print('VIOLATION R sg%d: hexagonal reflection not -h+k+l=3n %s' % (no, e))
                bad += 1
                continue
            if Hh_r != Hr or len(Hr_rows) != len(Hr):
                print('VIOLATION R sg%d hex/rhomb differ' % no, hcell, hi,
                      sorted(Hh_r - Hr)[:4], sorted(Hr - Hh_r)[:4])
                bad += 1

    print('cases: %d, violations: %d' % (ncase, bad))
    print('FINGERPRINT: ' + fingerprint())
    return 1 if bad else 0


# ----------------------------------------------------------------------------
# fingerprint: raw outputs / call pattern for a few fixed inputs
# ----------------------------------------------------------------------------
def fingerprint():
    fixed = [
        ([4.05, 4.05, 4.05, 90, 90, 90], 0.0, 0.62, dict(sgno=225)),
        ([4.9, 4.9, 5.4, 90, 90, 120], 0.05, 0.45, dict(sgno=152)),
        ([5.1, 6.2, 7.3, 82.0, 95.0, 101.0], 0.0, 0.33, dict(sgno=2)),
        ([5.4, 5.4, 5.4, 57.0, 57.0, 57.0], 0.0, 0.42, dict(sgno=148, cell_choice='rhombohedral')),
        ([3.9, 3.9, 3.9, 90, 90, 90], 0.1, 0.85, dict(sgno=221)),
        ([3.2, 3.2, 5.2, 90, 90, 120], 0.0, 0.7, dict(sgno=194)),
    ]
    counts = {'sintl': 0, 'sysabs': 0}
    orig_sintl, orig_sysabs = tools.sintl, tools.sysabs

    def c_sintl(*a, **k):
        counts['sintl'] += 1
        return orig_sintl(*a, **k)

    def c_sysabs(*a, **k):
        counts['sysabs'] += 1
        return orig_sysabs(*a, **k)

    h_rows = hashlib.sha1()
    h_stl = hashlib.sha1()
    rng_used = False
    tools.sintl, tools.sysabs = c_sintl, c_sysabs
    try:
        for cell, lo, hi, kw in fixed:
            np.random.seed(12345)
            before = np.random.get_state()[1].copy(), np.random.get_state()[2]
            H = np.asarray(tools.genhkl_all(cell, lo, hi, output_stl=True, **kw), dtype=float)
            after = np.random.get_state()[1], np.random.get_state()[2]
            if after[1] != before[1] or (after[0] != before[0]).any():
                rng_used = True
            h_rows.update(np.rint(H[:, :3]).astype('<i8').tobytes())   # rows in the order returned
            h_stl.update(np.ascontiguousarray(H[:, 3]).astype('<f8').tobytes())  # raw stl bits
    finally:
        tools.sintl, tools.sysabs = orig_sintl, orig_sysabs
    return 'roworder=%s stlbits=%s sintl_calls=%d sysabs_calls=%d global_rng_advanced=%s' % (
        h_rows.hexdigest()[:12], h_stl.hexdigest()[:12], counts['sintl'], counts['sysabs'],
        rng_used)


if __name__ == '__main__':
    sys.exit(main())
