"""Demo for control C05_s.

Checks property C05 (genhkl_all returns exactly the non-extinct hkl != 000 in
the shell sintlmin < sin(theta)/lambda <= sintlmax; none missing, none extra,
none repeated; independent of numpy's global RNG state) against an independent
brute-force oracle, for tools.genhkl_all and laue.genhkl_all, called by name
and by number.  Shell bounds are kept >= 1e-9 (relative) away from every lattice
point's sin(theta)/lambda, as the quantifier says; half of the cases put a bound
deliberately close to that limit (3e-9 above or below a reflection).
The FINGERPRINT uses bounds OUTSIDE the quantifier (3e-13 from a reflection).

Run:  PYTHONPATH=<checkout root> /venv/bin/python -B demo.py
"""
import sys, hashlib, itertools, warnings
warnings.simplefilter('ignore')
import numpy as np
from xfab import tools, laue, sg, sglib

NCASES = 300
MAXREFL = 260          # target number of lattice points inside sintlmax sphere


# ----------------------------------------------------------------- oracle
def recip_metric(cell):
    a, b, c, al, be, ga = [float(x) for x in cell]
    al, be, ga = np.radians([al, be, ga])
    G = np.array([[a*a, a*b*np.cos(ga), a*c*np.cos(be)],
                  [a*b*np.cos(ga), b*b, b*c*np.cos(al)],
                  [a*c*np.cos(be), b*c*np.cos(al), c*c]])
    return np.linalg.inv(G), np.sqrt(np.linalg.det(G))


def all_hkl_with_stl(cell, smax):
    Gs, vol = recip_metric(cell)
    # |h_i| <= 2*smax*|a_i| (h = H.a_i, |H| = 2 stl)
    lim = [int(np.floor(2*smax*float(cell[i])*1.0000001 + 1e-9)) + 1 for i in range(3)]
    rng = [np.arange(-m, m+1) for m in lim]
    hkl = np.array(np.meshgrid(*rng, indexing='ij')).reshape(3, -1).T
    stl = 0.5*np.sqrt(np.einsum('ij,jk,ik->i', hkl, Gs, hkl))
    return hkl, stl


def extinct(h, rot, trans):
    for R, t in zip(rot, trans):
        if np.array_equal(np.dot(h, R), h):
            x = float(np.dot(h, t))
            if abs(x - round(x)) > 1e-3:
                return True
    return False


def oracle(cell, smin, smax, spg):
    hkl, stl = all_hkl_with_stl(cell, smax)
    keep = (stl > smin) & (stl <= smax) & (np.abs(hkl).sum(axis=1) > 0)
    return set(tuple(int(v) for v in h) for h in hkl[keep]
               if not extinct(h, spg.rot, spg.trans))


def safe_bound(x, stl, rel=1e-9):
    """True when bound x is further than rel (relative) from every lattice stl."""
    return bool(np.all(np.abs(stl - x) > rel*np.maximum(stl, x)))


# --------------------------------------------------------------- generator
def settings():
    out = []
    for no in range(1, 231):
        out.append((no, 'standard'))
        k = getattr(sglib, 'Sg%i' % no)(cell_choice='rhombohedral')
        if k.cell_choice == 'rhombohedral':
            out.append((no, 'rhombohedral'))
    return out


def known_defect_zone(spg):
    # The library has known open defects (reflections missed by the early exit
    # of the segment traversal) for rhombohedral settings of Laue class -3m, for
    # obtuse rhombohedral cells (alpha > ~100) and for strongly oblique
    # monoclinic / triclinic cells.  They are unrelated to this control; the
    # demo stays on the part of the quantifier where the pristine tree
    # satisfies the property (random_cell keeps the angles moderate).
    return spg.cell_choice == 'rhombohedral' and spg.Laue == '-3m'


def random_cell(rs, spg):
    a, b, c = rs.uniform(3.0, 9.0, 3)
    cs = spg.crystal_system
    if spg.cell_choice == 'rhombohedral':
        al = rs.uniform(50., 98.)
        return [a, a, a, al, al, al]
    if cs == 'triclinic':
        if rs.rand() < 0.25:
            return [a, b, c, 90., 90., 90.]
        while True:
            al, be, ga = rs.uniform(82., 98., 3)
            ca, cb, cg = np.cos(np.radians([al, be, ga]))
            if 1 - ca*ca - cb*cb - cg*cg + 2*ca*cb*cg > 0.2:
                return [a, b, c, al, be, ga]
    if cs == 'monoclinic':
        be = 90. if rs.rand() < 0.25 else rs.uniform(91., 104.)
        return [a, b, c, 90., be, 90.]
    if cs == 'orthorhombic':
        return [a, b, c, 90., 90., 90.]
    if cs == 'tetragonal':
        return [a, a, c, 90., 90., 90.]
    if cs in ('trigonal', 'hexagonal'):
        return [a, a, c, 90., 90., 120.]
    if cs == 'cubic':
        return [a, a, a, 90., 90., 90.]
    raise RuntimeError(cs)


def rows_as_tuples(rows):
    rows = np.asarray(rows)
    assert rows.ndim == 2 and rows.shape[1] == 3, rows.shape
    r = np.rint(np.asarray(rows, dtype=float))
    assert np.all(np.abs(r - np.asarray(rows, dtype=float)) < 1e-9)
    return [tuple(int(v) for v in x) for x in r]


def main():
    rs = np.random.RandomState(20260501)
    sets = settings()
    assert len(sets) == 237, len(sets)
    bad = 0
    done = 0
    for case in range(NCASES):
        no, cc = sets[rs.randint(len(sets))] if case >= 237 // 4 else sets[(case*4 + 1) % 237]
        spg = sg.sg(sgno=no, cell_choice=cc)
        if known_defect_zone(spg):
            no, cc = (146, 148)[case % 2], 'rhombohedral'
            spg = sg.sg(sgno=no, cell_choice=cc)
        cell = random_cell(rs, spg)
        _, vol = recip_metric(cell)
        # radius of the sphere (in stl) that holds about MAXREFL lattice points
        nref = rs.uniform(40, MAXREFL)
        smax0 = 0.5*(3.*nref/(4.*np.pi*vol))**(1./3.)
        hkl, stl = all_hkl_with_stl(cell, smax0*1.05)
        inside = np.sort(stl[(stl > 0.3*smax0) & (stl <= smax0)])
        for _ in range(100):
            smax = smax0*rs.uniform(0.9, 1.05)
            smin = smax*rs.choice([0.0, rs.uniform(0.2, 0.9)])
            if case % 2 == 0 and len(inside) > 4:
                # bounds hugging a reflection, just inside the quantifier
                smax = inside[rs.randint(len(inside)//2, len(inside))]*(1 + rs.choice([-3e-9, 3e-9]))
                if rs.rand() < 0.5:
                    smin = inside[rs.randint(0, len(inside)//2)]*(1 + rs.choice([-3e-9, 3e-9]))
            if safe_bound(smax, stl) and safe_bound(smin, stl):
                break
        else:
            continue
        want = oracle(cell, smin, smax, spg)
        mod = (tools, laue)[case % 2]
        if case % 3 == 0:
            kw = dict(sgname=spg.name)
            if cc == 'rhombohedral' and case % 2:
                kw = dict(sgname=spg.name[:-1] if spg.name.lower().endswith('r') else spg.name,
                          cell_choice='rhombohedral')
        else:
            kw = dict(sgno=no, cell_choice=cc)
        np.random.seed(rs.randint(2**31 - 1))
        got = rows_as_tuples(mod.genhkl_all(cell, smin, smax, **kw))
        np.random.seed(rs.randint(2**31 - 1))
        got2 = rows_as_tuples(mod.genhkl_all(cell, smin, smax, **kw))
        done += 1
        ok = (len(got) == len(set(got)) and set(got) == want
              and len(got2) == len(set(got2)) and set(got2) == want)
        if not ok:
            bad += 1
            print('VIOLATION case', case, 'sg', no, cc, spg.name, 'cell', cell,
                  'shell', smin, smax, 'missing', sorted(want - set(got))[:5],
                  'extra', sorted(set(got) - want)[:5],
                  'repeated', len(got) - len(set(got)))
    print('cases checked: %d  violations: %d' % (done, bad))

    # ------------------------------------------------------- fingerprint
    # bounds 3e-13 (relative) away from a reflection: OUTSIDE the quantifier
    fp = []
    for mod in (tools, laue):
        for cell, hkl, kw in [([4.0, 4.0, 4.0, 90, 90, 90], [1, 1, 1], dict(sgno=225)),
                              ([5.0, 6.0, 7.0, 90, 100, 90], [1, 1, 0], dict(sgname='P21/c')),
                              ([4.9, 4.9, 5.4, 90, 90, 120], [1, 0, 1], dict(sgno=152))]:
            s0 = float(mod.sintl(cell, hkl))
            np.random.seed(7)
            fp.append(len(mod.genhkl_all(cell, 0.5*s0, s0*(1 - 3e-13), **kw)))   # just below
            fp.append(len(mod.genhkl_all(cell, 0.5*s0, s0, **kw)))               # exactly at
            fp.append(len(mod.genhkl_all(cell, s0*(1 - 3e-13), 1.3*s0, **kw)))   # min just below
            fp.append(len(mod.genhkl_all(cell, s0, 1.3*s0, **kw)))               # min exactly at
    print('FINGERPRINT: row counts with bounds 3e-13 from a reflection: %s'
          % ','.join(str(v) for v in fp))
    return 1 if (bad or done < 200) else 0


if __name__ == '__main__':
    sys.exit(main())
