"""Property C06 demo / negative control p.

Checks, with computations that do not use xfab.tools / xfab.laue code
(sin(theta)/lambda from the reciprocal metric tensor, Laue orbits from the
rotation matrices of the space group, extinctions from the general rule
h.R == h and h.t not integer), that

 * genhkl_unique lists at most one member of every Laue family, genhkl_all is
   exactly the union of the families of the rows of genhkl_unique, no duplicates,
 * rows are ordered by non-decreasing sin(theta)/lambda, the 4th column is
   sin(theta)/lambda of the row, sintlmin exclusive / sintlmax inclusive,
   indices are integers, 3-column and 4-column forms agree,
 * (orthorhombic, tetragonal and cubic groups, where the pristine library is
   known to be complete) the families listed are exactly the allowed families
   of the shell.

Exit status 0 if all of this holds, 1 otherwise.
"""
import sys, itertools, hashlib, warnings
warnings.simplefilter('ignore')
import numpy as np
from xfab import tools, laue, sg

RH = [146, 148, 155, 160, 161, 166, 167]
TOL = 1e-9


def gen_cell(rng, system, cell_choice):
    a, b, c = rng.uniform(3.5, 9.0, 3)
    if cell_choice == 'rhombohedral':
        al = rng.choice([rng.uniform(55, 85), rng.uniform(95, 112)])
        return [a, a, a, al, al, al]
    if system == 'triclinic':
        while True:
            al, be, ga = rng.uniform(75, 110, 3)
            ca, cb, cg = np.cos(np.radians([al, be, ga]))
            if 1 - ca*ca - cb*cb - cg*cg + 2*ca*cb*cg > 0.3:
                return [a, b, c, al, be, ga]
    if system == 'monoclinic':
        return [a, b, c, 90, rng.uniform(92, 118), 90]
    if system == 'orthorhombic':
        return [a, b, c, 90, 90, 90]
    if system == 'tetragonal':
        return [a, a, c, 90, 90, 90]
    if system in ('trigonal', 'hexagonal'):
        return [a, a, c, 90, 90, 120]
    if system == 'cubic':
        return [a, a, a, 90, 90, 90]
    raise ValueError(system)


def stl_indep(cell, hkl):
    a, b, c, al, be, ga = [float(x) for x in cell]
    ca, cb, cg = np.cos(np.radians([al, be, ga]))
    G = np.array([[a*a, a*b*cg, a*c*cb], [a*b*cg, b*b, b*c*ca], [a*c*cb, b*c*ca, c*c]])
    Gs = np.linalg.inv(G)
    hkl = np.asarray(hkl, float)
    return 0.5*np.sqrt(np.einsum('...i,ij,...j->...', hkl, Gs, hkl))


def absent(h, rot, trans):
    for R, t in zip(rot, trans):
        if np.array_equal(np.dot(h, R), h):
            x = np.dot(h, t)
            if abs(x - round(x)) > 1e-6:
                return True
    return False


def check(mod, rng, sgno, cell_choice, by_name):
    spg = sg.sg(sgno=sgno, cell_choice=cell_choice)
    cell = gen_cell(rng, spg.crystal_system, cell_choice)
    smax = rng.uniform(0.8, 2.2)/min(cell[:3])
    smin = rng.choice([0.0, rng.uniform(0, 0.8)*smax])
    kw = dict(cell_choice=cell_choice)
    if by_name:
        kw['sgname'] = spg.name
    else:
        kw['sgno'] = sgno
    U = mod.genhkl_unique(cell, smin, smax, output_stl=True, **kw)
    U3 = mod.genhkl_unique(cell, smin, smax, **kw)
    A = mod.genhkl_all(cell, smin, smax, output_stl=True, **kw)
    A3 = mod.genhkl_all(cell, smin, smax, output_stl=False, **kw)
    Rots = np.concatenate((spg.rot[:spg.nuniq], -spg.rot[:spg.nuniq])).astype(int)
    errs = []

    def orbit(h):
        return frozenset(map(tuple, np.dot(np.asarray(h, int), Rots).reshape(-1, 3).tolist()))

    for name, M, M3 in (('unique', U, U3), ('all', A, A3)):
        if M.ndim != 2 or M.shape[1] != 4 or M3.shape[1] != 3 or len(M) != len(M3):
            errs.append(name + ': shape')
            continue
        if not np.array_equal(M[:, :3], np.rint(M[:, :3])) or not np.array_equal(M3, np.rint(M3)):
            errs.append(name + ': non-integer index')
        if np.any(np.diff(M[:, 3]) < 0):
            errs.append(name + ': not sorted by 4th column')
        if len(M) and np.max(np.abs(M[:, 3] - stl_indep(cell, M[:, :3]))) > 1e-10:
            errs.append(name + ': 4th column is not stl of the row')
        s3 = stl_indep(cell, M3)
        if np.any(np.diff(s3) < -1e-10):
            errs.append(name + ': 3-column form not sorted by true stl')
        for S in (M[:, 3], s3):
            if np.any(S <= smin - TOL) or np.any(S > smax + TOL):
                errs.append(name + ': row outside the shell')
        if sorted(map(tuple, M[:, :3].tolist())) != sorted(map(tuple, M3.tolist())):
            errs.append(name + ': 3-column and 4-column forms list different reflections')
    fams = {}
    for r in U[:, :3].astype(int):
        o = orbit(r)
        if o in fams:
            errs.append('unique: two members of one family %s %s' % (tuple(r), fams[o]))
        fams[o] = tuple(r)
    allrows = list(map(tuple, A[:, :3].astype(int).tolist()))
    allset = set(allrows)
    if len(allset) != len(allrows):
        errs.append('all: duplicated rows')
    union = set()
    for o in fams:
        union |= o
    if union != allset:
        errs.append('all: not the union of the families of genhkl_unique')
    # completeness / nothing else, where the pristine library is known to deliver it
    if spg.crystal_system in ('orthorhombic', 'tetragonal', 'cubic'):
        hm = [int(np.ceil(2*smax*x)) + 1 for x in cell[:3]]
        grid = np.array(list(itertools.product(*[range(-m, m + 1) for m in hm])))
        s = stl_indep(cell, grid)
        inside = (s > smin + TOL) & (s <= smax - TOL)
        near = (np.abs(s - smin) <= TOL) | (np.abs(s - smax) <= TOL)
        expected = set(tuple(h) for h in grid[inside].tolist()
                       if not absent(np.array(h), spg.rot, spg.trans))
        nearset = set(map(tuple, grid[near].tolist()))
        if expected - allset:
            errs.append('missing reflections, e.g. %s' % sorted(expected - allset)[:3])
        if allset - expected - nearset:
            errs.append('extra reflections, e.g. %s' % sorted(allset - expected - nearset)[:3])
    return errs, len(U)


def fingerprint():
    """raw output of genhkl_unique (row order!) and helper call pattern for fixed inputs"""
    fixed = [([4.05, 4.05, 4.05, 90, 90, 90], 0.0, 1.05, 225, 'standard'),
             ([5.43, 5.43, 5.43, 90, 90, 90], 0.1, 0.95, 227, 'standard'),
             ([4.59, 4.59, 2.96, 90, 90, 90], 0.0, 0.9, 136, 'standard'),
             ([4.91, 4.91, 5.40, 90, 90, 120], 0.0, 0.7, 152, 'standard'),
             ([3.0, 4.0, 5.0, 90, 90, 90], 0.0, 0.8, 47, 'standard'),
             ([5.0, 5.0, 5.0, 70, 70, 70], 0.0, 0.6, 166, 'rhombohedral')]
    h = hashlib.sha1()
    ncalls = 0
    for mod in (tools, laue):
        orig = mod.sysabs
        cnt = [0]

        def counting(*a, **k):
            cnt[0] += 1
            return orig(*a, **k)
        mod.sysabs = counting
        try:
            for cell, smin, smax, sgno, cc in fixed:
                U = mod.genhkl_unique(cell, smin, smax, sgno=sgno, cell_choice=cc, output_stl=True)
                h.update(repr(U[:, :3].astype(int).tolist()).encode())
                h.update(repr([float(x).hex() for x in U[:, 3]]).encode())
        finally:
            mod.sysabs = orig
        ncalls += cnt[0]
    return 'rows=%s sysabs_calls=%d' % (h.hexdigest()[:16], ncalls)


def main():
    rng = np.random.RandomState(20260606)
    bad = 0
    ncase = 0
    nrows = 0
    for mod in (tools, laue):
        for sgno in range(1, 231):
            for cc in (['standard', 'rhombohedral'] if sgno in RH else ['standard']):
                errs, nu = check(mod, rng, sgno, cc, by_name=(rng.rand() < 0.3))
                ncase += 1
                nrows += nu
                if errs:
                    bad += 1
                    print('VIOLATION', mod.__name__, sgno, cc, errs[:4])
    print('cases: %d, rows of genhkl_unique checked: %d, violations: %d' % (ncase, nrows, bad))
    print('FINGERPRINT: ' + fingerprint())
    return 1 if bad else 0


if __name__ == '__main__':
    sys.exit(main())
