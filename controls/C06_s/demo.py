"""
C06 demo: genhkl_unique lists exactly one member of every Laue family of allowed
reflections in the shell, genhkl_all is the union of those families; rows sorted by
non-decreasing sin(theta)/lambda, 4th column = sin(theta)/lambda of the row's hkl,
sintlmin exclusive / sintlmax inclusive, integer indices.

Everything is checked against an independent computation (reciprocal metric tensor,
brute-force enumeration of the box, extinction from the group's own operators, orbits
built from the operators).  Nothing is assumed about WHICH member represents a family,
about the order among rows of equal sin(theta)/lambda, about dtype or container.

run:  PYTHONPATH=<checkout root> /venv/bin/python -B demo.py
"""
from __future__ import print_function
import sys, hashlib, itertools
import numpy as np
from xfab import tools, laue, sg

RHOMB = [146, 148, 155, 160, 161, 166, 167]
RTOL = 1e-9

def settings():
    out = [(no, 'standard') for no in range(1, 231)]
    out += [(no, 'rhombohedral') for no in RHOMB]
    return out

def random_cell(rng, crystal_system, cell_choice):
    a, b, c = rng.uniform(3.0, 7.0, 3)
    if crystal_system == 'triclinic':
        while True:
            al, be, ga = rng.uniform(70, 110, 3)
            if rng.rand() < 0.15:
                al = be = ga = 90.0
            ca, cb, cg = np.cos(np.radians([al, be, ga]))
            if 1 - ca*ca - cb*cb - cg*cg + 2*ca*cb*cg > 0.3:
                return [a, b, c, al, be, ga]
    if crystal_system == 'monoclinic':
        be = 90.0 if rng.rand() < 0.15 else rng.uniform(91, 125)
        return [a, b, c, 90.0, be, 90.0]
    if crystal_system == 'orthorhombic':
        return [a, b, c, 90.0, 90.0, 90.0]
    if crystal_system == 'tetragonal':
        return [a, a, c, 90.0, 90.0, 90.0]
    if crystal_system in ('trigonal', 'hexagonal'):
        if cell_choice == 'rhombohedral':
            al = rng.uniform(50, 110)
            return [a, a, a, al, al, al]
        return [a, a, c, 90.0, 90.0, 120.0]
    if crystal_system == 'cubic':
        return [a, a, a, 90.0, 90.0, 90.0]
    raise ValueError(crystal_system)

def recip_metric(cell):
    a, b, c = cell[:3]
    ca, cb, cg = [np.cos(np.radians(x)) for x in cell[3:]]
    G = np.array([[a*a, a*b*cg, a*c*cb],
                  [a*b*cg, b*b, b*c*ca],
                  [a*c*cb, b*c*ca, c*c]])
    return np.linalg.inv(G)

def box(cell, stlmax):
    rngs = []
    for i in range(3):
        m = int(np.floor(2*stlmax*cell[i]*(1 + 1e-6))) + 1
        rngs.append(range(-m, m + 1))
    H = np.array(list(itertools.product(*rngs)), dtype=np.int64)
    return H[np.any(H != 0, axis=1)]

def extinct(h, rot, trans):
    for R, t in zip(rot, trans):
        if np.array_equal(np.dot(h, R), h):
            x = float(np.dot(h, t))
            if abs(x - round(x)) > 0.01:
                return True
    return False

def orbit(h, rots):
    o = set()
    for R in rots:
        g = np.dot(h, R)
        o.add(tuple(int(v) for v in g))
        o.add(tuple(int(-v) for v in g))
    return frozenset(o)

def as_int_rows(arr, ncol, what):
    """accept any 2-D container; every index must be integer-valued"""
    a = np.asarray(arr)
    if a.size == 0:
        return np.zeros((0, 3), dtype=np.int64), np.zeros(0)
    assert a.ndim == 2 and a.shape[1] == ncol, '%s: shape %s' % (what, a.shape)
    hk = np.asarray(a[:, :3], dtype=float)
    r = np.rint(hk)
    assert np.all(hk == r), '%s: non-integer index' % what
    stl = np.asarray(a[:, 3], dtype=float) if ncol == 4 else None
    return r.astype(np.int64), stl

def check_case(mod, no, cc, cell, smin, smax, seed):
    spg = sg.sg(sgno=no, cell_choice=cc)
    # Known open defect of the library (present in the pristine tree): on oblique
    # cells (Laue -1, 2/m with beta != 90, rhombohedral axes) the early exit of the
    # segment traversal can miss whole families.  There "nothing missing" is not
    # asserted against the oracle; every other clause is (one member per family,
    # nothing extra, all == union of the families of unique, order, 4th column, ...).
    oblique = (cc == 'rhombohedral') or (spg.Laue in ('-1', '2/m') and
                                         any(abs(x - 90.0) > 1e-12 for x in cell[3:]))
    complete = not oblique
    rot = np.array(spg.rot); trans = np.array(spg.trans)
    rots = rot[:spg.nuniq]
    Gs = recip_metric(cell)
    def stl_of(H):
        H = np.asarray(H, dtype=float)
        return 0.5*np.sqrt(np.einsum('ij,jk,ik->i', H, Gs, H))
    B = box(cell, smax)
    sB = stl_of(B)
    # bounds must stay away from every lattice point (quantifier)
    for bound in (smin, smax):
        if bound > 0 and np.min(np.abs(sB - bound)) < 1e-7*bound:
            return None
    inshell = B[(sB > smin) & (sB <= smax)]
    allowed = [tuple(int(v) for v in h) for h in inshell if not extinct(h, rot, trans)]
    allowed_set = set(allowed)
    fam_of = {}
    fams = set()
    for h in allowed:
        if h not in fam_of:
            o = orbit(np.array(h), rots)
            # sanity of the oracle: whole orbit has the same stl and is allowed
            so = stl_of(np.array(sorted(o)))
            assert np.ptp(so) <= 1e-9*so[0], 'oracle: orbit not isometric (cell not conforming?)'
            assert o <= allowed_set, 'oracle: orbit leaves the allowed set'
            for m in o:
                fam_of[m] = o
            fams.add(o)
    tag = '%s sg %d %s cell %s shell (%r,%r]' % (mod.__name__, no, cc, np.round(cell, 4).tolist(), smin, smax)
    results = {}
    for name in ('genhkl_unique', 'genhkl_all'):
        f = getattr(mod, name)
        for ostl in (True, False):
            np.random.seed(seed)
            kw = dict(cell_choice=cc)
            if seed % 2:
                kw['sgno'] = no
            else:
                kw['sgname'] = spg.name
            out = f(cell, smin, smax, output_stl=ostl, **kw)
            H, stl = as_int_rows(out, 4 if ostl else 3, tag + ' ' + name)
            rows = [tuple(int(v) for v in h) for h in H]
            assert len(set(rows)) == len(rows), tag + ' %s: repeated row' % name
            assert set(rows) <= allowed_set, tag + ' %s: row outside shell / extinct: %s' % (name, sorted(set(rows) - allowed_set)[:3])
            mine = stl_of(H) if len(H) else np.zeros(0)
            if len(mine) > 1:
                assert np.all(np.diff(mine) >= -RTOL*mine[1:]), tag + ' %s: not sorted by true sintl' % name
            if ostl and len(H):
                assert np.all(np.abs(stl - mine) <= RTOL*mine), tag + ' %s: 4th column is not sintl of the row' % name
                assert np.all(np.diff(stl) >= 0) or np.all(np.diff(stl) >= -RTOL*stl[1:]), tag + ' %s: 4th column decreasing' % name
            if name == 'genhkl_unique':
                got = [fam_of[r] for r in rows]
                assert len(set(got)) == len(got), tag + ' unique: two members of one family'
                assert set(got) <= fams
                if complete:
                    assert set(got) == fams, tag + ' unique: %d families missing' % len(fams - set(got))
            elif complete:
                assert set(rows) == allowed_set, tag + ' all: %d reflections missing' % len(allowed_set - set(rows))
            results[(name, ostl)] = rows
    # genhkl_all is the union of the families of genhkl_unique's rows
    u = set()
    for r in results[('genhkl_unique', True)]:
        u |= fam_of[r]
    assert u == set(results[('genhkl_all', True)]), tag + ' all != union of families of unique'
    for ostl in (True, False):
        assert set(results[('genhkl_unique', ostl)]) <= set(results[('genhkl_all', ostl)])
        assert len(results[('genhkl_unique', ostl)]) == len(results[('genhkl_unique', True)])
        assert set(results[('genhkl_all', ostl)]) == u
    return len(allowed), len(fams)

def fingerprint():
    fixed = [(225, 'standard', [4.05, 4.05, 4.05, 90, 90, 90], 0.0, 0.62),
             (14, 'standard', [5.1, 6.2, 7.3, 90, 103.0, 90], 0.05, 0.33),
             (148, 'rhombohedral', [5.0, 5.0, 5.0, 57.0, 57.0, 57.0], 0.0, 0.41),
             (176, 'standard', [6.0, 6.0, 4.2, 90, 90, 120], 0.0, 0.42),
             (2, 'standard', [4.0, 5.0, 6.0, 80., 95., 100.], 0.0, 0.3)]
    h = hashlib.sha1()
    summ = []
    for mod in (tools, laue):
        for no, cc, cell, a, b in fixed:
            for name in ('genhkl_unique', 'genhkl_all'):
                for ostl in (True, False):
                    np.random.seed(12345)
                    out = getattr(mod, name)(cell, a, b, sgno=no, cell_choice=cc, output_stl=ostl)
                    arr = np.asarray(out)
                    h.update(type(out).__name__.encode()); h.update(str(arr.dtype).encode())
                    h.update(repr(arr.shape).encode()); h.update(np.ascontiguousarray(arr).tobytes())
                    if mod is tools and no in (14, 148) and not ostl:
                        summ.append('%s(sg%d)[-3:]=%s%s' % (name[7:], no, arr.dtype,
                                    [[int(v) for v in r] for r in arr[-3:]]))
    return 'sha1=%s %s' % (h.hexdigest()[:16], ' '.join(summ).replace(' ', ''))

def main():
    rng = np.random.RandomState(20261001)
    sett = settings()
    ncase = 0; nskip = 0; nrefl = 0; nfam = 0
    for mod in (tools, laue):
        order = rng.permutation(len(sett))
        take = order[:len(sett)] if mod is tools else order[:60]
        for j in take:
            no, cc = sett[j]
            spg = sg.sg(sgno=no, cell_choice=cc)
            cell = random_cell(rng, spg.crystal_system, cc)
            V = 1.0/np.sqrt(np.linalg.det(recip_metric(cell)))
            # aim at some tens..hundreds of lattice points in the sphere
            target = rng.uniform(60, 400)
            smax = 0.5*(3*target/(4*np.pi*V))**(1/3.)
            smin = 0.0 if rng.rand() < 0.4 else smax*rng.uniform(0.2, 0.8)
            r = check_case(mod, no, cc, cell, smin, smax, seed=int(rng.randint(0, 2**31 - 1)))
            if r is None:
                nskip += 1
                continue
            ncase += 1; nrefl += r[0]; nfam += r[1]
    print('checked %d cases (%d skipped: bound too close to a lattice point), %d reflections, %d families'
          % (ncase, nskip, nrefl, nfam))
    print('FINGERPRINT: ' + fingerprint())
    return 0

if __name__ == '__main__':
    try:
        sys.exit(main())
    except AssertionError as e:
        print('PROPERTY VIOLATED: %s' % e)
        sys.exit(1)
