"""
C07 negative-control demo.

Tests, with an independent computation, that the structure factors returned
by xfab.structure.StructureFactor transform correctly under the operations
(R,t) of the space group:

    F(hR) = F(h) * exp(-2 pi i h.t)        (hence |F(hR)| = |F(h)|)
    F(h)  = 0 whenever hR = h and h.t is not an integer (extinction)
    F(-h) = conj(F(h))                     (no dispersion)

for every space-group name known to xfab, random general-position atoms
with Uiso or positive-definite Uani, occupancies in (0,1], hkl within +-8.

The operations are taken from the tables in xfab.sglib (6-digit decimals),
the tolerance is scaled by the total scattering power and by the 6-digit
rounding of the tabulated thirds and sixths.

Exit status 0 if the property holds, 1 otherwise.  Prints a FINGERPRINT line
made of the raw outputs for a few fixed inputs and of the helper call pattern.
"""
from __future__ import print_function
import sys
import hashlib
import warnings
warnings.simplefilter('ignore')

import numpy as np

from xfab import structure, sg, sglib, atomlib, tools

TWO_PI = 2*np.pi
ELEMENTS = ['C', 'N', 'O', 'SI', 'FE', 'S', 'CU', 'AL']


def group_tables(name):
    """rotations and translations of the group as tabulated in sglib"""
    o = sg.sg(sgname=name)
    klass = getattr(sglib, 'Sg%i' % o.no)
    t = klass(cell_choice=o.cell_choice)
    return o, np.array(t.rot, dtype=int), np.array(t.trans, dtype=float)


def make_cell(rng, o):
    a, b, c = rng.uniform(4.0, 12.0, 3)
    al, be, ga = rng.uniform(75.0, 105.0, 3)
    cs = o.crystal_system
    if cs == 'triclinic':
        return [a, b, c, al, be, ga]
    if cs == 'monoclinic':
        return [a, b, c, 90., be, 90.]
    if cs == 'orthorhombic':
        return [a, b, c, 90., 90., 90.]
    if cs == 'tetragonal':
        return [a, a, c, 90., 90., 90.]
    if cs == 'cubic':
        return [a, a, a, 90., 90., 90.]
    if cs == 'trigonal' and o.cell_choice == 'rhombohedral':
        return [a, a, a, al, al, al]
    if cs in ('trigonal', 'hexagonal'):
        return [a, a, c, 90., 90., 120.]
    raise ValueError(cs)


def make_atoms(rng, o, natoms):
    atoms = []
    for i in range(natoms):
        el = ELEMENTS[rng.integers(len(ELEMENTS))]
        pos = rng.uniform(0.03, 0.97, 3)
        occ = 1.0 - rng.uniform(0.0, 0.9)           # in (0,1]
        if rng.uniform() < 0.5:
            adp_type, adp = 'Uiso', rng.uniform(0.005, 0.06)
        else:
            m = rng.normal(size=(3, 3))
            u = 0.012*np.dot(m, m.T) + 0.004*np.eye(3)   # positive definite
            adp_type = 'Uani'
            adp = [u[0, 0], u[1, 1], u[2, 2], u[1, 2], u[0, 2], u[0, 1]]
        atoms.append(structure.atom_entry(label='%s%i' % (el, i), atomtype=el,
                                          pos=pos, adp_type=adp_type, adp=adp,
                                          occ=occ, symmulti=o.nsymop))
    return atoms


def scattering_power(atoms):
    s = 0.0
    for a in atoms:
        d = atomlib.formfactor[a.atomtype]
        s += a.occ*a.symmulti*abs(sum(d[:4]) + d[8])
    return s


def F(hkl, cell, name, atoms):
    fr, fi = structure.StructureFactor([int(v) for v in hkl], cell, name, atoms)
    return complex(fr, fi)


def hkl_list(rng):
    out = []
    for i in range(2):
        h = rng.integers(-8, 9, 3)
        if not h.any():
            h[0] = 1
        out.append(h)
    # zones, rows and diagonals, where the glide/screw extinctions live
    a, b = rng.integers(1, 9, 2)
    special = [(a, 0, 0), (0, a, 0), (0, 0, a), (a, b, 0), (a, 0, b), (0, a, b),
               (a, a, b), (a, -a, b), (a, b, b), (b, a, b)]
    for k in rng.choice(len(special), 3, replace=False):
        out.append(np.array(special[k]))
    return out


def check_property(seed=20260107):
    rng = np.random.default_rng(seed)
    names = sorted(sg.sgdic.keys())
    nbad = 0
    ncases = 0
    next_ = 0
    worst = 0.0
    for name in names:
        o, rot, trans = group_tables(name)
        cell = make_cell(rng, o)
        atoms = make_atoms(rng, o, 3)
        power = scattering_power(atoms)
        for h in hkl_list(rng):
            tol = power*(1e-10 + TWO_PI*np.abs(h).sum()*1.5e-6)
            Fh = F(h, cell, name, atoms)
            ncases += 1
            # Friedel
            d = abs(F(-h, cell, name, atoms) - Fh.conjugate())
            worst = max(worst, d/tol)
            if d > tol:
                nbad += 1
                print('FRIEDEL', name, h, d, tol)
            # extinction: an operation leaving h fixed with a non-integer h.t
            ht = np.dot(trans, h)
            fixed = np.all(np.dot(h, rot) == h, axis=1)
            frac = np.abs(ht - np.round(ht))
            if np.any(fixed & (frac > 0.01)):
                next_ += 1
                worst = max(worst, abs(Fh)/tol)
                if abs(Fh) > tol:
                    nbad += 1
                    print('EXTINCT', name, h, abs(Fh), tol)
            # transformation under two operations of the group
            for j in rng.choice(len(rot), min(2, len(rot)), replace=False):
                hR = np.dot(h, rot[j])
                if np.abs(hR).max() > 8:
                    pass  # still a legal reflection; keep it
                FhR = F(hR, cell, name, atoms)
                expect = Fh*np.exp(-1j*TWO_PI*ht[j])
                d = abs(FhR - expect)
                worst = max(worst, d/tol)
                if d > tol:
                    nbad += 1
                    print('TRANSFORM', name, h, j, d, tol)
                if abs(abs(FhR) - abs(Fh)) > tol:
                    nbad += 1
                    print('MODULUS', name, h, j)
    print('groups (names): %i  reflections: %i  extinct: %i  worst/tol: %.3g  '
          'violations: %i' % (len(names), ncases, next_, worst, nbad))
    return nbad


def fingerprint():
    """raw outputs and helper call pattern for a few fixed inputs"""
    calls = {'Uij2betaij': 0, 'cell_invert': 0}
    orig_u, orig_c = structure.Uij2betaij, tools.cell_invert

    def wrap_u(*a, **k):
        calls['Uij2betaij'] += 1
        return orig_u(*a, **k)

    def wrap_c(*a, **k):
        calls['cell_invert'] += 1
        return orig_c(*a, **k)
    structure.Uij2betaij = wrap_u
    tools.cell_invert = wrap_c
    try:
        mk = structure.atom_entry
        raw = []
        fixed = [('P63/mmc', [5.1, 5.1, 8.3, 90, 90, 120], 24),
                 ('R-3c', [4.9, 4.9, 13.2, 90, 90, 120], 36),
                 ('P21/c', [8.5, 4.8, 10.1, 90, 92.0, 90], 4),
                 ('Fd-3m', [5.43, 5.43, 5.43, 90, 90, 90], 192)]
        for name, cell, nsym in fixed:
            atoms = [mk(label='Fe1', atomtype='FE', pos=[0.12, 0.27, 0.41],
                        adp_type='Uani',
                        adp=[0.021, 0.017, 0.03, 0.002, -0.004, 0.006],
                        occ=0.8, symmulti=nsym),
                     mk(label='O1', atomtype='O', pos=[0.31, 0.07, 0.19],
                        adp_type='Uani',
                        adp=[0.011, 0.027, 0.02, -0.003, 0.004, 0.001],
                        occ=1.0, symmulti=nsym),
                     mk(label='C1', atomtype='C', pos=[0.44, 0.62, 0.83],
                        adp_type='Uiso', adp=0.025, occ=0.5, symmulti=nsym)]
            for hkl in ([1, 2, 3], [-4, 1, 5], [2, 0, -6]):
                fr, fi = structure.StructureFactor(hkl, cell, name, atoms)
                raw.append('%r %r' % (float(fr), float(fi)))
            t = sg.sg(sgname=name).trans
            raw.append(repr([float(v) for v in t.ravel()[:12]]))
    finally:
        structure.Uij2betaij = orig_u
        tools.cell_invert = orig_c
    digest = hashlib.sha1('\n'.join(raw).encode()).hexdigest()[:16]
    return '%s Uij2betaij_calls=%i cell_invert_calls=%i' % (
        digest, calls['Uij2betaij'], calls['cell_invert'])


if __name__ == '__main__':
    bad = check_property()
    print('FINGERPRINT: ' + fingerprint())
    if bad:
        print('PROPERTY VIOLATED')
        sys.exit(1)
    print('property holds')
    sys.exit(0)
