"""
Demo for property C07: structure factors transform correctly under the
space-group operations.

For every one of the 230 space groups (by name), random general-position
atoms (Uiso or positive-definite Uani, occupancy in (0,1]) and integer hkl in
a box of +-8 it checks, with the operations (R,t) read directly from the
xfab.sglib tables (not from the sg.sg object used by the subject):

   F(hR) = F(h) exp(-2 pi i h.t)          for every operation
   |F(hR)| = |F(h)|
   F = 0 when hR = h and h.t is not an integer (space-group extinction)
   F(-h) = conj(F(h))                     (no dispersion)

Tolerance: scaled by the total scattering power and by the 6-digit rounding
of tabulated thirds/sixths.  Exit status 0 if the property holds.
"""
from __future__ import print_function
import sys
import hashlib
import warnings
warnings.simplefilter('ignore')
import numpy as np

from xfab import structure, sglib, sg, atomlib

rng = np.random.RandomState(20261001)


def names_by_number():
    out = {}
    for key, klass in sg.sgdic.items():
        no = int(klass[2:])
        # keep the plain name, not the explicit ...h / ...r setting names
        if no not in out:
            out[no] = key
    return out


def random_cell(system):
    a, b, c = rng.uniform(4., 12., 3)
    al, be, ga = rng.uniform(75., 110., 3)
    system = system.strip()
    if system == 'triclinic':
        return [a, b, c, al, be, ga]
    if system == 'monoclinic':
        return [a, b, c, 90., be, 90.]
    if system == 'orthorhombic':
        return [a, b, c, 90., 90., 90.]
    if system == 'tetragonal':
        return [a, a, c, 90., 90., 90.]
    if system in ('trigonal', 'hexagonal'):
        return [a, a, c, 90., 90., 120.]
    if system == 'cubic':
        return [a, a, a, 90., 90., 90.]
    raise ValueError(system)


def random_uani():
    # positive definite U (cartesian-like), small
    m = rng.normal(size=(3, 3))
    u = 0.004*np.dot(m, m.T) + 0.005*np.eye(3)
    return [u[0, 0], u[1, 1], u[2, 2], u[1, 2], u[0, 2], u[0, 1]]


def random_atoms(nsymop, natoms):
    atoms = []
    types = ['C', 'O', 'FE', 'SI', 'N', 'S']
    for i in range(natoms):
        if rng.rand() < 0.5:
            adp_type, adp = 'Uiso', rng.uniform(0.005, 0.06)
        else:
            adp_type, adp = 'Uani', random_uani()
        atoms.append(structure.atom_entry(
            label='X%i' % i, atomtype=types[rng.randint(len(types))],
            pos=rng.uniform(0.03, 0.97, 3), adp_type=adp_type, adp=adp,
            occ=rng.uniform(0.05, 1.0), symmulti=nsymop))
    return atoms


def F(hkl, cell, name, atoms):
    out = structure.StructureFactor([int(v) for v in hkl], cell, name, atoms)
    fr, fi = out
    return complex(float(fr), float(fi))


def main():
    names = names_by_number()
    assert sorted(names) == list(range(1, 231))
    nbad = 0
    ncase = 0
    ncheck = 0
    next_ext = 0
    for no in range(1, 231):
        name = names[no]
        tab = getattr(sglib, 'Sg%i' % no)()
        rots = np.array(tab.rot)
        trans = np.array(tab.trans, dtype=float)
        nsym = len(rots)
        for rep in range(2):
            ncase += 1
            cell = random_cell(tab.crystal_system)
            atoms = random_atoms(nsym, rng.randint(1, 4))
            scale = sum(a.occ*structure.FormFactor(a.atomtype, 0.0)
                        for a in atoms)*nsym
            hkls = [rng.randint(-8, 9, 3) for i in range(2)]
            # a low-order axial / zonal reflection: extinctions live there
            ax = np.zeros(3, int)
            ax[rng.randint(3)] = rng.randint(1, 8)
            hkls.append(ax)
            for h in hkls:
                tol = scale*(1e-9 + 2*np.pi*np.abs(h).sum()*3e-6)
                Fh = F(h, cell, name, atoms)
                Fm = F(-h, cell, name, atoms)
                ncheck += 1
                if abs(Fm - Fh.conjugate()) > tol:
                    nbad += 1
                    print('FRIEDEL', name, h, Fh, Fm)
                # a subset of the operations to keep the run time down
                if nsym > 12:
                    js = rng.choice(nsym, 12, replace=False)
                else:
                    js = range(nsym)
                for j in js:
                    R, t = rots[j], trans[j]
                    hR = np.dot(h, R)
                    if np.abs(hR).max() > 8 + 8:  # cannot happen, R is unimodular signed perm-like
                        continue
                    FhR = F(hR, cell, name, atoms)
                    want = Fh*np.exp(-2j*np.pi*np.dot(h, t))
                    ncheck += 1
                    if abs(FhR - want) > tol:
                        nbad += 1
                        print('TRANSFORM', name, h, j, FhR, want, tol)
                    if abs(abs(FhR) - abs(Fh)) > tol:
                        nbad += 1
                        print('MODULUS', name, h, j, abs(FhR), abs(Fh), tol)
                    ht = np.dot(h, t)
                    if (hR == h).all() and abs(ht - round(ht)) > 0.01:
                        next_ext += 1
                        if abs(Fh) > tol:
                            nbad += 1
                            print('EXTINCT', name, h, j, Fh, tol)
    print('cases %i, relations checked %i, extinction checks %i, violations %i'
          % (ncase, ncheck, next_ext, nbad))
    return nbad


def fingerprint():
    """raw outputs and representation for a few fixed inputs"""
    atoms = [structure.atom_entry(label='A', atomtype='FE',
                                  pos=np.array([0.1234, 0.2711, 0.3907]),
                                  adp_type='Uiso', adp=0.02, occ=0.8,
                                  symmulti=1),
             structure.atom_entry(label='B', atomtype='O',
                                  pos=np.array([0.4321, 0.0917, 0.7703]),
                                  adp_type='Uani',
                                  adp=[0.02, 0.03, 0.025, 0.002, -0.003, 0.001],
                                  occ=1.0, symmulti=1)]
    items = []
    for name, cell in [('P43', [5., 5., 7., 90., 90., 90.]),
                       ('P6222', [5., 5., 7., 90., 90., 120.]),
                       ('Fd-3m', [8., 8., 8., 90., 90., 90.]),
                       ('P21/c', [5., 6., 7., 90., 100., 90.])]:
        g = sg.sg(sgname=name)
        for a in atoms:
            a.symmulti = g.nsymop
        items.append(('trans', name, np.asarray(g.trans).tolist()))
        for h in ([1, 2, 3], [0, 0, 1], [-3, 1, 5]):
            out = structure.StructureFactor(h, cell, name, atoms)
            items.append((type(out).__name__,
                          [type(v).__name__ for v in out],
                          [float(v).hex() for v in out]))
    items.append(sorted(k for k in dir(structure) if not k.startswith('_')))
    return hashlib.sha1(repr(items).encode()).hexdigest()[:16]


if __name__ == '__main__':
    print('xfab from', structure.__file__)
    nbad = main()
    print('FINGERPRINT: %s' % fingerprint())
    sys.exit(1 if nbad else 0)
