"""
C08 demo: StructureFactor(hkl) == explicit sum over the P1 expansion of the
asymmetric unit, plus the consequences (lattice shift, linearity in occupancy,
Uiso == equivalent Uani, F(000) with zero displacement).

Run:  PYTHONPATH=<checkout root> /venv/bin/python -B demo.py
Exit 0 when the property holds for all generated inputs, 1 otherwise.
Prints one FINGERPRINT line (raw output bits and FormFactor call pattern for a
few fixed inputs).
"""
import sys
import hashlib
import warnings
warnings.simplefilter('ignore')

import numpy as np
from xfab import structure, sg, atomlib

PI = np.pi
rng = np.random.RandomState(80808)

# ----------------------------------------------------------------- oracle ---

def recip_basis(cell):
    """columns are the cartesian reciprocal basis vectors (no 2pi)"""
    a, b, c = [float(x) for x in cell[:3]]
    al, be, ga = [np.radians(float(x)) for x in cell[3:]]
    cx = c*np.cos(be)
    cy = c*(np.cos(al) - np.cos(be)*np.cos(ga))/np.sin(ga)
    cz = np.sqrt(c*c - cx*cx - cy*cy)
    A = np.array([[a, b*np.cos(ga), cx],
                  [0, b*np.sin(ga), cy],
                  [0, 0, cz]])
    return np.linalg.inv(A).T


def gauss_ff(atomtype, stl):
    d = atomlib.formfactor[atomtype]
    return sum(d[i]*np.exp(-d[i+4]*stl**2) for i in range(4)) + d[8]


_orbits = {}


def orbit(ops, pos):
    """unique images (modulo lattice vectors) of pos, with the operator used"""
    key = (id(ops), tuple(float(x) for x in pos))
    if key not in _orbits:
        # keep ops alive next to the result so that its id is never reused
        _orbits[key] = (ops, _orbit(ops, pos))
    return _orbits[key][1]


def _orbit(ops, pos):
    out = []
    for R, t in ops:
        r = np.dot(R, pos) + t
        for (r2, _) in out:
            d = r - r2
            if np.max(np.abs(d - np.round(d))) < 1e-6:
                break
        else:
            out.append((r, R))
    return out


class Spec(object):
    """plain description of one atom of the asymmetric unit"""
    def __init__(self, atomtype, pos, occ, kind, uiso=None, ucart=None):
        self.atomtype = atomtype
        self.pos = np.array(pos, dtype=float)
        self.occ = occ
        self.kind = kind          # 'none' | 'Uiso' | 'Uani_iso' | 'Uani'
        self.uiso = uiso          # for Uiso / Uani_iso
        self.ucart = ucart        # for Uani: cartesian 3x3 tensor


def uani_six(M, Bm):
    """U^{ij} (U11,U22,U33,U23,U13,U12) from M = Bm^T Ucart Bm"""
    s = np.sqrt(np.sum(Bm*Bm, axis=0))       # |a*|, |b*|, |c*|
    U = M/np.outer(s, s)
    return [U[0, 0], U[1, 1], U[2, 2], U[1, 2], U[0, 2], U[0, 1]]


def make_atoms(specs, ops, Bm, iso_as='asis', occ_scale=1.0, shift=None):
    """xfab atom_entry objects (fresh every time: the library may touch them)"""
    atoms = []
    for k, sp in enumerate(specs):
        multi = len(orbit(ops, sp.pos))
        pos = sp.pos if shift is None else sp.pos + shift[k]
        kind = sp.kind
        if iso_as == 'Uiso' and kind == 'Uani_iso':
            kind = 'Uiso'
        elif iso_as == 'Uani' and kind == 'Uiso':
            kind = 'Uani_iso'
        if kind == 'none':
            adp_type, adp = None, None
        elif kind == 'Uiso':
            adp_type, adp = 'Uiso', sp.uiso
        elif kind == 'Uani_iso':
            adp_type, adp = 'Uani', uani_six(np.dot(Bm.T, Bm)*sp.uiso, Bm)
        else:
            adp_type = 'Uani'
            adp = uani_six(np.dot(Bm.T, np.dot(sp.ucart, Bm)), Bm)
        atoms.append(structure.atom_entry(label='%s%i' % (sp.atomtype, k),
                                          atomtype=sp.atomtype,
                                          pos=np.array(pos),
                                          adp_type=adp_type, adp=adp,
                                          occ=sp.occ*occ_scale,
                                          symmulti=multi))
    return atoms


def direct_sum(hkl, specs, ops, Bm, disper):
    """sum over every atom of the unit cell; returns (F, scale)"""
    h = np.array(hkl, dtype=float)
    q = np.dot(Bm, h)
    stl = 0.5*np.sqrt(np.dot(q, q))
    F = 0j
    scale = 0.0
    for sp in specs:
        f0 = gauss_ff(sp.atomtype, stl)
        fp = fpp = 0.0
        if disper is not None and disper[sp.atomtype] is not None:
            fp, fpp = disper[sp.atomtype]
        for (r, R) in orbit(ops, sp.pos):
            if sp.kind == 'none':
                T = 1.0
            elif sp.kind in ('Uiso', 'Uani_iso'):
                T = np.exp(-8*PI**2*sp.uiso*stl**2)
            else:
                M = np.dot(Bm.T, np.dot(sp.ucart, Bm))
                Mr = np.dot(R, np.dot(M, R.T))       # tensor of the image atom
                T = np.exp(-2*PI**2*np.dot(h, np.dot(Mr, h)))
            F += sp.occ*(f0 + fp + 1j*fpp)*T*np.exp(2j*PI*np.dot(h, r))
            scale += abs(sp.occ*(f0 + fp + 1j*fpp))
    return F, scale

# -------------------------------------------------------------- generators ---

CELLS = {
    'triclinic':    lambda: [5+4*rng.rand(), 6+4*rng.rand(), 7+4*rng.rand(),
                             70+35*rng.rand(), 75+30*rng.rand(), 65+45*rng.rand()],
    'monoclinic':   lambda: [5+4*rng.rand(), 6+4*rng.rand(), 7+4*rng.rand(),
                             90, 92+25*rng.rand(), 90],
    'orthorhombic': lambda: [5+4*rng.rand(), 6+4*rng.rand(), 7+4*rng.rand(), 90, 90, 90],
    'tetragonal':   lambda: (lambda a: [a, a, 7+4*rng.rand(), 90, 90, 90])(5+4*rng.rand()),
    'trigonal':     lambda: (lambda a: [a, a, 9+5*rng.rand(), 90, 90, 120])(5+4*rng.rand()),
    'hexagonal':    lambda: (lambda a: [a, a, 9+5*rng.rand(), 90, 90, 120])(5+4*rng.rand()),
    'cubic':        lambda: (lambda a: [a, a, a, 90, 90, 90])(5+6*rng.rand()),
}

GROUPS = ['P1', 'P-1', 'P21', 'C2', 'Pc', 'P 21/c', 'C2/c', 'P212121', 'Pna21',
          'Fdd2', 'Pnma', 'Cmca', 'Ibam', 'Fddd', 'P41', 'I-4', 'P4/n', 'I41/a',
          'P4212', 'I-42d', 'P42/mnm', 'I41/amd', 'P31', 'R3', 'R-3r', 'P3121',
          'R3c', 'P-3m1', 'R-3m', 'R-3c r', 'P61', 'P6/m', 'P6322', 'P63/mmc',
          'P213', 'Pa-3', 'Ia-3', 'F-43m', 'I-43d', 'Pm-3m', 'Fm-3m', 'Fd-3m',
          'Ia-3d']

TYPES = ['H', 'C', 'N', 'O', 'SI', 'FE', 'CU', 'BR']
FRACS = [0.0, 0.25, 0.5, 0.75, 1/3., 2/3., 0.125]


def random_pos(special):
    if not special:
        return rng.rand(3)*1.6 - 0.3
    x = rng.rand()
    c = []
    for _ in range(3):
        u = rng.rand()
        if u < 0.55:
            c.append(FRACS[rng.randint(len(FRACS))])
        elif u < 0.75:
            c.append(x)
        elif u < 0.85:
            c.append(-x)
        elif u < 0.92:
            c.append(2*x)
        else:
            c.append(rng.rand())
    return np.array(c)


def random_specs(nsym):
    specs = []
    for _ in range(rng.randint(1, 5)):
        special = rng.rand() < 0.5
        pos = random_pos(special)
        occ = [1.0, 0.5, rng.rand()][rng.randint(3)]
        at = TYPES[rng.randint(len(TYPES))]
        kinds = ['none', 'Uiso', 'Uani_iso'] if special else \
                ['none', 'Uiso', 'Uani_iso', 'Uani', 'Uani']
        kind = kinds[rng.randint(len(kinds))]
        uiso = 0.005 + 0.05*rng.rand()
        G = rng.randn(3, 3)*0.12
        ucart = np.dot(G, G.T) + 0.004*np.eye(3)
        specs.append(Spec(at, pos, occ, kind, uiso, ucart))
    return specs


def random_disper():
    u = rng.rand()
    if u < 0.25:
        return None
    d = {}
    for t in TYPES:
        if u < 0.6 and rng.rand() < 0.4:
            d[t] = None
        else:
            d[t] = [rng.randn()*0.5, abs(rng.randn())*0.8]
    return d


def random_hkl(i):
    if i == 0:
        return [0, 0, 0]
    return [int(v) for v in rng.randint(-6, 7, 3)]

# ------------------------------------------------------------------- checks ---

failures = []
nchecked = 0


def SF(hkl, cell, name, atoms, disper):
    Fr, Fi = structure.StructureFactor(hkl, cell, name, atoms, disper)
    return complex(Fr, Fi)


def check(tag, got, want, scale, info):
    global nchecked
    nchecked += 1
    if not (abs(got - want) <= 1e-9*max(scale, 1.0)):
        failures.append((tag, info, got, want))


for name in GROUPS:
    g = sg.sg(sgname=name)
    ops = [(np.array(g.rot[j], dtype=float), np.array(g.trans[j], dtype=float))
           for j in range(g.nsymop)]
    for rep in range(2):
        cell = CELLS[g.crystal_system]()
        if g.cell_choice == 'rhombohedral':
            a = 5 + 4*rng.rand()
            al = 50 + 55*rng.rand()
            cell = [a, a, a, al, al, al]
        Bm = recip_basis(cell)
        specs = random_specs(g.nsymop)
        disper = random_disper()
        for i in range(4):
            hkl = random_hkl(i if rep == 0 else i + 1)
            info = (name, hkl)
            want, scale = direct_sum(hkl, specs, ops, Bm, disper)
            F = SF(hkl, cell, name, make_atoms(specs, ops, Bm), disper)
            check('direct-sum', F, want, scale, info)
            # hkl handed over as an integer array as well
            F_arr = SF(np.array(hkl), cell, name, make_atoms(specs, ops, Bm), disper)
            check('hkl-array', F_arr, want, scale, info)
            # lattice shift of every atom
            shift = [rng.randint(-3, 4, 3) for _ in specs]
            F_s = SF(hkl, cell, name, make_atoms(specs, ops, Bm, shift=shift), disper)
            check('lattice-shift', F_s, F, scale, info)
            # linear in occupancy
            F_h = SF(hkl, cell, name, make_atoms(specs, ops, Bm, occ_scale=0.37), disper)
            check('occupancy', F_h, 0.37*F, scale, info)
            # isotropic U given as Uiso or as the equivalent tensor
            F_i = SF(hkl, cell, name, make_atoms(specs, ops, Bm, iso_as='Uiso'), disper)
            F_a = SF(hkl, cell, name, make_atoms(specs, ops, Bm, iso_as='Uani'), disper)
            check('Uiso==Uani(iso)', F_i, F_a, scale, info)
        # F(000) without displacement
        nodisp = [Spec(s.atomtype, s.pos, s.occ, 'none') for s in specs]
        want0 = 0j
        for s in nodisp:
            fp = fpp = 0.0
            if disper is not None and disper[s.atomtype] is not None:
                fp, fpp = disper[s.atomtype]
            d = atomlib.formfactor[s.atomtype]
            want0 += s.occ*len(orbit(ops, s.pos))*(sum(d[:4]) + d[8] + fp + 1j*fpp)
        F0 = SF([0, 0, 0], cell, name, make_atoms(nodisp, ops, Bm), disper)
        check('F000', F0, want0, abs(want0), (name, [0, 0, 0]))

# -------------------------------------------------------------- fingerprint ---

calls = []
_orig_ff = structure.FormFactor


def _counting_ff(atomtype, stl):
    calls.append(atomtype)
    return _orig_ff(atomtype, stl)


structure.FormFactor = _counting_ff
fp_cell = [7.31, 8.02, 9.47, 81.0, 97.5, 104.25]
fp_Bm = recip_basis(fp_cell)
fp_specs = [Spec('C', [0.1234, 0.2345, 0.3456], 1.0, 'Uiso', uiso=0.021),
            Spec('C', [0.61, 0.07, 0.88], 0.75, 'Uani', ucart=np.diag([0.01, 0.02, 0.03])),
            Spec('O', [0.5, 0.5, 0.5], 1.0, 'none'),
            Spec('C', [0.3, 0.9, 0.15], 1.0, 'none')]
raw = []
adp_after = None
for gname in ['P21', 'P-1', 'Pna21']:
    gg = sg.sg(sgname=gname)
    gops = [(np.array(gg.rot[j], dtype=float), np.array(gg.trans[j], dtype=float))
            for j in range(gg.nsymop)]
    c = {'P-1': fp_cell, 'P21': [7.31, 8.02, 9.47, 90, 97.5, 90],
         'Pna21': [7.31, 8.02, 9.47, 90, 90, 90]}[gname]
    for hkl in ([1, 2, 3], [-4, 0, 5], [0, 0, 0], [6, -5, 2]):
        ats = make_atoms(fp_specs, gops, recip_basis(c))
        Fr, Fi = structure.StructureFactor(hkl, c, gname, ats,
                                           {'C': [0.017, 0.009], 'O': None})
        raw.append(float(Fr).hex() + '/' + float(Fi).hex())
        adp_after = ats[2].adp
structure.FormFactor = _orig_ff
digest = hashlib.sha1('|'.join(raw).encode()).hexdigest()[:16]
print('FINGERPRINT: bits=%s FormFactor_calls=%d adp_of_no_adp_atom_after_call=%r'
      % (digest, len(calls), adp_after))

print('checked %d comparisons, %d failures' % (nchecked, len(failures)))
for f in failures[:15]:
    print('FAIL', f)
sys.exit(1 if failures else 0)
