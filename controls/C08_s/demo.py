"""
C08 control s: demo / property test.

Property: StructureFactor(hkl) equals the explicit sum over every atom of the
unit cell (P1 expansion of the asymmetric unit) of
    occ * (f(s) + f' + i f'') * DebyeWaller * exp(2 pi i h.r)
and the consequences (lattice shift invariance, linearity in occupancy,
Uiso == equivalent Uani, F(000) with zero displacement).

The oracle below is written independently of xfab.structure:
  * sin(theta)/lambda from the reciprocal basis obtained by inverting a
    Cartesian direct basis (not the closed formula of tools.sintl),
  * the unit cell content is built explicitly: distinct images of every atom
    modulo the lattice, each counted once with weight occ,
  * the anisotropic Debye-Waller factor is evaluated in Cartesian space
    (U_cart = A N U N^T A^T, exp(-2 pi^2 g^T U_cart g)), not via beta_ij,
  * form factor coefficients are hard coded here for a few elements
    (deuterium, where the library knows it, scatters X-rays like hydrogen).
Only the list of symmetry operations (rot, trans) is taken from xfab.sg.
A second part runs through EVERY scatterer the library's table offers with a
one-atom P1 structure, reading the nine coefficients by position only.

Run:  PYTHONPATH=<checkout root> /venv/bin/python -B demo.py
"""
from __future__ import print_function
import sys
import copy
import hashlib
import numpy as np

from xfab import structure, sg, atomlib

CM = {  # Int. Tab. C 6.1.1.4  a1..a4, b1..b4, c
    'H':  [0.493000, 0.322910, 0.140190, 0.040810, 10.510910, 26.125730, 3.142360, 57.799770, .003038],
    'C':  [2.310000, 1.020000, 1.588600, 0.865000, 20.843920, 10.207510, 0.568700, 51.651250, .21560],
    'N':  [12.212610, 3.132200, 2.012500, 1.166300, 0.005700, 9.893310, 28.997540, 0.582600, -11.52901],
    'O':  [3.048500, 2.286800, 1.546300, 0.867000, 13.277110, 5.701110, 0.323900, 32.908940, .25080],
    'SI': [6.291510, 3.035300, 1.989100, 1.541000, 2.438600, 32.333740, 0.678500, 81.693790, 1.14070],
    'S':  [6.905310, 5.203410, 1.437900, 1.586300, 1.467900, 22.215120, 0.253600, 56.172070, .86690],
    'FE': [11.769510, 7.357310, 3.522200, 2.304500, 4.761110, 0.307200, 15.353510, 76.880580, 1.03690],
}
if 'D' in atomlib.formfactor:      # only some trees know deuterium
    CM['D'] = CM['H']
ELEMENTS = sorted(CM)

# (name, crystal family, exact fractions in the table?)
GROUPS = [('P1', 'tric', True), ('P-1', 'tric', True), ('P21', 'mono', True),
          ('P21/c', 'mono', True), ('C2/c', 'mono', True), ('Cc', 'mono', True),
          ('P212121', 'orth', True), ('Pnma', 'orth', True), ('Cmca', 'orth', True),
          ('Fddd', 'orth', True), ('I41/a', 'tetr', True), ('P4/mmm', 'tetr', True),
          ('P42/mnm', 'tetr', True), ('Fm-3m', 'cub', True), ('Ia-3d', 'cub', True),
          ('Pa-3', 'cub', True), ('P3121', 'hex', False), ('R-3c', 'hex', False),
          ('P63/mmc', 'hex', False), ('P6122', 'hex', False)]


def rand_cell(rng, fam):
    a, b, c = rng.uniform(4, 14, 3)
    if fam == 'tric':
        while True:
            al, be, ga = rng.uniform(65, 115, 3)
            ca, cb, cg = np.cos(np.radians([al, be, ga]))
            if 1 - ca*ca - cb*cb - cg*cg + 2*ca*cb*cg > 0.2:
                return [a, b, c, al, be, ga]
    if fam == 'mono':
        return [a, b, c, 90., rng.uniform(92, 125), 90.]
    if fam == 'orth':
        return [a, b, c, 90., 90., 90.]
    if fam == 'tetr':
        return [a, a, c, 90., 90., 90.]
    if fam == 'cub':
        return [a, a, a, 90., 90., 90.]
    if fam == 'hex':
        return [a, a, c, 90., 90., 120.]
    raise ValueError(fam)


def direct_basis(cell):
    """columns are a, b, c in a Cartesian frame"""
    a, b, c = cell[:3]
    al, be, ga = np.radians(cell[3:])
    ax = np.array([a, 0, 0])
    bx = np.array([b*np.cos(ga), b*np.sin(ga), 0])
    cx = c*np.cos(be)
    cy = c*(np.cos(al) - np.cos(be)*np.cos(ga))/np.sin(ga)
    cz = np.sqrt(c*c - cx*cx - cy*cy)
    return np.array([ax, bx, [cx, cy, cz]]).T


def same_mod_lattice(p, q, tol=1e-4):
    d = np.asarray(p) - np.asarray(q)
    return np.abs(d - np.round(d)).max() < tol


def orbit(ops, pos):
    """distinct images of pos modulo the lattice: list of (R, image)"""
    out = []
    for R, t in ops:
        r = R.dot(pos) + t
        if not any(same_mod_lattice(r, q) for _, q in out):
            out.append((R, r))
    return out


def stabiliser(ops, pos):
    return [R for R, t in ops if same_mod_lattice(R.dot(pos) + t, pos)]


def special_position(rng, ops):
    """a random position, with some coordinates on 'nice' values so that
    special positions turn up often"""
    nice = [0., 0.25, 0.5, 0.75, 1./3, 2./3, 0.125]
    x = rng.uniform(-1, 1, 3)
    mode = rng.randint(0, 5)
    if mode == 0:
        return x                                   # general
    if mode == 1:
        return np.array([nice[rng.randint(7)] for _ in range(3)])
    if mode == 2:
        x[rng.randint(3)] = nice[rng.randint(7)]
        return x
    if mode == 3:
        k = rng.randint(3)
        x[(k+1) % 3] = x[k]                        # x,x,z type
        return x
    # exact fixed point of a random operation when there is one
    R, t = ops[rng.randint(len(ops))]
    M = R - np.eye(3)
    sol = np.linalg.lstsq(M, -t, rcond=None)[0]
    if np.allclose(M.dot(sol), -t, atol=1e-9):
        # add a random vector of the invariant space
        w, v = np.linalg.eig(R)
        inv = [np.real(v[:, i]) for i in range(3) if abs(w[i]-1) < 1e-9]
        for e in inv:
            sol = sol + rng.uniform(-0.4, 0.4)*e
        return sol
    return x


def cif_U_from_cart(Ucart, A):
    """U_ij in the CIF convention from a Cartesian displacement tensor"""
    Ainv = np.linalg.inv(A)
    astar = np.sqrt((Ainv**2).sum(axis=1))     # lengths of reciprocal vectors
    Ninv = np.diag(1./astar)
    U = Ninv.dot(Ainv).dot(Ucart).dot(Ainv.T).dot(Ninv)
    return U


def make_atoms(rng, ops, cell):
    A = direct_basis(cell)
    Ainv = np.linalg.inv(A)
    astar = np.sqrt((Ainv**2).sum(axis=1))
    N = np.diag(astar)
    atoms = []
    for k in range(rng.randint(1, 5)):
        pos = special_position(rng, ops)
        mult = len(orbit(ops, pos))
        kind = ['Uiso', 'Uani', None][rng.randint(3)]
        if kind == 'Uiso':
            adp = rng.uniform(0.005, 0.08)
        elif kind == 'Uani':
            G = rng.normal(size=(3, 3))
            Uc = 0.01*np.eye(3) + 0.01*G.dot(G.T)
            # make the tensor obey the site symmetry (Cartesian rotation of
            # the fractional operation R is A R A^-1)
            S = stabiliser(ops, pos)
            Uc = sum(A.dot(R).dot(Ainv).dot(Uc).dot((A.dot(R).dot(Ainv)).T) for R in S)/len(S)
            U = cif_U_from_cart(Uc, A)
            adp = [U[0, 0], U[1, 1], U[2, 2], U[1, 2], U[0, 2], U[0, 1]]
        else:
            adp = 0.0
        atoms.append(structure.atom_entry(label='X%d' % k,
                                          atomtype=ELEMENTS[rng.randint(len(ELEMENTS))],
                                          pos=list(pos) if rng.rand() < .5 else np.array(pos),
                                          adp_type=kind, adp=adp,
                                          occ=[1.0, rng.uniform(0.1, 1.0)][rng.randint(2)],
                                          symmulti=mult))
    return atoms


def make_disper(rng, atoms):
    mode = rng.randint(3)
    if mode == 0:
        return None
    d = {}
    for at in atoms:
        if mode == 2 and rng.rand() < 0.5:
            d[at.atomtype] = None
        else:
            d[at.atomtype] = [rng.uniform(-2, 1), rng.uniform(0, 3)]
    return d


def oracle(hkl, cell, ops, atoms, disper):
    """explicit sum over the unit cell content; returns complex F and a scale"""
    A = direct_basis(cell)
    Ainv = np.linalg.inv(A)                        # rows are a*, b*, c*
    astar = np.sqrt((Ainv**2).sum(axis=1))
    N = np.diag(astar)
    h = np.asarray(hkl, dtype=float)
    g = Ainv.T.dot(h)                              # scattering vector / 2 pi
    s = 0.5*np.sqrt(g.dot(g))
    F = 0j
    scale = 0.
    for at in atoms:
        cm = CM[at.atomtype]
        f = sum(cm[i]*np.exp(-cm[i+4]*s*s) for i in range(4)) + cm[8]
        fp = fpp = 0.
        if disper is not None and disper[at.atomtype] is not None:
            fp, fpp = disper[at.atomtype]
        ff = complex(f + fp, fpp)
        for R, r in orbit(ops, np.asarray(at.pos, dtype=float)):
            if at.adp_type == 'Uiso':
                dw = np.exp(-8*np.pi**2*at.adp*s*s)
            elif at.adp_type == 'Uani':
                a = at.adp
                U = np.array([[a[0], a[5], a[4]], [a[5], a[1], a[3]], [a[4], a[3], a[2]]])
                Uc = A.dot(N).dot(U).dot(N).dot(A.T)
                Rc = A.dot(R).dot(Ainv)
                Uc = Rc.dot(Uc).dot(Rc.T)          # tensor of the image atom
                dw = np.exp(-2*np.pi**2*g.dot(Uc).dot(g))
            else:
                dw = 1.
            F += at.occ*ff*dw*np.exp(2j*np.pi*h.dot(r))
            scale += at.occ*abs(ff)
    return F, scale


def call(hkl, cell, name, atoms, disper):
    res = structure.StructureFactor(hkl, cell, name, atoms, disper)
    fr, fi = res                       # the documented pair
    return complex(float(fr), float(fi)), res


def main():
    rng = np.random.RandomState(808)
    bad = 0
    ncase = 0
    for case in range(320):
        name, fam, exact = GROUPS[case % len(GROUPS)]
        g = sg.sg(sgname=name)
        ops = [(np.array(g.rot[j], dtype=float), np.array(g.trans[j], dtype=float))
               for j in range(g.nsymop)]
        cell = rand_cell(rng, fam)
        atoms = make_atoms(rng, ops, cell)
        disper = make_disper(rng, atoms)
        hkl = [0, 0, 0] if case % 8 == 0 else [int(v) for v in rng.randint(-7, 8, 3)]
        rtol = 1e-9 if exact else 2e-4          # sglib stores 1/3 as 0.333333

        def check(what, got, want, scale):
            if not abs(got - want) <= rtol*max(scale, 1.):
                print('VIOLATION case %d %s %s hkl=%s: got %r want %r' %
                      (case, name, what, hkl, got, want))
                return 1
            return 0

        want, scale = oracle(hkl, cell, ops, atoms, disper)
        got, _ = call(hkl, cell, name, copy.deepcopy(atoms), disper)
        bad += check('explicit sum', got, want, scale)

        # lattice shift of one atom
        sh = copy.deepcopy(atoms)
        k = rng.randint(len(sh))
        sh[k].pos = list(np.asarray(sh[k].pos, dtype=float) + rng.randint(-3, 4, 3))
        got2, _ = call(hkl, cell, name, sh, disper)
        bad += check('lattice shift', got2, got, scale)

        # linear in occupancy
        lam = rng.uniform(0.2, 0.9)
        oc = copy.deepcopy(atoms)
        for at in oc:
            at.occ = at.occ*lam
        got3, _ = call(hkl, cell, name, oc, disper)
        bad += check('occupancy', got3, lam*got, scale)

        # Uiso against the anisotropic tensor of the same isotropic motion
        A = direct_basis(cell)
        iso = copy.deepcopy(atoms)
        ani = copy.deepcopy(atoms)
        for a1, a2 in zip(iso, ani):
            u = rng.uniform(0.005, 0.06)
            a1.adp_type, a1.adp = 'Uiso', u
            U = cif_U_from_cart(u*np.eye(3), A)
            a2.adp_type = 'Uani'
            a2.adp = [U[0, 0], U[1, 1], U[2, 2], U[1, 2], U[0, 2], U[0, 1]]
        gi, _ = call(hkl, cell, name, iso, disper)
        ga, _ = call(hkl, cell, name, ani, disper)
        bad += check('Uiso/Uani', ga, gi, scale)

        # F(000) without displacement
        z = copy.deepcopy(atoms)
        tot = 0j
        for at in z:
            at.adp_type, at.adp = None, 0.0
            cm = CM[at.atomtype]
            fp = fpp = 0.
            if disper is not None and disper[at.atomtype] is not None:
                fp, fpp = disper[at.atomtype]
            tot += at.occ*at.symmulti*complex(sum(cm[:4]) + cm[8] + fp, fpp)
        g0, _ = call([0, 0, 0], cell, name, z, disper)
        bad += check('F000', g0, tot, scale)
        ncase += 5

    # ---- every scatterer of the table, one atom in P1, oblique cell
    cell = [6.1, 7.3, 8.9, 81., 103., 112.]
    A = direct_basis(cell)
    Ainv = np.linalg.inv(A)
    for key in sorted(atomlib.formfactor):
        co = [float(v) for v in atomlib.formfactor[key]]
        if len(co) != 9:
            print('VIOLATION: table entry %s has %d numbers' % (key, len(co)))
            bad += 1
            continue
        pos = rng.uniform(-1, 1, 3)
        occ = rng.uniform(0.2, 1.0)
        u = rng.uniform(0.0, 0.05)
        fp, fpp = rng.uniform(-1, 1), rng.uniform(0, 2)
        for hkl in ([0, 0, 0], [int(v) for v in rng.randint(-6, 7, 3)]):
            at = structure.atom_entry(label=key, atomtype=key, pos=list(pos), adp_type='Uiso',
                                      adp=u, occ=occ, symmulti=1)
            g = Ainv.T.dot(np.array(hkl, dtype=float))
            s2 = 0.25*g.dot(g)
            f = sum(co[i]*np.exp(-co[i+4]*s2) for i in range(4)) + co[8]
            want = occ*complex(f+fp, fpp)*np.exp(-8*np.pi**2*u*s2)*np.exp(2j*np.pi*np.dot(hkl, pos))
            got, _ = call(hkl, cell, 'P1', [at], {key: [fp, fpp]})
            ncase += 1
            if not abs(got-want) <= 1e-9*max(1., abs(f)):
                print('VIOLATION table %s hkl=%s: got %r want %r' % (key, hkl, got, want))
                bad += 1

    # ---- fingerprint: shape of the table and the answer for a deuterium atom
    keys = sorted(atomlib.formfactor)
    ent = atomlib.formfactor['C']
    datom = [structure.atom_entry(label='D1', atomtype='D', pos=[0.1, 0.2, 0.3],
                                  adp_type='Uiso', adp=0.03, occ=1.0, symmulti=2)]
    try:
        res = structure.StructureFactor([1, 2, 3], [8., 9., 10., 90., 100., 90.], 'P21', datom)
        dres = ['%.6f' % float(v) for v in res]
    except Exception as e:
        dres = type(e).__name__
    summary = (len(keys), hashlib.sha1(' '.join(keys).encode()).hexdigest()[:8],
               type(atomlib.formfactor).__name__, type(ent).__name__,
               sorted(a for a in ('a', 'b', 'c') if hasattr(ent, a)),
               'D atom: %s' % (dres,))
    print('FINGERPRINT: %s %s' % (hashlib.sha1(repr(summary).encode()).hexdigest()[:12],
                                  summary))
    print('%d checks, %d violations' % (ncase, bad))
    return 1 if bad else 0


if __name__ == '__main__':
    sys.exit(main())
