import sys, hashlib
import numpy as np
import xfab
from xfab import tools, laue

TOL = 1e-9
fails = []

def fail(msg):
    fails.append(msg)
    if len(fails) <= 20:
        print("VIOLATION:", msg)

def Rx(t):
    return np.array([[1, 0, 0], [0, np.cos(t), -np.sin(t)], [0, np.sin(t), np.cos(t)]])
def Ry(t):
    return np.array([[np.cos(t), 0, np.sin(t)], [0, 1, 0], [-np.sin(t), 0, np.cos(t)]])
def Rz(t):
    return np.array([[np.cos(t), -np.sin(t), 0], [np.sin(t), np.cos(t), 0], [0, 0, 1]])

def matrix_for(mod, solver, chi, wedge):
    """the rotation matrix the module itself builds for that solver"""
    if solver == 'find_omega':
        return lambda w: mod.form_omega_mat(w)
    if solver == 'find_omega_general':
        return lambda w: mod.form_omega_mat_general(w, chi, wedge)
    if solver == 'find_omega_quart':
        return lambda w: mod.quart_to_omega(np.degrees(w), chi, wedge)
    if solver == 'find_omega_wedge':
        # GrainSpotter sign of the wedge
        return lambda w: np.dot(Ry(-wedge), Rz(w))
    raise ValueError(solver)

def expected(matfun, g, theta):
    """independent: x-component of M(w).g is k + a cos w + b sin w; fit a, b, k
    from three evaluations of the module's matrix, solve for -sin^2(theta)"""
    x0 = np.dot(matfun(0.0), g)[0]
    x1 = np.dot(matfun(np.pi/2), g)[0]
    x2 = np.dot(matfun(np.pi), g)[0]
    k = 0.5*(x0 + x2)
    a = 0.5*(x0 - x2)
    b = x1 - k
    amp = np.hypot(a, b)
    rhs = -np.sin(theta)**2 - k
    if amp == 0:
        return None, []
    ratio = rhs/amp
    margin = abs(abs(ratio) - 1.0)
    if margin < 1e-6:
        return None, []          # too close to tangency, no count claim
    if abs(ratio) > 1:
        return 0, []
    phi = np.arctan2(b, a)
    dw = np.arccos(ratio)
    sols = [np.arctan2(np.sin(phi + s*dw), np.cos(phi + s*dw)) for s in (1, -1)]
    return 2, sols

def angdiff(x, y):
    return abs(np.arctan2(np.sin(x - y), np.cos(x - y)))

def check_solution_set(tag, matfun, g, tth, omega, eta):
    theta = tth/2
    count, sols = expected(matfun, g, theta)
    omega = list(np.asarray(omega, dtype=float).ravel())
    if eta is not None:
        eta = list(np.asarray(eta, dtype=float).ravel())
        if len(eta) != len(omega):
            fail("%s: %d omega but %d eta" % (tag, len(omega), len(eta)))
            return
    # every returned solution fulfils the diffraction condition
    for i, w in enumerate(omega):
        if not (-np.pi < w <= np.pi):
            fail("%s: omega %r outside (-pi, pi]" % (tag, w))
        gt = np.dot(matfun(w), g)
        near = count is None
        tol = 1e-5 if near else TOL
        if abs(gt[0] + np.sin(theta)**2) > tol:
            fail("%s: x-component %r != %r" % (tag, gt[0], -np.sin(theta)**2))
        if eta is not None:
            ey = -np.sin(tth)*np.sin(eta[i])/2
            ez = np.sin(tth)*np.cos(eta[i])/2
            if abs(gt[1] - ey) > tol or abs(gt[2] - ez) > tol:
                fail("%s: (y,z)=%r,%r but eta gives %r,%r" % (tag, gt[1], gt[2], ey, ez))
    # completeness
    if count is not None:
        if len(omega) != count:
            fail("%s: %d solutions, expected %d" % (tag, len(omega), count))
        elif count == 2:
            d_direct = max(angdiff(omega[0], sols[0]), angdiff(omega[1], sols[1]))
            d_swap = max(angdiff(omega[0], sols[1]), angdiff(omega[1], sols[0]))
            if min(d_direct, d_swap) > 1e-7:
                fail("%s: omegas %r are not the two solutions %r" % (tag, omega, sols))
            if angdiff(omega[0], omega[1]) < 1e-9:
                fail("%s: the same solution twice" % tag)
    return count

def same_sets(tag, o1, e1, o2, e2, tol=1e-7):
    o1 = np.asarray(o1, float).ravel(); o2 = np.asarray(o2, float).ravel()
    if len(o1) != len(o2):
        fail("%s: %d vs %d solutions" % (tag, len(o1), len(o2)))
        return
    if len(o1) == 0:
        return
    best = None
    for perm in ((0, 1), (1, 0)):
        dd = max(angdiff(o1[i], o2[perm[i]]) for i in range(2))
        if e1 is not None and e2 is not None:
            dd = max(dd, max(angdiff(np.asarray(e1, float)[i], np.asarray(e2, float)[perm[i]]) for i in range(2)))
        best = dd if best is None else min(best, dd)
    if best > tol:
        fail("%s: solvers disagree by %g" % (tag, best))

def run_property(seed=20260901, ncase=400):
    rng = np.random.RandomState(seed)
    counts = {0: 0, 2: 0, None: 0}
    for icase in range(ncase):
        v = rng.normal(size=3)
        if icase % 7 == 0:
            v[2] *= 6.0          # towards the rotation axis: unreachable ones
        if icase % 11 == 0:
            v[2] *= 0.01
        u = v/np.linalg.norm(v)
        tth = np.radians(rng.uniform(0.5, 150.0))
        theta = tth/2
        mode = icase % 4
        chi = rng.uniform(-0.5, 0.5) if mode in (1, 3) else 0.0
        wedge = rng.uniform(-0.5, 0.5) if mode in (2, 3) else 0.0
        if mode == 3 and icase % 8 == 3:
            chi, wedge = rng.choice([-0.5, 0.5]), rng.choice([-0.5, 0.5])
        g = np.sin(theta)*u                      # length sin(theta)
        for mod in (tools, laue):
            scale = 1.0 if mod is tools else rng.uniform(0.2, 5.0)   # laue rescales itself
            gin = g*scale
            nm = mod.__name__.split('.')[-1]
            # general
            om, et = mod.find_omega_general(gin, tth, chi, wedge)
            c = check_solution_set("%s.find_omega_general #%d" % (nm, icase),
                               matrix_for(mod, 'find_omega_general', chi, wedge), g, tth, om, et)
            counts[c] += 1
            # quart
            omq, etq = mod.find_omega_quart(gin, tth, chi, wedge)
            check_solution_set("%s.find_omega_quart #%d" % (nm, icase),
                               matrix_for(mod, 'find_omega_quart', chi, wedge), g, tth, omq, etq)
            # wedge (takes any length) and plain find_omega (no tilt)
            omw, etw = mod.find_omega_wedge(g*rng.uniform(0.2, 5.0), tth, wedge)
            cw = check_solution_set("%s.find_omega_wedge #%d" % (nm, icase),
                               matrix_for(mod, 'find_omega_wedge', 0.0, wedge), g, tth, omw, etw)
            om0 = mod.find_omega(g*rng.uniform(0.2, 5.0), tth)
            c0 = check_solution_set("%s.find_omega #%d" % (nm, icase),
                               matrix_for(mod, 'find_omega', 0.0, 0.0), g, tth, om0, None)
            # agreement where the tilts coincide
            if cw is not None:
                omg, etg = mod.find_omega_general(gin, tth, 0.0, -wedge)   # Ry(-wedge).Rz(omega)
                same_sets("%s wedge vs general(0,-wedge) #%d" % (nm, icase), omw, etw, omg, etg)
            if c0 is not None:
                a1 = mod.find_omega_general(gin, tth, 0.0, 0.0)
                a2 = mod.find_omega_quart(gin, tth, 0.0, 0.0)
                a3 = mod.find_omega_wedge(gin, tth, 0.0)
                same_sets("%s general vs quart, no tilt #%d" % (nm, icase), a1[0], a1[1], a2[0], a2[1])
                same_sets("%s general vs wedge, no tilt #%d" % (nm, icase), a1[0], a1[1], a3[0], a3[1])
                same_sets("%s general vs find_omega, no tilt #%d" % (nm, icase), a1[0], None, om0, None)
    # tth == 2 asin(lambda sintl) == tth2(U.B.hkl, lambda)
    for icase in range(100):
        cell = [rng.uniform(3, 9), rng.uniform(3, 9), rng.uniform(3, 9),
                rng.uniform(75, 105), rng.uniform(75, 105), rng.uniform(75, 105)]
        hkl = rng.randint(-4, 5, size=3)
        if not hkl.any():
            hkl[0] = 1
        lam = rng.uniform(0.15, 0.6)
        # independent sin(theta)/lambda: |B hkl| / 2 from the reciprocal metric
        a, b, c = cell[:3]
        al, be, ga = np.radians(cell[3:])
        G = np.array([[a*a, a*b*np.cos(ga), a*c*np.cos(be)],
                      [a*b*np.cos(ga), b*b, b*c*np.cos(al)],
                      [a*c*np.cos(be), b*c*np.cos(al), c*c]])
        stl = 0.5*np.sqrt(np.dot(hkl, np.dot(np.linalg.inv(G), hkl)))
        if lam*stl >= 0.97:
            continue
        ref = 2*np.arcsin(lam*stl)
        U = tools.euler_to_u(rng.uniform(0, 2*np.pi), rng.uniform(0, 2*np.pi), rng.uniform(0, np.pi))
        for mod in (tools, laue):
            nm = mod.__name__.split('.')[-1]
            t1 = mod.tth(cell, hkl, lam)
            t2 = mod.tth2(np.dot(U, np.dot(mod.form_b_mat(cell), hkl)), lam)
            if abs(t1 - ref) > 1e-9 or abs(t2 - ref) > 1e-9:
                fail("%s tth %r tth2 %r expected %r" % (nm, t1, t2, ref))
    return counts

def digest(objs):
    h = hashlib.sha256()
    for o in objs:
        h.update(np.ascontiguousarray(np.asarray(o, dtype=float)).tobytes())
    return h.hexdigest()[:16]

def fingerprint():
    """raw bits of (omega, eta) for a few fixed inputs, and how often the
    solvers ask the matrix builders for a matrix"""
    calls = {'tools.form_omega_mat_general': 0, 'tools.quart_to_omega': 0,
             'laue.form_omega_mat_general': 0, 'laue.quart_to_omega': 0}
    saved = []
    for mod in (tools, laue):
        nm = mod.__name__.split('.')[-1]
        for fn in ('form_omega_mat_general', 'quart_to_omega'):
            orig = getattr(mod, fn)
            saved.append((mod, fn, orig))
            def wrapper(*a, _orig=orig, _key=nm + '.' + fn, **k):
                calls[_key] += 1
                return _orig(*a, **k)
            setattr(mod, fn, wrapper)
    raw = []
    try:
        fixed = [((0.3, -0.5, 0.2), 12.0, 0.1, -0.2), ((-0.7, 0.1, 0.3), 47.0, -0.35, 0.25),
                 ((0.2, 0.9, -0.1), 95.0, 0.5, 0.5), ((0.5, 0.5, 0.05), 140.0, -0.05, 0.4),
                 ((0.1, -0.2, 0.9), 30.0, 0.2, 0.1)]
        for v, tthdeg, chi, wedge in fixed:
            tth = np.radians(tthdeg)
            g = np.sin(tth/2)*np.array(v)/np.linalg.norm(v)
            for mod in (tools, laue):
                for fn in ('find_omega_general', 'find_omega_quart'):
                    om, et = getattr(mod, fn)(g, tth, chi, wedge)
                    raw.extend([om, et])
    finally:
        for mod, fn, orig in saved:
            setattr(mod, fn, orig)
    return "bits=%s matrix_builder_calls=%s" % (digest(raw), sorted(calls.items()))

if __name__ == '__main__':
    print("xfab from", xfab.__file__)
    counts = run_property()
    print("general-solver cases: two solutions %d, none %d, near tangency (no count claim) %d"
          % (counts[2], counts[0], counts[None]))
    print("FINGERPRINT:", fingerprint())
    if fails:
        print("FAILED: %d violations of C09" % len(fails))
        sys.exit(1)
    print("OK: C09 holds on all generated inputs")
    sys.exit(0)
