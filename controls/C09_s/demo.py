"""
Demo / property test for C09 (xfab.tools and xfab.laue):
every (omega, eta) returned by find_omega, find_omega_general, find_omega_quart
and find_omega_wedge fulfils the diffraction condition under the rotation matrix
of that solver, omega lies in (-pi, pi], the answer is complete (2 or 0
solutions), the solvers agree (as solution sets, eta compared through its
sine and cosine) where their tilts coincide, and
tth(cell,hkl,lambda) = 2 asin(lambda sintl) = tth2(U.B.hkl, lambda).

All reference quantities (rotation matrices, the count of solutions, sintl)
are computed here independently of the library's solvers.

Run:  PYTHONPATH=<checkout root> /venv/bin/python -B demo.py
"""
import sys
import hashlib
import numpy as np
from xfab import tools, laue

TOL = 1e-9
failures = []


def fail(msg):
    failures.append(msg)
    if len(failures) <= 20:
        print("VIOLATION:", msg)


# ---------------------------------------------------------------- references
def Rx(t):
    c, s = np.cos(t), np.sin(t)
    return np.array([[1, 0, 0], [0, c, -s], [0, s, c]])


def Ry(t):
    c, s = np.cos(t), np.sin(t)
    return np.array([[c, 0, s], [0, 1, 0], [-s, 0, c]])


def Rz(t):
    c, s = np.cos(t), np.sin(t)
    return np.array([[c, -s, 0], [s, c, 0], [0, 0, 1]])


def rodrigues(axis, t):
    axis = axis / np.linalg.norm(axis)
    K = np.array([[0, -axis[2], axis[1]],
                  [axis[2], 0, -axis[0]],
                  [-axis[1], axis[0], 0]])
    return np.eye(3) + np.sin(t) * K + (1 - np.cos(t)) * K.dot(K)


def rot_plain(w):
    return Rz(w)


def rot_general(chi, wedge):
    return lambda w: Rx(chi).dot(Ry(wedge)).dot(Rz(w))


def rot_quart(chi, wedge):
    axis = Rx(chi).dot(Ry(wedge)).dot(np.array([0., 0., 1.]))
    return lambda w: rodrigues(axis, w)


def rot_wedge(wedge):
    return lambda w: Ry(-wedge).dot(Rz(w))


def expected_count(rot, g, theta):
    """(R(w) g)_x + sin^2(theta) = A cos w + B sin w + C ; sample it at three
    angles to get A, B, C.  2 roots if |C| < hypot(A,B), 0 if >, None if the
    case is within 1e-6 (relative) of tangency."""
    f = lambda w: rot(w).dot(g)[0] + np.sin(theta) ** 2
    f0, f1, f2 = f(0.0), f(np.pi / 2), f(np.pi)
    A = (f0 - f2) / 2
    C = (f0 + f2) / 2
    B = f1 - C
    h = np.hypot(A, B)
    if h == 0:
        return None
    r = abs(C) / h
    if abs(r - 1) < 1e-6:
        return None
    return 2 if r < 1 else 0


def check_solutions(tag, rot, g, twoth, omega, eta):
    """diffraction condition for each returned pair; eta may be None"""
    theta = twoth / 2
    omega = np.asarray(omega, dtype=float)
    if eta is not None:
        eta = np.asarray(eta, dtype=float)
        if len(eta) != len(omega):
            fail("%s: %d omega but %d eta" % (tag, len(omega), len(eta)))
            return
    for i in range(len(omega)):
        w = omega[i]
        if not (-np.pi < w <= np.pi):
            # arctan2 can give exactly -pi for -0.0; never seen in practice
            fail("%s: omega %r outside (-pi,pi]" % (tag, w))
        gt = rot(w).dot(g)
        if abs(gt[0] + np.sin(theta) ** 2) > TOL:
            fail("%s: x component %r != %r" % (tag, gt[0], -np.sin(theta) ** 2))
        if eta is not None:
            y = -np.sin(twoth) * np.sin(eta[i]) / 2
            z = np.sin(twoth) * np.cos(eta[i]) / 2
            if abs(gt[1] - y) > TOL or abs(gt[2] - z) > TOL:
                fail("%s: (y,z)=(%r,%r) expected (%r,%r) eta=%r" %
                     (tag, gt[1], gt[2], y, z, eta[i]))
        else:
            if abs(np.hypot(gt[1], gt[2]) - np.sin(twoth) / 2) > TOL:
                fail("%s: |(y,z)| wrong" % tag)


def check_count(tag, rot, g, twoth, omega):
    exp = expected_count(rot, g, twoth / 2)
    if exp is None:
        return
    if len(omega) != exp:
        fail("%s: %d solutions, expected %d" % (tag, len(omega), exp))
    if exp == 2 and len(omega) == 2:
        d = (omega[0] - omega[1] + np.pi) % (2 * np.pi) - np.pi
        if abs(d) < 1e-12:
            fail("%s: the two solutions are the same" % tag)


def as_points(omega, eta=None):
    """order-free, branch-free representation of a solution set"""
    omega = np.asarray(omega, dtype=float)
    cols = [np.cos(omega), np.sin(omega)]
    if eta is not None:
        eta = np.asarray(eta, dtype=float)
        cols += [np.cos(eta), np.sin(eta)]
    return np.array(cols).T.reshape(len(omega), len(cols))


def same_set(p, q, tol=1e-7):
    if len(p) != len(q):
        return False
    used = set()
    for row in p:
        hit = None
        for j, other in enumerate(q):
            if j not in used and np.max(np.abs(row - other)) < tol:
                hit = j
                break
        if hit is None:
            return False
        used.add(hit)
    return True


def away_from_tangency(rot, g, twoth):
    return expected_count(rot, g, twoth / 2) is not None


# ------------------------------------------------------------------ the runs
rng = np.random.RandomState(20261001)
ncase = 0
nsol = 0
for case in range(400):
    v = rng.normal(size=3)
    v /= np.linalg.norm(v)
    if case % 5 == 0:
        # force many unreachable reflections: g close to the rotation axis
        v = np.array([0.05 * rng.normal(), 0.05 * rng.normal(), rng.choice([-1., 1.])])
        v /= np.linalg.norm(v)
    twoth = np.radians(rng.uniform(0.5, 150))
    chi = rng.uniform(-0.5, 0.5)
    wedge = rng.uniform(-0.5, 0.5)
    if case % 7 == 0:
        chi = 0.0
    if case % 11 == 0:
        wedge = 0.0
    g = np.sin(twoth / 2) * v
    for modname, mod in (("tools", tools), ("laue", laue)):
        # laue rescales g itself: hand it an arbitrary positive multiple
        gin = g if mod is tools else g * rng.uniform(0.2, 7)
        ncase += 1

        o = mod.find_omega(gin, twoth)
        check_solutions(modname + ".find_omega", rot_plain, g, twoth, o, None)
        check_count(modname + ".find_omega", rot_plain, g, twoth, o)
        nsol += len(o)

        o, e = mod.find_omega_general(gin, twoth, chi, wedge)
        check_solutions(modname + ".find_omega_general", rot_general(chi, wedge), g, twoth, o, e)
        check_count(modname + ".find_omega_general", rot_general(chi, wedge), g, twoth, o)
        nsol += len(o)
        # the module's own matrix
        for w, et in zip(o, e):
            gt = mod.form_omega_mat_general(w, chi, wedge).dot(g)
            if abs(gt[0] + np.sin(twoth / 2) ** 2) > TOL or \
               abs(gt[1] + np.sin(twoth) * np.sin(et) / 2) > TOL or \
               abs(gt[2] - np.sin(twoth) * np.cos(et) / 2) > TOL:
                fail(modname + ".find_omega_general: fails under form_omega_mat_general")

        o, e = mod.find_omega_quart(gin, twoth, chi, wedge)
        check_solutions(modname + ".find_omega_quart", rot_quart(chi, wedge), g, twoth, o, e)
        check_count(modname + ".find_omega_quart", rot_quart(chi, wedge), g, twoth, o)
        nsol += len(o)
        for w, et in zip(o, e):
            gt = mod.quart_to_omega(np.degrees(w), chi, wedge).dot(g)
            if abs(gt[0] + np.sin(twoth / 2) ** 2) > TOL or \
               abs(gt[1] + np.sin(twoth) * np.sin(et) / 2) > TOL or \
               abs(gt[2] - np.sin(twoth) * np.cos(et) / 2) > TOL:
                fail(modname + ".find_omega_quart: fails under quart_to_omega")

        o, e = mod.find_omega_wedge(gin, twoth, wedge)
        check_solutions(modname + ".find_omega_wedge", rot_wedge(wedge), g, twoth, o, e)
        check_count(modname + ".find_omega_wedge", rot_wedge(wedge), g, twoth, o)
        nsol += len(o)

        # agreement where the tilts coincide (solution SETS; eta via sin/cos)
        if away_from_tangency(rot_plain, g, twoth):
            o0 = mod.find_omega(gin, twoth)
            og, eg = mod.find_omega_general(gin, twoth, 0., 0.)
            oq, eq = mod.find_omega_quart(gin, twoth, 0., 0.)
            ow, ew = mod.find_omega_wedge(gin, twoth, 0.)
            if not same_set(as_points(o0), as_points(og)):
                fail(modname + ": find_omega != find_omega_general at zero tilt")
            if not same_set(as_points(og, eg), as_points(oq, eq)):
                fail(modname + ": general != quart at zero tilt")
            if not same_set(as_points(og, eg), as_points(ow, ew)):
                fail(modname + ": general != wedge at zero tilt")
        if away_from_tangency(rot_wedge(wedge), g, twoth):
            og, eg = mod.find_omega_general(gin, twoth, 0., -wedge)
            ow, ew = mod.find_omega_wedge(gin, twoth, wedge)
            if not same_set(as_points(og, eg), as_points(ow, ew)):
                fail(modname + ": general(0,-wedge) != wedge(wedge)")

# ------------------------------------------------------------ tth and tth2
def recip_metric(cell):
    a, b, c = cell[:3]
    al, be, ga = np.radians(cell[3:])
    G = np.array([[a * a, a * b * np.cos(ga), a * c * np.cos(be)],
                  [a * b * np.cos(ga), b * b, b * c * np.cos(al)],
                  [a * c * np.cos(be), b * c * np.cos(al), c * c]])
    return np.linalg.inv(G)


for case in range(300):
    cell = np.array([rng.uniform(3, 9), rng.uniform(3, 9), rng.uniform(3, 9),
                     rng.uniform(70, 110), rng.uniform(70, 110), rng.uniform(70, 110)])
    hkl = rng.randint(-5, 6, size=3)
    if not hkl.any():
        hkl[0] = 1
    lam = rng.uniform(0.15, 1.0)
    stl = np.sqrt(hkl.dot(recip_metric(cell)).dot(hkl)) / 2
    if lam * stl > np.sin(np.radians(75)) or lam * stl < np.sin(np.radians(0.25)):
        continue
    q, r = np.linalg.qr(rng.normal(size=(3, 3)))
    U = q * np.sign(np.linalg.det(q))
    ref = 2 * np.arcsin(lam * stl)
    for modname, mod in (("tools", tools), ("laue", laue)):
        t1 = mod.tth(cell, hkl, lam)
        t2 = mod.tth2(U.dot(mod.form_b_mat(cell)).dot(hkl), lam)
        if abs(t1 - ref) > 1e-9 or abs(t2 - ref) > 1e-9:
            fail("%s: tth=%r tth2=%r expected %r" % (modname, t1, t2, ref))

# -------------------------------------------------------------- fingerprint
fixed = [
    (np.array([0.3, -0.5, 0.2]), 0.35, 0.2, -0.3),
    (np.array([-0.6, 0.1, 0.4]), 0.9, -0.1, 0.25),
    (np.array([0.2, 0.7, -0.1]), 1.6, 0.4, 0.1),
    (np.array([-0.3, -0.4, -0.5]), 0.12, -0.45, -0.2),
    (np.array([0.02, 0.03, 1.0]), 0.5, 0.1, 0.1),
]
raw = []
for v, twoth, chi, wedge in fixed:
    g = np.sin(twoth / 2) * v / np.linalg.norm(v)
    for mod in (tools, laue):
        o = mod.find_omega(g, twoth)
        raw.append([["%.9f" % x for x in o], []])
        for res in (mod.find_omega_general(g, twoth, chi, wedge),
                    mod.find_omega_quart(g, twoth, chi, wedge),
                    mod.find_omega_wedge(g, twoth, wedge)):
            raw.append([["%.9f" % x for x in res[0]], ["%.9f" % x for x in res[1]]])
pattern = ""
for item in raw:
    om = item[0]
    if len(om) == 2:
        pattern += "<" if float(om[0]) < float(om[1]) else ">"
    else:
        pattern += "."
neg_eta = sum(1 for item in raw for x in item[1] if float(x) < 0)
print("FINGERPRINT: %s omega-order=%s negative-eta=%d" %
      (hashlib.sha1(repr(raw).encode()).hexdigest()[:16], pattern, neg_eta))

print("checked %d solver cases, %d returned solutions, %d violations" %
      (ncase, nsol, len(failures)))
sys.exit(1 if failures else 0)
