"""
C10 demo: detector pixel of a reflection lies on its scattered ray on the
tilted detector.  Independent check (own rotation matrices, own linear solve)
over generated inputs inside the quantifier; exit 0 if the property holds.
Prints a FINGERPRINT of raw outputs for a few fixed inputs.
"""
from __future__ import print_function
import sys, math, random, hashlib
import numpy as np
from xfab import detector, tools


def own_tilt(ax, ay, az):
    # Rodrigues formula per axis, composed Rx.Ry.Rz (independent of xfab)
    def rod(axis, ang):
        k = np.zeros(3); k[axis] = 1.0
        K = np.array([[0, -k[2], k[1]], [k[2], 0, -k[0]], [-k[1], k[0], 0]])
        return np.eye(3) + math.sin(ang)*K + (1-math.cos(ang))*K.dot(K)
    return rod(0, ax).dot(rod(1, ay)).dot(rod(2, az))


def one_case(rng):
    tth = math.radians(rng.uniform(0.5, 60.0))
    eta = rng.uniform(-2*math.pi, 2*math.pi)
    tilts = [rng.uniform(-0.3, 0.3) for _ in range(3)]
    if rng.random() < 0.15:
        tilts[rng.randrange(3)] = 0.0
    L = rng.uniform(10.0, 1000.0)
    py = rng.uniform(0.01, 0.5)
    pz = rng.uniform(0.01, 0.5)
    y0 = rng.uniform(-3000, 3000)
    z0 = rng.uniform(-3000, 3000)
    g = [rng.uniform(-2, 2) for _ in range(3)]
    if rng.random() < 0.15:
        g = [0.0, 0.0, 0.0]
    wl = rng.uniform(0.1, 2.0)
    return tth, eta, tilts, L, py, pz, y0, z0, g, wl


def check(case):
    tth, eta, tilts, L, py, pz, y0, z0, g, wl = case
    v = np.array([math.cos(tth), -math.sin(tth)*math.sin(eta),
                  math.sin(tth)*math.cos(eta)])
    # g-vector describing the same ray: lambda/2pi*G = v - (1,0,0)
    Gt = 2*math.pi/wl*(v - np.array([1.0, 0, 0]))
    R = tools.detect_tilt(*tilts)
    R_own = own_tilt(*tilts)
    p1 = detector.det_coor(Gt, math.cos(tth), wl, L, py, pz, y0, z0, R,
                           g[0], g[1], g[2])
    p2 = detector.det_coor2(tth, eta, L, py, pz, y0, z0, R, g[0], g[1], g[2])
    p1 = [float(p1[0]), float(p1[1])]
    p2 = [float(p2[0]), float(p2[1])]
    # independent pixel: solve g + t v = (L,0,0) + a*R[:,1] + b*R[:,2]
    A = np.column_stack([-v, R_own[:, 1], R_own[:, 2]])
    t, a, b = np.linalg.solve(A, np.array(g) - np.array([L, 0.0, 0.0]))
    ref = [a/py + y0, b/pz + z0]
    scale = max(abs(a/py), abs(b/pz), 1.0)
    errs = []
    for k in range(2):
        if abs(p1[k]-p2[k]) > 1e-8*scale:
            errs.append('det_coor != det_coor2: %r %r' % (p1, p2))
        if abs(p1[k]-ref[k]) > 1e-8*scale:
            errs.append('det_coor != independent pixel: %r %r' % (p1, ref))
    if t <= 0:
        errs.append('independent solve gave t<=0 (bad generator)')
    # back to the laboratory
    for p in (p1, p2):
        lab = detector.detector_to_lab(p[0], p[1], L, py, pz, y0, z0, R)
        lab = np.array([float(lab[0]), float(lab[1]), float(lab[2])])
        d = lab - np.array(g)
        along = d.dot(v)
        off = np.linalg.norm(d - along*v)
        if along <= 0 or off > 1e-8*max(abs(along), 1.0):
            errs.append('lab point not on ray: off=%g along=%g' % (off, along))
        # and on the detector plane of the independently built tilt
        if abs(R_own[:, 0].dot(lab - np.array([L, 0, 0]))) > 1e-8*max(abs(along), 1.0):
            errs.append('lab point not on detector plane')
    return errs, p1, p2


def fingerprint():
    h = hashlib.sha256()
    fixed = [
        (0.30, 0.70, [0.10, -0.20, 0.25], 135.0, 0.0936, 0.0962, 521.5, 531.5, [0.3, -1.1, 0.7], 0.5092836),
        (0.90, -2.10, [-0.30, 0.30, -0.15], 987.0, 0.013, 0.47, -40.25, 2048.0, [-1.9, 1.3, 0.2], 0.31),
        (0.02, 4.00, [0.05, 0.0, 0.29], 12.5, 0.2, 0.2, 0.0, 0.0, [0.0, 0.0, 0.0], 1.54),
        (0.61, 1.00, [0.21, 0.17, -0.09], 333.3, 0.05, 0.075, 1000.5, 999.5, [1.7, 1.9, -1.3], 0.7),
    ]
    parts = []
    for (tth, eta, tilts, L, py, pz, y0, z0, g, wl) in fixed:
        v = np.array([math.cos(tth), -math.sin(tth)*math.sin(eta),
                      math.sin(tth)*math.cos(eta)])
        Gt = 2*math.pi/wl*(v - np.array([1.0, 0, 0]))
        R = tools.detect_tilt(*tilts)
        p1 = detector.det_coor(Gt, math.cos(tth), wl, L, py, pz, y0, z0, R, *g)
        p2 = detector.det_coor2(tth, eta, L, py, pz, y0, z0, R, *g)
        lab = detector.detector_to_lab(1234.5, -321.25, L, py, pz, y0, z0, R)
        for x in list(p1) + list(p2) + list(lab):
            parts.append(float(x).hex())
        # array input to detector_to_lab: accepted or not
        try:
            r = detector.detector_to_lab(np.array([1.0, 2.0]), np.array([3.0, 4.0]),
                                         L, py, pz, y0, z0, R)
            parts.append('arr:' + ','.join(str(np.shape(c)) for c in r))
        except Exception as e:
            parts.append('arr:' + type(e).__name__)
        # R_tilt given as nested list to det_coor2: accepted or not
        try:
            r = detector.det_coor2(tth, eta, L, py, pz, y0, z0, R.tolist(), *g)
            parts.append('listR:ok')
        except Exception as e:
            parts.append('listR:' + type(e).__name__)
    h.update('|'.join(parts).encode())
    return h.hexdigest()[:16] + ' ' + parts[0] + ' ' + parts[4] + ' ' + parts[7] + ' ' + parts[8]


def main():
    rng = random.Random(20261001)
    nbad = 0
    N = 600
    for i in range(N):
        case = one_case(rng)
        errs, p1, p2 = check(case)
        if errs:
            nbad += 1
            if nbad <= 5:
                print('VIOLATION case %d %r' % (i, case))
                for e in errs:
                    print('   ', e)
    print('FINGERPRINT: ' + fingerprint())
    if nbad:
        print('FAIL: %d of %d cases violate the property' % (nbad, N))
        return 1
    print('OK: property holds on %d cases' % N)
    return 0


if __name__ == '__main__':
    sys.exit(main())
