"""
C10 demo: the detector pixel of a reflection lies on its scattered ray.

Run as  PYTHONPATH=<checkout root> /venv/bin/python -B demo.py

For a few hundred generated set-ups inside the quantifier of the property
  * det_coor (from the g-vector) and det_coor2 (from 2theta, eta) must give the
    same pixel when they describe the same scattered ray,
  * detector_to_lab of that pixel must be a laboratory point on the ray that
    starts at the grain position and runs along
    (cos 2theta, -sin 2theta sin eta, sin 2theta cos eta).
Only indexing/unpacking of the results is used: the container type, the scalar
type and the last bits are left open by the property.
Exit status 0 if the property holds, 1 otherwise.
"""
from __future__ import print_function
import sys
import hashlib
import random
import math
import warnings

import numpy as np

from xfab import detector, tools

warnings.simplefilter('ignore')

TOL = 1e-9


def make_case(rng):
    tth = math.radians(rng.uniform(0.5, 60.0))
    eta = rng.uniform(-2 * math.pi, 2 * math.pi)
    if rng.random() < 0.15:                      # the special azimuths too
        eta = rng.choice([0.0, math.pi / 2, math.pi, -math.pi / 2,
                          3 * math.pi / 2, 2 * math.pi])
    tilts = [rng.uniform(-0.3, 0.3) for _ in range(3)]
    if rng.random() < 0.15:                      # corners of the tilt box
        tilts = [rng.choice([-0.3, 0.0, 0.3]) for _ in range(3)]
    distance = math.exp(rng.uniform(math.log(10.0), math.log(1000.0)))
    y_size = math.exp(rng.uniform(math.log(0.01), math.log(0.5)))
    z_size = math.exp(rng.uniform(math.log(0.01), math.log(0.5)))
    yc = rng.uniform(-5000.0, 5000.0)
    zc = rng.uniform(-5000.0, 5000.0)
    pos = [rng.uniform(-2.0, 2.0) for _ in range(3)]
    if rng.random() < 0.15:
        pos = [rng.choice([-2.0, 0.0, 2.0]) for _ in range(3)]
    wavelength = rng.uniform(0.1, 1.5)
    return dict(tth=tth, eta=eta, tilts=tilts, distance=distance,
                y_size=y_size, z_size=z_size, yc=yc, zc=zc, pos=pos,
                wavelength=wavelength)


def ray_direction(tth, eta):
    # plain-math, independent of the library
    return [math.cos(tth),
            -math.sin(tth) * math.sin(eta),
            math.sin(tth) * math.cos(eta)]


def gvector(v, wavelength):
    # G = k_out - k_in with |k| = 2 pi / lambda and the beam along +x
    k = 2 * math.pi / wavelength
    return np.array([k * (v[0] - 1.0), k * v[1], k * v[2]])


def run_case(c):
    """returns (pixel from g-vector, pixel from angles, lab point)"""
    v = ray_direction(c['tth'], c['eta'])
    R_tilt = tools.detect_tilt(*c['tilts'])
    tx, ty, tz = c['pos']
    out1 = detector.det_coor(gvector(v, c['wavelength']), math.cos(c['tth']),
                             c['wavelength'], c['distance'],
                             c['y_size'], c['z_size'], c['yc'], c['zc'],
                             R_tilt, tx, ty, tz)
    out2 = detector.det_coor2(c['tth'], c['eta'], c['distance'],
                              c['y_size'], c['z_size'], c['yc'], c['zc'],
                              R_tilt, tx, ty, tz)
    lab = detector.detector_to_lab(out2[0], out2[1], c['distance'],
                                   c['y_size'], c['z_size'], c['yc'], c['zc'],
                                   R_tilt)
    return out1, out2, lab


def check_case(c):
    out1, out2, lab = run_case(c)
    problems = []
    if len(out1) != 2 or len(out2) != 2 or len(lab) != 3:
        return ['wrong number of components']
    p1 = [float(out1[0]), float(out1[1])]
    p2 = [float(out2[0]), float(out2[1])]
    P = [float(lab[0]), float(lab[1]), float(lab[2])]
    if not all(math.isfinite(x) for x in p1 + p2 + P):
        return ['non-finite result %r %r %r' % (p1, p2, P)]
    # (1) same pixel from the g-vector and from the angles
    for a, b, centre in ((p1[0], p2[0], c['yc']), (p1[1], p2[1], c['zc'])):
        scale = 1.0 + abs(centre) + abs(b - centre)
        if abs(a - b) > TOL * scale:
            problems.append('det_coor %r != det_coor2 %r' % (p1, p2))
            break
    # (2) the lab point of the pixel is on the ray pos + s v, s > 0
    v = ray_direction(c['tth'], c['eta'])
    d = [P[i] - c['pos'][i] for i in range(3)]
    s = sum(d[i] * v[i] for i in range(3))
    perp = [d[i] - s * v[i] for i in range(3)]
    off = math.sqrt(sum(x * x for x in perp))
    length = math.sqrt(sum(x * x for x in d))
    if not s > 0:
        problems.append('lab point behind the grain, s=%r' % s)
    if off > TOL * (1.0 + length) * 100:
        problems.append('lab point %r is %g mm off the ray (path %g mm)'
                        % (P, off, length))
    return problems


def fingerprint():
    """summary of the raw outputs for a few fixed inputs (not a check)"""
    items = []
    rng = random.Random(4711)
    raw = []
    for _ in range(5):
        c = make_case(rng)
        out1, out2, lab = run_case(c)
        raw.append(','.join(float(x).hex() for x in
                            list(out1) + list(out2) + list(lab)))
    items.append('types=%s/%s/%s' % (type(out1).__name__, type(out2).__name__,
                                     type(lab).__name__))
    items.append('scalar=%s' % type(out1[0]).__name__)
    items.append('eq_list=%s' % (out2 == [out2[0], out2[1]]))
    items.append('bits=' + hashlib.sha1(';'.join(raw).encode()).hexdigest()[:12])
    # outside the quantifier: a back-scattered ray (2theta = 150 deg) never
    # reaches a detector at +x
    R0 = tools.detect_tilt(0.0, 0.0, 0.0)
    try:
        back = detector.det_coor2(math.radians(150.0), 0.3, 100.0, 0.1, 0.1,
                                  500.0, 500.0, R0, 0.0, 0.0, 0.0)
        items.append('backscatter=%s' % ','.join('%.6g' % float(x) for x in back))
    except Exception as e:                       # pragma: no cover
        items.append('backscatter=%s' % type(e).__name__)
    # which public helpers of xfab.detector take part in det_coor
    calls = []
    saved = {}
    names = [k for k in sorted(vars(detector))
             if callable(getattr(detector, k)) and not k.startswith('_')
             and getattr(getattr(detector, k), '__module__', None) == detector.__name__
             and k not in ('det_coor',)]

    def wrap(name, f):
        def inner(*a, **k):
            calls.append(name)
            return f(*a, **k)
        return inner
    for k in names:
        saved[k] = getattr(detector, k)
        if isinstance(saved[k], type):
            continue
        setattr(detector, k, wrap(k, saved[k]))
    try:
        c = make_case(random.Random(1))
        v = ray_direction(c['tth'], c['eta'])
        detector.det_coor(gvector(v, c['wavelength']), math.cos(c['tth']),
                          c['wavelength'], c['distance'], c['y_size'],
                          c['z_size'], c['yc'], c['zc'],
                          tools.detect_tilt(*c['tilts']), *c['pos'])
    finally:
        for k in saved:
            setattr(detector, k, saved[k])
    items.append('det_coor_calls=[%s]' % ','.join(calls))
    return ' '.join(items)


def main():
    rng = random.Random(20261001)
    nbad = 0
    ncases = 600
    for i in range(ncases):
        c = make_case(rng)
        problems = check_case(c)
        if problems:
            nbad += 1
            if nbad <= 5:
                print('VIOLATION case %d %r: %s' % (i, c, '; '.join(problems)))
    print('FINGERPRINT: ' + fingerprint())
    if nbad:
        print('FAIL: %d of %d cases violate the property' % (nbad, ncases))
        return 1
    print('OK: %d cases, property holds' % ncases)
    return 0


if __name__ == '__main__':
    sys.exit(main())
