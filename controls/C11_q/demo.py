"""
Negative-control demo for property C11 (xfab.detector orientation flips and
pixel maps).  Checks the PROPERTY with an independent oracle and prints a
FINGERPRINT of implementation details the property leaves open.
Run: PYTHONPATH=<checkout root> /venv/bin/python -B demo.py
"""
import hashlib
import itertools
import sys
import numpy as np
from xfab import detector

VALID = [(1, 0, 0, 1), (-1, 0, 0, 1), (1, 0, 0, -1), (-1, 0, 0, -1),
         (0, 1, 1, 0), (0, -1, 1, 0), (0, 1, -1, 0), (0, -1, -1, 0)]
ALL81 = list(itertools.product((-1, 0, 1), repeat=4))
INVALID = [o for o in ALL81 if o not in VALID]
assert len(INVALID) == 73
fails = []
ncases = [0]


def check(cond, msg):
    ncases[0] += 1
    if not cond:
        fails.append(msg)


def oracle_detyz(x, y, o, nx, ny):
    """independent pixel map: raw (x,y) of an image with nx pixels along x and
    ny along y -> (dety, detz), worked out by hand from the geometry note"""
    o11, o12, o21, o22 = o
    if o11 != 0:                       # diagonal: detz follows x, dety follows y
        detz = x if o11 == 1 else nx - 1 - x
        dety = y if o22 == 1 else ny - 1 - y
    else:                              # off-diagonal: detz follows y, dety follows x
        detz = y if o12 == 1 else ny - 1 - y
        dety = x if o21 == 1 else nx - 1 - x
    return dety, detz


rng = np.random.RandomState(11)
shapes = [(a, b) for a in range(1, 9) for b in range(1, 9)]
shapes += [(int(rng.randint(9, 300)), int(rng.randint(9, 300))) for _ in range(6)]

# ---- 1. image transforms: exact bijections, pixel map agrees ---------------
for (nx, ny) in shapes:
    img = np.arange(nx * ny).reshape(nx, ny) * 3 + 7     # img[x, y], all distinct
    for o in VALID:
        for fn in (detector.trans_orientation, detector.image_flipping):
            f = np.asarray(fn(img, *o))
            back = np.asarray(fn(f, o[0], o[1], o[2], o[3], 'inverse'))
            check(back.shape == img.shape and (back == img).all(),
                  '%s %s %s: inverse(forward) != id' % (fn.__name__, o, (nx, ny)))
            check(sorted(f.ravel().tolist()) == sorted(img.ravel().tolist()),
                  '%s %s %s: not a permutation of the pixels' % (fn.__name__, o, (nx, ny)))
            g = np.asarray(fn(f, o[0], o[1], o[2], o[3], flipdir='inverse'))
            h = np.asarray(fn(g, *o))
            check(h.shape == f.shape and (h == f).all(),
                  '%s %s %s: forward(inverse) != id' % (fn.__name__, o, (nx, ny)))
        t = np.asarray(detector.trans_orientation(img, *o))
        small = nx <= 8 and ny <= 8
        pix = [(x, y) for x in range(nx) for y in range(ny)] if small else \
              [(int(rng.randint(nx)), int(rng.randint(ny))) for _ in range(40)] + \
              [(0, 0), (nx - 1, 0), (0, ny - 1), (nx - 1, ny - 1)]
        for (x, y) in pix:
            # sizes: detz_size = extent along x, dety_size = extent along y
            yz = detector.xy_to_detyz([x, y], o[0], o[1], o[2], o[3], ny, nx)
            dety, detz = int(round(float(yz[0]))), int(round(float(yz[1])))
            check(float(yz[0]) == dety and float(yz[1]) == detz,
                  'xy_to_detyz non-integer on integer pixel %s %s' % (o, (x, y)))
            check((dety, detz) == oracle_detyz(x, y, o, nx, ny),
                  'xy_to_detyz %s %s %s != oracle' % (o, (nx, ny), (x, y)))
            ok = 0 <= dety < t.shape[0] and 0 <= detz < t.shape[1] and \
                t[dety, detz] == img[x, y]
            check(ok, 'trans_orientation does not store pixel %s at xy_to_detyz %s %s'
                  % ((x, y), o, (nx, ny)))
            xy = detector.detyz_to_xy([dety, detz], o[0], o[1], o[2], o[3], ny, nx)
            check(float(xy[0]) == x and float(xy[1]) == y,
                  'detyz_to_xy(xy_to_detyz) != id at %s %s %s' % (o, (nx, ny), (x, y)))

# ---- 2. real-valued coordinates: mutual inverses ---------------------------
for k in range(300):
    nx, ny = int(rng.randint(1, 2049)), int(rng.randint(1, 2049))
    o = VALID[k % 8]
    x, y = rng.uniform(0, nx - 1), rng.uniform(0, ny - 1)
    yz = detector.xy_to_detyz(np.array([x, y]), o[0], o[1], o[2], o[3], ny, nx)
    od = oracle_detyz(x, y, o, nx, ny)
    check(abs(yz[0] - od[0]) < 1e-9 and abs(yz[1] - od[1]) < 1e-9,
          'xy_to_detyz real coords != oracle %s' % (o,))
    xy = detector.detyz_to_xy(yz, o[0], o[1], o[2], o[3], ny, nx)
    check(abs(xy[0] - x) < 1e-9 and abs(xy[1] - y) < 1e-9, 'detyz_to_xy o xy_to_detyz %s' % (o,))
    dy, dz = rng.uniform(0, ny - 1), rng.uniform(0, nx - 1)
    if o[0] == 0:       # off-diagonal: dety runs along x
        dy, dz = rng.uniform(0, nx - 1), rng.uniform(0, ny - 1)
    xy = detector.detyz_to_xy(np.array([dy, dz]), o[0], o[1], o[2], o[3], ny, nx)
    yz = detector.xy_to_detyz(xy, o[0], o[1], o[2], o[3], ny, nx)
    check(abs(yz[0] - dy) < 1e-9 and abs(yz[1] - dz) < 1e-9, 'xy_to_detyz o detyz_to_xy %s' % (o,))

# ---- 3. the other 73 matrices are rejected with ValueError -----------------
img = np.arange(12).reshape(3, 4)
for o in INVALID:
    for name, call in (
            ('trans_orientation', lambda: detector.trans_orientation(img, *o)),
            ('trans_orientation inv', lambda: detector.trans_orientation(img, o[0], o[1], o[2], o[3], 'inverse')),
            ('image_flipping', lambda: detector.image_flipping(img, *o)),
            ('image_flipping inv', lambda: detector.image_flipping(img, o[0], o[1], o[2], o[3], 'inverse')),
            ('xy_to_detyz', lambda: detector.xy_to_detyz([1, 2], o[0], o[1], o[2], o[3], 4, 3)),
            ('detyz_to_xy', lambda: detector.detyz_to_xy([1, 2], o[0], o[1], o[2], o[3], 4, 3))):
        try:
            call()
            check(False, '%s accepted %s' % (name, o))
        except ValueError:
            check(True, '')
        except Exception as e:
            check(False, '%s %s raised %r, not ValueError' % (name, o, e))

# ---- 4. (dety,detz) <-> (eta,radius) for radius >= 1 ----------------------
for k in range(300):
    cy, cz = rng.uniform(-500, 2500), rng.uniform(-500, 2500)
    eta = [0.0, 360.0, 90.0, 180.0, 270.0][k] if k < 5 else rng.uniform(0, 360)
    rad = 1.0 if k % 7 == 0 else rng.uniform(1, 3000)
    c = detector.eta_and_radpix_to_detyz(eta, rad, cy, cz)
    eta2, rad2 = detector.detyz_to_eta_and_radpix(c, cy, cz)
    d = abs(eta2 - eta) % 360.0
    check(min(d, 360.0 - d) < 1e-4 and abs(rad2 - rad) < 1e-7 * max(1, rad),
          'eta/rad round trip %r %r -> %r %r' % (eta, rad, eta2, rad2))
    c2 = detector.eta_and_radpix_to_detyz(eta2, rad2, cy, cz)
    check(np.allclose(c2, c, rtol=0, atol=1e-6), 'detyz -> eta,rad -> detyz')

# ---- FINGERPRINT: things the property leaves open --------------------------
calls = {'transpose': 0, 'fliplr': 0, 'flipud': 0, 'inv': 0, 'dot': 0, 'clip': 0}
orig = {'transpose': np.transpose, 'fliplr': np.fliplr, 'flipud': np.flipud,
        'dot': np.dot, 'clip': np.clip}
orig_inv = np.linalg.inv


def counting(name, f):
    def w(*a, **k):
        calls[name] += 1
        return f(*a, **k)
    return w


for k_, f_ in orig.items():
    setattr(np, k_, counting(k_, f_))
np.linalg.inv = counting('inv', orig_inv)
raw = []
try:
    im = np.arange(6).reshape(2, 3)
    for o in VALID:
        for d in ('forward', 'inverse'):
            r1 = detector.trans_orientation(im, o[0], o[1], o[2], o[3], d)
            r2 = detector.image_flipping(im, o[0], o[1], o[2], o[3], d)
            raw.append((r1 is im, r2 is im, np.asarray(r1).tolist(), np.asarray(r2).tolist()))
        a = detector.xy_to_detyz([1, 2], o[0], o[1], o[2], o[3], 7, 5)
        b = detector.detyz_to_xy([2, 1], o[0], o[1], o[2], o[3], 7, 5)
        c = detector.detyz_to_xy(np.array([0.0, 0.0]), o[0], o[1], o[2], o[3], 1, 1)
        raw.append((type(a).__name__, str(np.asarray(a).dtype), repr(np.asarray(a).tolist()),
                    type(b).__name__, str(np.asarray(b).dtype), repr(np.asarray(b).tolist()),
                    repr(np.asarray(c).tolist())))
    lst = [[1, 2, 3], [4, 5, 6]]
    raw.append(type(detector.trans_orientation(lst, 0, 1, 1, 0)).__name__)
    for o in [(1, 1, 0, 0), (1, 0, 1, 1), (0, 1, 0, 1), (0, 0, 0, 0)]:
        for fn in (detector.trans_orientation, detector.image_flipping):
            try:
                fn(im, *o)
            except ValueError as e:
                raw.append(str(e))
        for fn in (detector.xy_to_detyz, detector.detyz_to_xy):
            try:
                fn([0, 0], o[0], o[1], o[2], o[3], 3, 2)
            except ValueError as e:
                raw.append(str(e))
finally:
    for k_, f_ in orig.items():
        setattr(np, k_, f_)
    np.linalg.inv = orig_inv
digest = hashlib.sha1(repr((raw, sorted(calls.items()))).encode()).hexdigest()[:16]
def msg_of(fn, *a):
    try:
        fn(*a)
    except ValueError as e:
        return str(e)


print('FINGERPRINT: %s numpy-helper-calls=%s identity-returns-same-object=%s '
      'detyz_to_xy-dtype-for-int-input=%s flip-msg=%r coord-msg=%r'
      % (digest, sorted(calls.items()),
         detector.trans_orientation(im, 0, 1, 1, 0) is im,
         str(np.asarray(detector.detyz_to_xy([2, 1], 1, 0, 0, 1, 7, 5)).dtype),
         msg_of(detector.trans_orientation, im, 1, 1, 0, 0),
         msg_of(detector.detyz_to_xy, [0, 0], 1, 1, 0, 0, 3, 2)))

print('%d checks, %d failures' % (ncases[0], len(fails)))
for m in fails[:20]:
    print('  FAIL:', m)
sys.exit(1 if fails else 0)
