"""
Demo for control C11_s.  Checks property C11 (detector orientation flips are
exact bijections, pixel map agrees with trans_orientation, the 73 other
matrices over {-1,0,1} are rejected with ValueError, eta/radius round trip)
with an independent computation, and prints a fingerprint of the raw output
of detyz_to_eta_and_radpix for fixed points less than one pixel from the beam
centre (which the property, stated for radius >= 1 pixel, leaves open).
"""
import sys
import math
import hashlib
import itertools
import random
import numpy as np
from xfab import detector

VALID = [(1, 0, 0, 1), (-1, 0, 0, 1), (1, 0, 0, -1), (-1, 0, 0, -1),
         (0, 1, 1, 0), (0, -1, 1, 0), (0, 1, -1, 0), (0, -1, -1, 0)]
fails = []


def fail(msg):
    fails.append(msg)
    if len(fails) <= 20:
        print("VIOLATION:", msg)


def oracle_detyz(x, y, o, nx, ny):
    """where raw pixel img[x,y] (img of shape (nx,ny)) has to end up"""
    o11, o12, o21, o22 = o
    if o11 != 0:
        dety = y if o22 == 1 else ny - 1 - y
        detz = x if o11 == 1 else nx - 1 - x
    else:
        dety = x if o21 == 1 else nx - 1 - x
        detz = y if o12 == 1 else ny - 1 - y
    return dety, detz


def check_shape(nx, ny, rng, every_pixel=True):
    img = np.arange(nx * ny).reshape(nx, ny) * 3 + 7
    keep = img.copy()
    for o in VALID:
        # sizes: detz_size = extent along x, dety_size = extent along y
        dety_size, detz_size = ny, nx
        t = np.asarray(detector.trans_orientation(img, *o))
        back = np.asarray(detector.trans_orientation(t, *o, flipdir='inverse'))
        if back.shape != img.shape or not np.array_equal(back, keep):
            fail("trans_orientation not undone %s %s" % (o, (nx, ny)))
        back = np.asarray(detector.trans_orientation(t, o[0], o[1], o[2], o[3], 'inverse'))
        if back.shape != img.shape or not np.array_equal(back, keep):
            fail("trans_orientation not undone (positional) %s %s" % (o, (nx, ny)))
        f = np.asarray(detector.image_flipping(img, *o))
        back = np.asarray(detector.image_flipping(f, *o, flipdir='inverse'))
        if back.shape != img.shape or not np.array_equal(back, keep):
            fail("image_flipping not undone %s %s" % (o, (nx, ny)))
        # both are bijections of the pixel values
        if sorted(t.ravel().tolist()) != sorted(keep.ravel().tolist()):
            fail("trans_orientation not a bijection %s %s" % (o, (nx, ny)))
        if sorted(f.ravel().tolist()) != sorted(keep.ravel().tolist()):
            fail("image_flipping not a bijection %s %s" % (o, (nx, ny)))
        if every_pixel:
            pixels = list(itertools.product(range(nx), range(ny)))
        else:
            pixels = [(rng.randrange(nx), rng.randrange(ny)) for _ in range(40)]
            pixels += [(0, 0), (nx - 1, 0), (0, ny - 1), (nx - 1, ny - 1)]
        for (x, y) in pixels:
            d = detector.xy_to_detyz([x, y], o[0], o[1], o[2], o[3], dety_size, detz_size)
            dety, detz = float(d[0]), float(d[1])
            want = oracle_detyz(x, y, o, nx, ny)
            if (dety, detz) != (float(want[0]), float(want[1])):
                fail("xy_to_detyz(%s) = %s, expected %s for %s %s" % ((x, y), (dety, detz), want, o, (nx, ny)))
                continue
            if t[int(dety), int(detz)] != keep[x, y]:
                fail("trans_orientation stores pixel %s elsewhere %s %s" % ((x, y), o, (nx, ny)))
            xy = detector.detyz_to_xy([dety, detz], o[0], o[1], o[2], o[3], dety_size, detz_size)
            if (float(xy[0]), float(xy[1])) != (float(x), float(y)):
                fail("detyz_to_xy(xy_to_detyz(%s)) = %s for %s %s" % ((x, y), tuple(xy), o, (nx, ny)))
        # real valued coordinates inside the detector
        for _ in range(5):
            x = rng.uniform(0, nx - 1)
            y = rng.uniform(0, ny - 1)
            d = detector.xy_to_detyz(np.array([x, y]), o[0], o[1], o[2], o[3], dety_size, detz_size)
            xy = detector.detyz_to_xy(d, o[0], o[1], o[2], o[3], dety_size, detz_size)
            if abs(xy[0] - x) > 1e-9 or abs(xy[1] - y) > 1e-9:
                fail("real xy round trip %s -> %s -> %s" % ((x, y), tuple(d), tuple(xy)))
            # independent affine formula for the same map
            w0 = oracle_detyz(0, 0, o, nx, ny)
            wx = oracle_detyz(1, 0, o, 3, 3)[0] - oracle_detyz(0, 0, o, 3, 3)[0], \
                oracle_detyz(1, 0, o, 3, 3)[1] - oracle_detyz(0, 0, o, 3, 3)[1]
            wy = oracle_detyz(0, 1, o, 3, 3)[0] - oracle_detyz(0, 0, o, 3, 3)[0], \
                oracle_detyz(0, 1, o, 3, 3)[1] - oracle_detyz(0, 0, o, 3, 3)[1]
            want = (w0[0] + wx[0] * x + wy[0] * y, w0[1] + wx[1] * x + wy[1] * y)
            if abs(d[0] - want[0]) > 1e-9 or abs(d[1] - want[1]) > 1e-9:
                fail("xy_to_detyz(%s) = %s, expected %s for %s %s" % ((x, y), tuple(d), want, o, (nx, ny)))
            dy = rng.uniform(0, dety_size - 1)
            dz = rng.uniform(0, detz_size - 1)
            xy = detector.detyz_to_xy(np.array([dy, dz]), o[0], o[1], o[2], o[3], dety_size, detz_size)
            d = detector.xy_to_detyz(xy, o[0], o[1], o[2], o[3], dety_size, detz_size)
            if abs(d[0] - dy) > 1e-9 or abs(d[1] - dz) > 1e-9:
                fail("real detyz round trip %s -> %s -> %s" % ((dy, dz), tuple(xy), tuple(d)))
    if not np.array_equal(img, keep):
        fail("input image modified")


def check_rejection():
    img = np.arange(12).reshape(3, 4)
    nbad = 0
    for o in itertools.product((-1, 0, 1), repeat=4):
        if o in VALID:
            continue
        nbad += 1
        calls = [
            ("trans_orientation", lambda: detector.trans_orientation(img, *o)),
            ("trans_orientation inverse", lambda: detector.trans_orientation(img, *o, flipdir='inverse')),
            ("image_flipping", lambda: detector.image_flipping(img, *o)),
            ("image_flipping inverse", lambda: detector.image_flipping(img, *o, flipdir='inverse')),
            ("xy_to_detyz", lambda: detector.xy_to_detyz([1, 2], o[0], o[1], o[2], o[3], 4, 3)),
            ("detyz_to_xy", lambda: detector.detyz_to_xy([1, 2], o[0], o[1], o[2], o[3], 4, 3)),
        ]
        for name, call in calls:
            try:
                call()
            except ValueError:
                pass
            except Exception as e:  # wrong kind of exception
                fail("%s%s raised %r, not a ValueError" % (name, o, e))
            else:
                fail("%s%s accepted" % (name, o))
    assert nbad == 73


def angdiff(a, b):
    d = (a - b) % 360.0
    return min(d, 360.0 - d)


def check_eta(rng):
    etas = [0.0, 90.0, 180.0, 270.0, 360.0, 45.0, 1e-7, 360 - 1e-7]
    etas += [rng.uniform(0, 360) for _ in range(300)]
    for eta in etas:
        for rad in (1.0, 1.5, rng.uniform(1, 10), rng.uniform(10, 3000)):
            cy = rng.uniform(-500, 2500)
            cz = rng.uniform(-500, 2500)
            if rng.random() < 0.3:
                cy, cz = float(round(cy)), float(round(cz))
            # independent forward computation
            dety = cy - rad * math.sin(math.radians(eta))
            detz = cz + rad * math.cos(math.radians(eta))
            got = detector.eta_and_radpix_to_detyz(eta, rad, cy, cz)
            if abs(got[0] - dety) > 1e-8 or abs(got[1] - detz) > 1e-8:
                fail("eta_and_radpix_to_detyz(%r,%r) = %s, expected %s" % (eta, rad, tuple(got), (dety, detz)))
            e2, r2 = detector.detyz_to_eta_and_radpix(np.array(got), cy, cz)
            # arccos near 0/180 degrees resolves angles only to ~2e-8 rad
            tol = 1e-5
            if not (0 <= e2 <= 360):
                fail("eta %r outside [0,360]" % (e2,))
            if angdiff(e2, eta) > tol or abs(r2 - rad) > 1e-8:
                fail("eta round trip (%r,%r) -> %s -> (%r,%r)" % (eta, rad, tuple(got), e2, r2))
            back = detector.eta_and_radpix_to_detyz(e2, r2, cy, cz)
            if abs(back[0] - got[0]) > 1e-8 + 1e-7 * rad or abs(back[1] - got[1]) > 1e-8 + 1e-7 * rad:
                fail("detyz round trip %s -> (%r,%r) -> %s" % (tuple(got), e2, r2, tuple(back)))
    # starting from detector coordinates
    for _ in range(300):
        cy = rng.uniform(0, 2048)
        cz = rng.uniform(0, 2048)
        while True:
            dy = rng.uniform(0, 2048)
            dz = rng.uniform(0, 2048)
            if math.hypot(dy - cy, dz - cz) >= 1.0:
                break
        e, r = detector.detyz_to_eta_and_radpix(np.array([dy, dz]), cy, cz)
        if not (0 <= e <= 360):
            fail("eta %r outside [0,360]" % (e,))
        if abs(r - math.hypot(dy - cy, dz - cz)) > 1e-9:
            fail("radius wrong for %s" % ((dy, dz),))
        want = math.degrees(math.atan2(-(dy - cy), dz - cz)) % 360.0
        if angdiff(e, want) > 1e-5:
            fail("eta %r, expected %r" % (e, want))
        back = detector.eta_and_radpix_to_detyz(e, r, cy, cz)
        if abs(back[0] - dy) > 1e-8 + 1e-7 * r or abs(back[1] - dz) > 1e-8 + 1e-7 * r:
            fail("detyz round trip %s -> (%r,%r) -> %s" % ((dy, dz), e, r, tuple(back)))


def fingerprint():
    """raw output of detyz_to_eta_and_radpix for fixed points closer than one
    pixel to the beam centre (outside the quantifier of the property) and,
    for comparison, a few at one pixel and beyond (must not change)"""
    inside = []
    for (dy, dz) in [(-0.5, 0.0), (0.5, 0.0), (0.0, -0.25), (0.3, 0.4),
                     (-0.6, -0.6), (0.0, 0.0), (0.1, 0.7)]:
        e, r = detector.detyz_to_eta_and_radpix(np.array([100.0 + dy, 200.0 + dz]), 100.0, 200.0)
        inside.append((repr(float(e)), repr(float(r))))
    beyond = []
    for (dy, dz) in [(-1.0, 0.0), (0.6, 0.8), (0.0, -1.0), (30.25, -400.5), (0.0, 7.0)]:
        e, r = detector.detyz_to_eta_and_radpix(np.array([100.0 + dy, 200.0 + dz]), 100.0, 200.0)
        beyond.append((repr(float(e)), repr(float(r))))
    return "radius<1: %s eta(-0.5,0)=%s eta(0.3,0.4)=%s | radius>=1: %s" % (
        hashlib.sha1(repr(inside).encode()).hexdigest()[:12], inside[0][0], inside[3][0],
        hashlib.sha1(repr(beyond).encode()).hexdigest()[:12])


def main():
    rng = random.Random(1101)
    check_rejection()
    for nx in range(1, 9):
        for ny in range(1, 9):
            check_shape(nx, ny, rng)
    for _ in range(6):
        nx = rng.randrange(9, 400)
        ny = rng.randrange(9, 400)
        if nx == ny:
            ny += 1
        check_shape(nx, ny, rng, every_pixel=False)
    check_eta(rng)
    print("FINGERPRINT:", fingerprint())
    if fails:
        print("property C11 VIOLATED: %d failures" % len(fails))
        return 1
    print("property C11 holds on all generated inputs")
    return 0


if __name__ == "__main__":
    sys.exit(main())
