"""
Property C12 demo / negative control.

Checks, with computations that do not use xfab helpers:
  * permutations(cs), rotations(cs) are groups of order 1,2,4,8,6,12,24 (all pairs of
    operators), integer unimodular resp. proper rotations,
  * rot[i] . B . perm[i] = B for random conforming cells (B built here from the metric),
  * ROTATIONS[cs] equals rotations(cs),
  * Umis(U1,U2,cs)[k] = (k, rotation angle in [0,180] of U1'.U2.rot[k]'), the multiset of
    angles is invariant under symmetry-equivalent replacement of either orientation, a
    common rotation of both, and a swap; Umis(U,U) contains 0.
Exit status 0 when everything holds.  Prints a FINGERPRINT of raw outputs.
"""
import hashlib
import sys

import numpy as np

from xfab import symmetry

ORDER = {1: 1, 2: 2, 3: 4, 4: 8, 5: 6, 6: 12, 7: 24}
ANGTOL = 1e-5      # degrees, the tolerance the library's own tests use
failures = []


def fail(msg):
    failures.append(msg)
    if len(failures) <= 20:
        print("VIOLATION:", msg)


# ---------------------------------------------------------------- helpers
def my_b_matrix(cell):
    """upper triangular B with positive diagonal and B'B = reciprocal metric (2 pi
    convention): the Busing-Levy / Poulsen eq. 3.4 matrix, obtained by Cholesky."""
    a, b, c = cell[:3]
    al, be, ga = np.radians(cell[3:])
    G = np.array([[a*a, a*b*np.cos(ga), a*c*np.cos(be)],
                  [a*b*np.cos(ga), b*b, b*c*np.cos(al)],
                  [a*c*np.cos(be), b*c*np.cos(al), c*c]])
    Gstar = 4*np.pi**2*np.linalg.inv(G)
    Gstar = 0.5*(Gstar + Gstar.T)
    return np.linalg.cholesky(Gstar).T


def random_cell(cs, rng):
    a, b, c = rng.uniform(3., 12., 3)
    if cs == 1:
        while True:
            al, be, ga = rng.uniform(65., 115., 3)
            cell = np.array([a, b, c, al, be, ga])
            ca, cb, cg = np.cos(np.radians([al, be, ga]))
            if 1 - ca*ca - cb*cb - cg*cg + 2*ca*cb*cg > 0.1:
                return cell
    if cs == 2:
        return np.array([a, b, c, 90., rng.uniform(91., 125.), 90.])
    if cs == 3:
        return np.array([a, b, c, 90., 90., 90.])
    if cs == 4:
        return np.array([a, a, c, 90., 90., 90.])
    if cs in (5, 6):
        return np.array([a, a, c, 90., 90., 120.])
    return np.array([a, a, a, 90., 90., 90.])


def random_rotation(rng):
    q = rng.standard_normal(4)
    q /= np.linalg.norm(q)
    w, x, y, z = q
    return np.array([[1-2*(y*y+z*z), 2*(x*y-w*z), 2*(x*z+w*y)],
                     [2*(x*y+w*z), 1-2*(x*x+z*z), 2*(y*z-w*x)],
                     [2*(x*z-w*y), 2*(y*z+w*x), 1-2*(x*x+y*y)]])


def small_rotation(rng):
    """rotation by about 0.01 .. 1 degree about a random axis"""
    ax = rng.standard_normal(3)
    ax /= np.linalg.norm(ax)
    t = np.radians(10**rng.uniform(-2, 0))
    K = np.array([[0, -ax[2], ax[1]], [ax[2], 0, -ax[0]], [-ax[1], ax[0], 0]])
    return np.eye(3) + np.sin(t)*K + (1-np.cos(t))*K.dot(K)


def my_angle(R):
    """rotation angle in degrees, [0,180], well conditioned everywhere"""
    c = 0.5*(R[0, 0] + R[1, 1] + R[2, 2] - 1.)
    s = 0.5*np.sqrt((R[2, 1]-R[1, 2])**2 + (R[0, 2]-R[2, 0])**2 + (R[1, 0]-R[0, 1])**2)
    return np.degrees(np.arctan2(s, c))


def my_angles(U1, U2, rot):
    return np.array([my_angle(U1.T.dot(U2).dot(rot[k].T)) for k in range(len(rot))])


def index_in(M, stack, tol):
    d = np.abs(stack - M).reshape(len(stack), -1).max(axis=1)
    hits = np.nonzero(d <= tol)[0]
    return hits


def check_group(stack, tol, what):
    n = len(stack)
    if len(index_in(np.eye(3), stack, tol)) != 1:
        fail("%s: identity not present exactly once" % what)
    for i in range(n):
        if len(index_in(stack[i], stack, tol)) != 1:
            fail("%s: element %d duplicated" % (what, i))
        if len(index_in(np.linalg.inv(stack[i]), stack, 10*tol + 1e-12)) != 1:
            fail("%s: inverse of %d missing" % (what, i))
        for j in range(n):
            if len(index_in(stack[i].dot(stack[j]), stack, tol)) != 1:
                fail("%s: product %d.%d not in set" % (what, i, j))


def same_multiset(a, b):
    return a.shape == b.shape and np.abs(np.sort(a) - np.sort(b)).max() <= ANGTOL


# ---------------------------------------------------------------- group structure
rng = np.random.default_rng(20261001)
ncell = 0
for cs in range(1, 8):
    perm = symmetry.permutations(cs)
    rot = symmetry.rotations(cs)
    perm = np.asarray(perm, dtype=float)
    rot = np.asarray(rot, dtype=float)
    if perm.shape != (ORDER[cs], 3, 3):
        fail("permutations(%d) shape %s" % (cs, perm.shape,))
        continue
    if rot.shape != (ORDER[cs], 3, 3):
        fail("rotations(%d) shape %s" % (cs, rot.shape,))
        continue
    if not np.array_equal(perm, np.rint(perm)):
        fail("permutations(%d) not integer" % cs)
    for i in range(len(perm)):
        if abs(abs(np.linalg.det(perm[i])) - 1) > 1e-9:
            fail("permutations(%d)[%d] not unimodular" % (cs, i))
        if np.abs(rot[i].T.dot(rot[i]) - np.eye(3)).max() > 1e-12:
            fail("rotations(%d)[%d] not orthogonal" % (cs, i))
        if abs(np.linalg.det(rot[i]) - 1) > 1e-12:
            fail("rotations(%d)[%d] not proper" % (cs, i))
    check_group(perm, 0.0, "permutations(%d)" % cs)
    check_group(rot, 1e-9, "rotations(%d)" % cs)

    # cached table
    cached = np.asarray(symmetry.ROTATIONS[cs], dtype=float)
    if cached.shape != rot.shape or np.abs(cached - rot).max() > 1e-14:
        fail("ROTATIONS[%d] differs from rotations(%d)" % (cs, cs))
    # two calls give equal, independent results
    again = np.asarray(symmetry.rotations(cs), dtype=float)
    if np.abs(again - rot).max() > 0:
        fail("rotations(%d) not reproducible" % cs)

    # pairing on conforming cells
    for _ in range(40):
        cell = random_cell(cs, rng)
        B = my_b_matrix(cell)
        ncell += 1
        for i in range(len(perm)):
            if np.abs(rot[i].dot(B).dot(perm[i]) - B).max() > 1e-9*np.abs(B).max():
                fail("pairing rot[%d].B.perm[%d] != B for system %d cell %s" % (i, i, cs, cell))
                break

# ---------------------------------------------------------------- Umis
npairs = 0
for cs in range(1, 8):
    rot = np.asarray(symmetry.rotations(cs), dtype=float)
    n = len(rot)
    for trial in range(50):
        U1 = random_rotation(rng)
        if trial % 5 == 4:
            # symmetry-equivalent up to a small rotation: angles near 0 and special values
            U2 = U1.dot(rot[rng.integers(n)])
            if trial % 10 == 9:
                U2 = U2.dot(small_rotation(rng))
        else:
            U2 = random_rotation(rng)
        npairs += 1
        m = np.asarray(symmetry.Umis(U1, U2, cs))
        if m.shape != (n, 2):
            fail("Umis shape %s for system %d" % (m.shape, cs))
            continue
        if not np.array_equal(m[:, 0], np.arange(n)):
            fail("Umis first column is not the operation number, system %d" % cs)
        ang = m[:, 1]
        if not (np.all(ang >= 0) and np.all(ang <= 180)):
            fail("Umis angle outside [0,180], system %d" % cs)
        ref = my_angles(U1, U2, rot)
        if np.abs(ang - ref).max() > ANGTOL:
            fail("Umis angle for operation k differs from angle of U1'.U2.rot[k]' by %g, system %d"
                 % (np.abs(ang - ref).max(), cs))
        j = rng.integers(n)
        l = rng.integers(n)
        Q = random_rotation(rng)
        variants = {
            "U2 -> U2.rot[j]": symmetry.Umis(U1, U2.dot(rot[j]), cs),
            "U1 -> U1.rot[j]": symmetry.Umis(U1.dot(rot[j]), U2, cs),
            "both equivalents": symmetry.Umis(U1.dot(rot[j]), U2.dot(rot[l]), cs),
            "common rotation": symmetry.Umis(Q.dot(U1), Q.dot(U2), cs),
            "swap": symmetry.Umis(U2, U1, cs),
        }
        for name, mv in variants.items():
            if not same_multiset(ang, np.asarray(mv)[:, 1]):
                fail("multiset of angles changed under %s, system %d" % (name, cs))
        m0 = np.asarray(symmetry.Umis(U1, U1, cs))
        if m0[:, 1].min() > ANGTOL:
            fail("Umis(U,U) does not contain 0, system %d: min %g" % (cs, m0[:, 1].min()))

# ---------------------------------------------------------------- fingerprint
h_perm = hashlib.sha1()
h_rot = hashlib.sha1()
h_umis = hashlib.sha1()
frng = np.random.default_rng(12)
fixed = [(random_rotation(frng), random_rotation(frng)) for _ in range(3)]
for cs in range(1, 8):
    h_perm.update(np.ascontiguousarray(symmetry.permutations(cs), dtype=float).tobytes())
    h_rot.update(np.ascontiguousarray(symmetry.rotations(cs), dtype=float).tobytes())
    for U1, U2 in fixed:
        h_umis.update(np.ascontiguousarray(symmetry.Umis(U1, U2, cs), dtype=float).tobytes())
print("checked %d cells, %d orientation pairs" % (ncell, npairs))
print("FINGERPRINT: perm=%s rot=%s umis=%s" % (h_perm.hexdigest()[:12],
                                               h_rot.hexdigest()[:12],
                                               h_umis.hexdigest()[:12]))
if failures:
    print("FAILED: %d violations" % len(failures))
    sys.exit(1)
print("OK")
sys.exit(0)
