"""
Demo for property C12 (lattice symmetry operators form the right groups;
misorientation respects them).  Independent check of the property on a few
hundred generated inputs; exits 0 when the property holds.

Run as:  PYTHONPATH=<checkout root> /venv/bin/python -B demo.py
"""
from __future__ import print_function
import sys
import hashlib
import itertools
import numpy as np

from xfab import symmetry, tools

ORDERS = {1: 1, 2: 2, 3: 4, 4: 8, 5: 6, 6: 12, 7: 24}
FAIL = []


def fail(msg):
    FAIL.append(msg)
    if len(FAIL) <= 20:
        print("VIOLATION:", msg)


def quat_rot(rng):
    """uniform random proper rotation from a unit quaternion"""
    q = rng.standard_normal(4)
    q /= np.linalg.norm(q)
    w, x, y, z = q
    return np.array([
        [1 - 2*(y*y + z*z), 2*(x*y - z*w), 2*(x*z + y*w)],
        [2*(x*y + z*w), 1 - 2*(x*x + z*z), 2*(y*z - x*w)],
        [2*(x*z - y*w), 2*(y*z + x*w), 1 - 2*(x*x + y*y)]])


def rot_angle_deg(m):
    """rotation angle in [0,180] of a proper rotation, independent route:
    atan2(|skew part|, trace part)"""
    s = 0.5 * np.sqrt((m[2, 1] - m[1, 2])**2 + (m[0, 2] - m[2, 0])**2
                      + (m[1, 0] - m[0, 1])**2)
    c = 0.5 * (np.trace(m) - 1.0)
    return np.degrees(np.arctan2(s, c))


def conforming_cell(cs, rng):
    a, b, c = rng.uniform(2.0, 15.0, 3)
    al, be, ga = rng.uniform(70.0, 110.0, 3)
    if cs == 1:
        return [a, b, c, al, be, ga]
    if cs == 2:
        return [a, b, c, 90.0, be, 90.0]
    if cs == 3:
        return [a, b, c, 90.0, 90.0, 90.0]
    if cs == 4:
        return [a, a, c, 90.0, 90.0, 90.0]
    if cs in (5, 6):
        return [a, a, c, 90.0, 90.0, 120.0]
    return [a, a, a, 90.0, 90.0, 90.0]


def as_set(mats, nd=9):
    return set(tuple(np.round(np.asarray(m, dtype=float), nd).ravel() + 0.0)
               for m in mats)


def same_multiset(x, y, tol=1e-4):
    x = np.sort(np.asarray(x, dtype=float))
    y = np.sort(np.asarray(y, dtype=float))
    return x.shape == y.shape and np.max(np.abs(x - y)) <= tol


def angles(u1, u2, cs):
    out = np.asarray(symmetry.Umis(u1, u2, cs))
    return np.asarray(out[:, 1], dtype=float)


def check_groups(rng):
    for cs in range(1, 8):
        perm = np.asarray(symmetry.permutations(cs))
        rot = np.asarray(symmetry.rotations(cs))
        n = ORDERS[cs]
        if len(perm) != n or len(rot) != n:
            fail("cs %d: order %d/%d, expected %d" % (cs, len(perm), len(rot), n))
            continue
        # integer, unimodular
        for k in range(n):
            p = np.asarray(perm[k], dtype=float)
            if not np.array_equal(p, np.round(p)):
                fail("cs %d perm[%d] not integer" % (cs, k))
            if abs(abs(np.linalg.det(p)) - 1.0) > 1e-9:
                fail("cs %d perm[%d] not unimodular" % (cs, k))
            r = np.asarray(rot[k], dtype=float)
            if np.max(np.abs(r.dot(r.T) - np.eye(3))) > 1e-9 or \
                    abs(np.linalg.det(r) - 1.0) > 1e-9:
                fail("cs %d rot[%d] not a proper rotation" % (cs, k))
        # distinct elements, identity, closure (all pairs), inverses
        for name, grp in (("perm", perm), ("rot", rot)):
            s = as_set(grp)
            if len(s) != n:
                fail("cs %d %s: elements not distinct" % (cs, name))
            if not as_set([np.eye(3)]) <= s:
                fail("cs %d %s: identity missing" % (cs, name))
            for i, j in itertools.product(range(n), repeat=2):
                if not as_set([np.dot(grp[i], grp[j])]) <= s:
                    fail("cs %d %s: not closed (%d,%d)" % (cs, name, i, j))
            for i in range(n):
                if not as_set([np.linalg.inv(np.asarray(grp[i], dtype=float))]) <= s:
                    fail("cs %d %s: inverse of %d missing" % (cs, name, i))
        # pairing rot[i].B.perm[i] = B on conforming cells
        for _ in range(30):
            cell = conforming_cell(cs, rng)
            B = tools.form_b_mat(cell)
            scale = np.max(np.abs(B))
            for i in range(n):
                if np.max(np.abs(rot[i].dot(B).dot(perm[i]) - B)) > 1e-9 * scale:
                    fail("cs %d: pairing broken for op %d, cell %r" % (cs, i, cell))
        # cache equals rotations()
        cached = np.asarray(symmetry.ROTATIONS[cs])
        if cached.shape != rot.shape or np.max(np.abs(cached - rot)) > 1e-12:
            fail("cs %d: ROTATIONS differs from rotations()" % cs)


def check_umis(rng, npairs=40):
    for cs in range(1, 8):
        rot = np.asarray(symmetry.rotations(cs), dtype=float)
        n = len(rot)
        for _ in range(npairs):
            u1, u2, r = quat_rot(rng), quat_rot(rng), quat_rot(rng)
            out = np.asarray(symmetry.Umis(u1, u2, cs))
            if out.shape[0] != n:
                fail("cs %d: Umis returns %d rows" % (cs, out.shape[0]))
                continue
            ang = np.asarray(out[:, 1], dtype=float)
            if np.any(ang < 0) or np.any(ang > 180):
                fail("cs %d: angle outside [0,180]" % cs)
            # per-operation value
            for k in range(n):
                ref = rot_angle_deg(u1.T.dot(u2).dot(rot[k].T))
                if abs(ang[k] - ref) > 1e-4:
                    fail("cs %d op %d: Umis %.8f, independent %.8f" % (cs, k, ang[k], ref))
            # invariances of the multiset
            j1, j2 = rng.integers(0, n, 2)
            if not same_multiset(ang, angles(u1, u2.dot(rot[j2]), cs)):
                fail("cs %d: multiset changes with U2 -> U2.rot[%d]" % (cs, j2))
            if not same_multiset(ang, angles(u1.dot(rot[j1]), u2, cs)):
                fail("cs %d: multiset changes with U1 -> U1.rot[%d]" % (cs, j1))
            if not same_multiset(ang, angles(r.dot(u1), r.dot(u2), cs)):
                fail("cs %d: multiset changes under common rotation" % cs)
            if not same_multiset(ang, angles(u2, u1, cs)):
                fail("cs %d: multiset changes under swap" % cs)
            if np.min(angles(u1, u1, cs)) > 1e-4:
                fail("cs %d: Umis(U,U) does not contain 0" % cs)
            if np.min(angles(u1, u1.dot(rot[j1]), cs)) > 1e-4:
                fail("cs %d: Umis(U,U.rot) does not contain 0" % cs)


def fingerprint():
    """how the cached table ROTATIONS presents itself (container, what index 0
    gives, what iterating gives, array flags); the values themselves are
    checked against rotations() in check_groups()"""
    table = symmetry.ROTATIONS
    try:
        zero = repr(table[0])
    except Exception as exc:  # noqa
        zero = type(exc).__name__
    try:
        items = [type(x).__name__ for x in table]
    except Exception as exc:  # noqa
        items = type(exc).__name__
    writeable = [bool(np.asarray(table[cs]).flags.writeable) for cs in range(1, 8)]
    same_obj = all(table[cs] is table[cs] for cs in range(1, 8))
    h = hashlib.sha1()
    for cs in range(1, 8):
        h.update(np.ascontiguousarray(np.round(np.asarray(table[cs], dtype=float), 9) + 0.0).tobytes())
    return "container %s len %d [0]->%s iter->%s writeable %s same object per access %s values sha1 %s" % (
        type(table).__name__, len(table), zero, items, writeable, same_obj, h.hexdigest()[:12])


def main():
    rng = np.random.default_rng(12)
    check_groups(rng)
    check_umis(rng)
    print("FINGERPRINT:", fingerprint())
    if FAIL:
        print("property C12 VIOLATED (%d findings)" % len(FAIL))
        return 1
    print("property C12 holds on all generated inputs")
    return 0


if __name__ == "__main__":
    sys.exit(main())
