"""Demo for property C13 (strain <-> strained B matrix, UBI -> (U, eps)).

Run as:  PYTHONPATH=<checkout root> /venv/bin/python -B demo.py

Checks the property with an independent computation (transposed Cholesky factor
of the reciprocal metric tensor as the reference B matrix, explicit
sym(B0 inv(B)) - I as the reference strain) over a few hundred random cells,
strains and rotations, for xfab.tools and xfab.laue, and prints a FINGERPRINT
of the raw bytes returned by epsilon_to_b for a few fixed inputs.
Exit status 0 if the property holds, 1 otherwise.
"""
import hashlib
import sys

import numpy as np

from xfab import tools, laue

TOL = 1e-8
NCASE = 300
failures = []

# RESTRICTION: in the pristine tree xfab.tools.ubi_to_u_and_eps returns the
# correct U but a strain computed from B/(2 pi) when it is fed a UBI in the
# tools convention (2 pi inv(UB)).  That pre-existing defect is not what this
# demo is about, so the strain returned by ubi_to_u_and_eps is only compared
# for xfab.laue; U is compared for both modules.
CHECK_UBI_EPS = {"xfab.tools": False, "xfab.laue": True}


def fail(msg):
    failures.append(msg)
    if len(failures) <= 20:
        print("VIOLATION:", msg)


def rand_cell(rng):
    while True:
        abc = rng.uniform(2.0, 25.0, 3)
        ang = rng.uniform(60.0, 120.0, 3)
        ca, cb, cg = np.cos(np.radians(ang))
        vol2 = 1 - ca * ca - cb * cb - cg * cg + 2 * ca * cb * cg
        if vol2 > 0.1:            # stay well away from degenerate cells
            return [float(x) for x in abc] + [float(x) for x in ang]


def ref_b(cell, two_pi):
    """Reference B: upper triangular, positive diagonal, B'B = reciprocal metric."""
    a, b, c = cell[:3]
    ca, cb, cg = np.cos(np.radians(cell[3:]))
    G = np.array([[a * a, a * b * cg, a * c * cb],
                  [a * b * cg, b * b, b * c * ca],
                  [a * c * cb, b * c * ca, c * c]])
    B = np.linalg.cholesky(np.linalg.inv(G)).T
    return B * (2 * np.pi if two_pi else 1.0)


def ref_eps(B, B0):
    T = B0.dot(np.linalg.inv(B))
    E = 0.5 * (T + T.T) - np.eye(3)
    return np.array([E[0, 0], E[0, 1], E[0, 2], E[1, 1], E[1, 2], E[2, 2]])


def rand_rot(rng):
    q, r = np.linalg.qr(rng.standard_normal((3, 3)))
    q = q * np.sign(np.diag(r))
    if np.linalg.det(q) < 0:
        q[:, 0] = -q[:, 0]
    return q


def close(x, y, tol=TOL):
    x = np.asarray(x, float)
    y = np.asarray(y, float)
    return (x.shape == y.shape and bool(np.all(np.isfinite(x)))
            and np.max(np.abs(x - y)) <= tol * max(1.0, np.max(np.abs(y))))


def check_module(mod, two_pi, rng):
    name = mod.__name__
    scale = 2 * np.pi if two_pi else 1.0
    for k in range(NCASE):
        cell = rand_cell(rng)
        eps = [float(e) for e in rng.uniform(-0.1, 0.1, 6)]
        if k % 10 == 0:          # strains on the boundary of the range
            eps = [float(e) for e in rng.choice([-0.1, 0.1], 6)]
        B0 = ref_b(cell, two_pi)

        # zero strain gives the unstrained B
        if not close(mod.epsilon_to_b([0.0] * 6, cell), B0):
            fail("%s epsilon_to_b(0) != B0 for %r" % (name, cell))
        if not close(mod.epsilon_to_b_old([0.0] * 6, cell), B0):
            fail("%s epsilon_to_b_old(0) != B0 for %r" % (name, cell))

        # eps -> B -> eps, and the strain is sym(B0 inv(B)) - I
        B = mod.epsilon_to_b(list(eps), cell)
        if np.shape(B) != (3, 3):
            fail("%s epsilon_to_b shape" % name)
            continue
        B = np.array(B, float)
        if not close(ref_eps(B, B0), eps):
            fail("%s epsilon_to_b(eps) does not carry eps %r %r" % (name, cell, eps))
        back = mod.b_to_epsilon(B.copy(), cell)
        if len(back) != 6 or not close(back, eps):
            fail("%s b_to_epsilon(epsilon_to_b(eps)) != eps %r %r" % (name, cell, eps))
        if not close(back, ref_eps(B, B0)):
            fail("%s b_to_epsilon != sym(B0 inv(B)) - I" % name)

        # B -> eps -> B for the B matrix of some other (deformed) cell
        cell2 = [cell[i] * (1 + rng.uniform(-0.05, 0.05)) for i in range(3)] + \
                [cell[i] + rng.uniform(-3, 3) for i in range(3, 6)]
        B2 = ref_b(cell2, two_pi)
        e2 = mod.b_to_epsilon(B2.copy(), cell)
        if not close(e2, ref_eps(B2, B0)):
            fail("%s b_to_epsilon != sym(B0 inv(B)) - I (deformed cell)" % name)
        if not close(mod.epsilon_to_b(e2, cell), B2):
            fail("%s epsilon_to_b(b_to_epsilon(B)) != B" % name)

        # the _old pair
        Bo = mod.epsilon_to_b_old(list(eps), cell)
        if not close(mod.b_to_epsilon_old(Bo, cell), eps):
            fail("%s old pair eps->B->eps %r %r" % (name, cell, eps))
        eo = mod.b_to_epsilon_old(B2.copy(), cell)
        if not close(mod.epsilon_to_b_old(eo, cell), B2):
            fail("%s old pair B->eps->B" % name)

        # UBI in the module's convention -> (U, eps)
        U = rand_rot(rng)
        if not close(mod.u_to_ubi(U, cell), np.linalg.inv(U.dot(B0)) * scale):
            fail("%s u_to_ubi convention" % name)
        ubi = np.linalg.inv(U.dot(B)) * scale
        U_out, eps_out = mod.ubi_to_u_and_eps(ubi.copy(), cell)
        if not close(U_out, U):
            fail("%s ubi_to_u_and_eps U %r" % (name, cell))
        if CHECK_UBI_EPS[name]:
            if len(eps_out) != 6 or not close(eps_out, eps):
                fail("%s ubi_to_u_and_eps eps %r %r" % (name, cell, eps))


FIXED = [([3.0, 4.0, 5.0, 80.0, 95.0, 100.0], [0.01, -0.02, 0.03, 0.04, -0.05, 0.06]),
         ([7.1, 7.1, 11.3, 90.0, 90.0, 120.0], [0.1, 0.1, -0.1, -0.1, 0.1, -0.1]),
         ([5.43, 5.43, 5.43, 90.0, 90.0, 90.0], [0.001, 0.002, 0.003, -0.001, -0.002, -0.003]),
         ([6.2, 9.4, 13.7, 71.0, 108.0, 97.0], [-0.1, 0.07, 0.0, 0.1, -0.033, 0.05])]


def fingerprint():
    """Raw bytes of the strained B matrices for a few fixed inputs."""
    h = hashlib.sha256()
    for mod in (tools, laue):
        for cell, eps in FIXED:
            B = np.ascontiguousarray(np.array(mod.epsilon_to_b(eps, cell), float))
            h.update(B.tobytes())
    B = np.array(tools.epsilon_to_b(FIXED[0][1], FIXED[0][0]), float)
    return "epsilon_to_b bytes sha256=%s tools B[0,2]=%r" % (h.hexdigest()[:16], float(B[0, 2]))


def main():
    rng = np.random.default_rng(1313)
    check_module(tools, True, rng)
    check_module(laue, False, rng)
    print("FINGERPRINT: " + fingerprint())
    if failures:
        print("FAILED: %d violations" % len(failures))
        return 1
    print("OK: property C13 held on %d cases per module" % NCASE)
    return 0


if __name__ == "__main__":
    sys.exit(main())
