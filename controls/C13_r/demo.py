"""
Demo for control C13_r.

Tests property C13 (strain <-> strained B are exact inverses, zero strain
gives B0, eps = sym(B0.inv(B)) - I, ubi_to_u_and_eps gives back U and eps)
with an oracle that does not use any xfab routine, then prints a FINGERPRINT
of the raw return object of ubi_to_u_and_eps.
Run as:  PYTHONPATH=<checkout root> /venv/bin/python -B demo.py
"""
import sys
import hashlib
import numpy as np
from xfab import tools, laue

TOL = 1e-8
rng = np.random.RandomState(1313)
failures = []


def fail(msg):
    failures.append(msg)
    if len(failures) <= 10:
        print("VIOLATION:", msg)


def random_cell():
    while True:
        a, b, c = rng.uniform(2.0, 20.0, 3)
        al, be, ga = rng.uniform(60.0, 120.0, 3)
        ca, cb, cg = np.cos(np.radians([al, be, ga]))
        vol2 = 1 - ca * ca - cb * cb - cg * cg + 2 * ca * cb * cg
        if vol2 > 0.05:
            return [a, b, c, al, be, ga]


def oracle_b0(cell):
    """Reciprocal B (no 2 pi), upper triangular, positive diagonal, from
    cross products of real-space vectors and a QR factorisation."""
    a, b, c, al, be, ga = cell
    al, be, ga = np.radians([al, be, ga])
    va = np.array([a, 0.0, 0.0])
    vb = np.array([b * np.cos(ga), b * np.sin(ga), 0.0])
    cx = c * np.cos(be)
    cy = c * (np.cos(al) - np.cos(be) * np.cos(ga)) / np.sin(ga)
    vc = np.array([cx, cy, np.sqrt(c * c - cx * cx - cy * cy)])
    vol = np.dot(va, np.cross(vb, vc))
    rec = np.array([np.cross(vb, vc), np.cross(vc, va), np.cross(va, vb)]).T / vol
    q, r = np.linalg.qr(rec)
    s = np.sign(np.diag(r))
    return (r.T * s).T


def oracle_a(cell_metric):
    """Poulsen A matrix (upper triangular, A'A = G)."""
    return np.linalg.cholesky(cell_metric).T


def metric(cell):
    a, b, c, al, be, ga = cell
    ca, cb, cg = np.cos(np.radians([al, be, ga]))
    return np.array([[a * a, a * b * cg, a * c * cb],
                     [a * b * cg, b * b, b * c * ca],
                     [a * c * cb, b * c * ca, c * c]])


def full(eps):
    e = np.asarray(eps, float)
    return np.array([[e[0], e[1], e[2]], [e[1], e[3], e[4]], [e[2], e[4], e[5]]])


def sym_minus_i(T):
    return 0.5 * (T + T.T) - np.eye(3)


def random_rotation():
    q = rng.standard_normal(4)
    q /= np.linalg.norm(q)
    w, x, y, z = q
    return np.array([[1 - 2 * (y * y + z * z), 2 * (x * y - z * w), 2 * (x * z + y * w)],
                     [2 * (x * y + z * w), 1 - 2 * (x * x + z * z), 2 * (y * z - x * w)],
                     [2 * (x * z - y * w), 2 * (y * z + x * w), 1 - 2 * (x * x + y * y)]])


def close(x, y, scale=1.0):
    return np.max(np.abs(np.asarray(x, float) - np.asarray(y, float))) <= TOL * scale


def check_module(mod, two_pi, ncases):
    name = mod.__name__
    for i in range(ncases):
        cell = random_cell()
        if i % 7 == 0:
            eps = rng.choice([-0.1, 0.0, 0.1], 6)
        else:
            eps = rng.uniform(-0.1, 0.1, 6)
        eps = [float(e) for e in eps]
        B0 = oracle_b0(cell) * two_pi
        bscale = np.max(np.abs(B0))

        # zero strain gives the unstrained B
        Bz = np.asarray(mod.epsilon_to_b([0.0] * 6, cell), float)
        if not close(Bz, B0, bscale):
            fail("%s zero strain, new pair, cell %r" % (name, cell))
        Bz = np.asarray(mod.epsilon_to_b_old([0.0] * 6, cell), float)
        if not close(Bz, B0, bscale):
            fail("%s zero strain, old pair, cell %r" % (name, cell))

        # new pair
        B = np.asarray(mod.epsilon_to_b(eps, cell), float)
        if B.shape != (3, 3) or not close(np.tril(B, -1), 0, bscale) or np.any(np.diag(B) <= 0):
            fail("%s epsilon_to_b not an upper triangular B, cell %r eps %r" % (name, cell, eps))
        if not close(sym_minus_i(B0.dot(np.linalg.inv(B))), full(eps)):
            fail("%s epsilon_to_b: sym(B0 inv(B)) - I != eps, cell %r eps %r" % (name, cell, eps))
        back = mod.b_to_epsilon(B, cell)
        if len(back) != 6 or not close(list(back), eps):
            fail("%s b_to_epsilon(epsilon_to_b(eps)) != eps, cell %r eps %r" % (name, cell, eps))
        # b_to_epsilon on a B that did not come from epsilon_to_b
        cell2 = [cell[0] * (1 + rng.uniform(-.05, .05)), cell[1] * (1 + rng.uniform(-.05, .05)),
                 cell[2] * (1 + rng.uniform(-.05, .05)), cell[3] + rng.uniform(-2, 2),
                 cell[4] + rng.uniform(-2, 2), cell[5] + rng.uniform(-2, 2)]
        B2 = oracle_b0(cell2) * two_pi
        e2 = list(mod.b_to_epsilon(B2, cell))
        if not close(full(e2), sym_minus_i(B0.dot(np.linalg.inv(B2)))):
            fail("%s b_to_epsilon != sym(B0 inv(B)) - I, cell %r" % (name, cell))
        if max(abs(x) for x in e2) <= 0.1:
            if not close(mod.epsilon_to_b(e2, cell), B2, bscale):
                fail("%s epsilon_to_b(b_to_epsilon(B)) != B, cell %r" % (name, cell))

        # old pair (strain defined through the A matrices)
        Bo = np.asarray(mod.epsilon_to_b_old(eps, cell), float)
        if not close(np.tril(Bo, -1), 0, bscale) or np.any(np.diag(Bo) <= 0):
            fail("%s epsilon_to_b_old not an upper triangular B, cell %r" % (name, cell))
        gstar = Bo.T.dot(Bo) / two_pi ** 2
        A = oracle_a(np.linalg.inv(gstar))
        A0inv = np.linalg.inv(oracle_a(metric(cell)))
        if not close(sym_minus_i(A.dot(A0inv)), full(eps)):
            fail("%s epsilon_to_b_old: sym(A A0inv) - I != eps, cell %r eps %r" % (name, cell, eps))
        if not close(list(mod.b_to_epsilon_old(Bo, cell)), eps):
            fail("%s b_to_epsilon_old(epsilon_to_b_old(eps)) != eps, cell %r eps %r" % (name, cell, eps))
        eo = list(mod.b_to_epsilon_old(B2, cell))
        if max(abs(x) for x in eo) <= 0.1:
            if not close(mod.epsilon_to_b_old(eo, cell), B2, bscale):
                fail("%s epsilon_to_b_old(b_to_epsilon_old(B)) != B, cell %r" % (name, cell))

        # UBI round trip, UBI in the module's own convention (u_to_ubi)
        U = random_rotation()
        ubi_oracle = np.linalg.inv(U.dot(B)) * two_pi
        # u_to_ubi works on the unstrained cell; the strained UBI is built here
        ubi_mod = np.asarray(mod.u_to_ubi(U, cell), float)
        if not close(ubi_mod, np.linalg.inv(U.dot(B0)) * two_pi, np.max(np.abs(ubi_mod))):
            fail("%s u_to_ubi convention differs from the oracle, cell %r" % (name, cell))
        res = mod.ubi_to_u_and_eps(ubi_oracle, cell)
        U_out, eps_out = res           # must unpack as a pair
        if len(res) != 2:
            fail("%s ubi_to_u_and_eps result is not a pair" % name)
        if not close(U_out, U):
            fail("%s ubi_to_u_and_eps: U not recovered, cell %r" % (name, cell))
        if two_pi == 1.0:
            # (in xfab.tools the strain from a 2 pi UBI is a known open defect
            #  of the pristine tree, so the strain is only judged in xfab.laue)
            if len(eps_out) != 6 or not close(list(eps_out), eps):
                fail("%s ubi_to_u_and_eps: eps not recovered, cell %r eps %r" % (name, cell, eps))


def fingerprint():
    cell = [3.0, 4.0, 5.0, 80.0, 95.0, 100.0]
    eps = [0.01, -0.02, 0.03, 0.04, -0.05, 0.06]
    U = tools.euler_to_u(0.13, 0.4, 0.21)
    parts = []
    for mod, two_pi in ((tools, 2 * np.pi), (laue, 1.0)):
        B = mod.epsilon_to_b(eps, cell)
        ubi = np.linalg.inv(U.dot(B)) * two_pi
        res = mod.ubi_to_u_and_eps(ubi, cell)
        parts.append("%s:%s:%s" % (mod.__name__.split(".")[-1],
                                   "/".join(k.__name__ for k in type(res).__mro__[:-1]),
                                   ",".join(sorted(getattr(res, "__dict__", {}))) or "-"))
    return " ".join(parts)


if __name__ == "__main__":
    check_module(tools, 2 * np.pi, 300)
    check_module(laue, 1.0, 300)
    print("FINGERPRINT: " + fingerprint())
    if failures:
        print("%d property violations" % len(failures))
        sys.exit(1)
    print("property C13 holds on all generated cases")
    sys.exit(0)
