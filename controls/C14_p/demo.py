"""C14 control p: tools.genhkl_all and laue.genhkl_all must generate the same
reflections (same hkl rows, same sin(theta)/lambda), and the B matrices of
the two modules differ by exactly the documented factor 2*pi.

The order of the symmetry equivalents inside one block of genhkl_all is not
part of the property (in the original code it is decided by random numbers),
so the lists are compared as sets of rows, and against an orbit computation
done here with plain Python sets.

Run as:  PYTHONPATH=<checkout root> /venv/bin/python -B demo.py
"""
import sys
import hashlib
import warnings
warnings.simplefilter('ignore')
import numpy as np
from xfab import tools, laue, sg

rng = np.random.RandomState(20261001)
fails = []


def fail(msg):
    fails.append(msg)
    if len(fails) <= 10:
        print('VIOLATION:', msg)


def random_cell(system, rng):
    a, b, c = rng.uniform(3.0, 9.0, 3)
    if system == 'triclinic':
        al, be, ga = rng.uniform(75, 105, 3)
        return [a, b, c, al, be, ga]
    if system == 'monoclinic':
        return [a, b, c, 90., rng.uniform(92, 120), 90.]
    if system == 'orthorhombic':
        return [a, b, c, 90., 90., 90.]
    if system == 'tetragonal':
        return [a, a, c, 90., 90., 90.]
    if system in ('trigonal', 'hexagonal'):
        return [a, a, c, 90., 90., 120.]
    if system == 'cubic':
        return [a, a, a, 90., 90., 90.]
    raise ValueError(system)


def canon(rows):
    """rows of an (n, 3|4) array as a sorted list of tuples (hkl as ints)"""
    out = []
    for r in np.asarray(rows):
        t = tuple(int(round(x)) for x in r[:3])
        if len(r) > 3:
            t = t + (float(r[3]),)
        out.append(t)
    return sorted(out)


sgnos = [1, 2, 4, 5, 12, 14, 15, 19, 33, 61, 62, 63, 70, 75, 82, 88, 99, 123,
         136, 139, 141, 143, 147, 150, 152, 162, 164, 165, 168, 173, 176, 182,
         191, 193, 194, 195, 198, 200, 205, 212, 216, 221, 225, 227, 229, 230]

ncases = 0
nrows = 0
for it in range(240):
    sgno = sgnos[it % len(sgnos)]
    spg = sg.sg(sgno=sgno)
    cell = random_cell(spg.crystal_system, rng)
    dmin = min(cell[:3])
    sintlmax = rng.uniform(0.7, 1.25) / dmin
    sintlmin = rng.choice([0.0, 0.0, rng.uniform(0.2, 0.5) / dmin])
    tag = 'sgno=%d cell=%s stl=(%g,%g)' % (sgno, np.round(cell, 3).tolist(),
                                          sintlmin, sintlmax)
    # --- the B matrices: documented factor 2*pi, everything else equal
    Bt = tools.form_b_mat(cell)
    Bl = laue.form_b_mat(cell)
    if not np.allclose(Bt, 2 * np.pi * Bl, rtol=1e-12, atol=1e-14):
        fail('form_b_mat ratio is not 2*pi: ' + tag)
    if not np.allclose(tools.b_to_cell(Bt), laue.b_to_cell(Bl), rtol=1e-9, atol=1e-9):
        fail('b_to_cell differs: ' + tag)

    # --- unique reflections: same rows, same order (not touched by ties)
    ut = tools.genhkl_unique(cell, sintlmin, sintlmax, sgno=sgno, output_stl=True)
    ul = laue.genhkl_unique(cell, sintlmin, sintlmax, sgno=sgno, output_stl=True)
    if ut.shape != ul.shape or not np.allclose(ut, ul, rtol=1e-12, atol=1e-14):
        fail('genhkl_unique differs: ' + tag)
        continue

    # --- all reflections
    at = tools.genhkl_all(cell, sintlmin, sintlmax, sgno=sgno, output_stl=True)
    al = laue.genhkl_all(cell, sintlmin, sintlmax, sgno=sgno, output_stl=True)
    at3 = tools.genhkl_all(cell, sintlmin, sintlmax, sgno=sgno)
    al3 = laue.genhkl_all(cell, sintlmin, sintlmax, sgno=sgno)
    for name, arr, width in (('tools', at, 4), ('laue', al, 4),
                             ('tools', at3, 3), ('laue', al3, 3)):
        if not isinstance(arr, np.ndarray) or arr.ndim != 2 or arr.shape[1] != width:
            fail('%s.genhkl_all: bad shape %r: %s' % (name, getattr(arr, 'shape', None), tag))
    if fails:
        continue
    ct, cl = canon(at), canon(al)
    if [t[:3] for t in ct] != [t[:3] for t in cl]:
        fail('genhkl_all: different sets of hkl rows: ' + tag)
        continue
    if not np.allclose([t[3] for t in ct], [t[3] for t in cl], rtol=1e-12, atol=1e-14):
        fail('genhkl_all: sin(theta)/lambda differs: ' + tag)
    if canon(at3) != [t[:3] for t in ct] or canon(al3) != [t[:3] for t in cl]:
        fail('genhkl_all: output_stl=False rows differ from output_stl=True rows: ' + tag)

    # --- independent orbit computation from the unique list
    rots = [np.array(r) for r in spg.rot[:spg.nuniq]]
    expected = {}
    for row in ul:
        h = np.array([int(round(x)) for x in row[:3]])
        for R in rots:
            for s in (1, -1):
                expected[tuple(int(x) for x in s * h.dot(R))] = float(row[3])
    for name, c in (('tools', ct), ('laue', cl)):
        got = [t[:3] for t in c]
        if len(set(got)) != len(got):
            fail('%s.genhkl_all: duplicated rows: %s' % (name, tag))
        if set(got) != set(expected):
            fail('%s.genhkl_all: rows are not the orbits of the unique rows: %s' % (name, tag))
            continue
        for t in c:
            if abs(t[3] - expected[t[:3]]) > 1e-12:
                fail('%s.genhkl_all: stl of %r is not that of its unique row: %s' % (name, t[:3], tag))
            # stl from the B matrices (laue: |B h|/2, tools: |B h|/(4 pi))
            h = np.array(t[:3], float)
            s_l = np.linalg.norm(Bl.dot(h)) / 2
            s_t = np.linalg.norm(Bt.dot(h)) / (4 * np.pi)
            if abs(s_l - t[3]) > 1e-9 or abs(s_t - t[3]) > 1e-9:
                fail('%s.genhkl_all: stl of %r disagrees with |B h|: %s' % (name, t[:3], tag))
    ncases += 1
    nrows += len(cl)

# ---------------------------------------------------------------- fingerprint
# raw output (row order included) of laue.genhkl_all for fixed inputs with the
# global numpy random generator seeded, and whether the call drew from it.
h = hashlib.sha256()
drew = []
for cell, no in (([4.05, 4.05, 4.05, 90, 90, 90], 225),
                 ([3.2, 3.2, 5.1, 90, 90, 120], 194),
                 ([5.0, 6.0, 7.0, 90, 100, 90], 14)):
    np.random.seed(4711)
    out = laue.genhkl_all(cell, 0.0, 0.45, sgno=no, output_stl=True)
    after = np.random.rand()
    np.random.seed(4711)
    drew.append(after != np.random.rand())
    h.update(np.ascontiguousarray(out, float).tobytes())
first = [int(x) for x in out[0, :3]]
print('FINGERPRINT: laue.genhkl_all raw rows sha256=%s first_row_last_case=%s drew_from_np_random=%s'
      % (h.hexdigest()[:16], first, drew))

print('%d cases, %d rows compared, %d violations' % (ncases, nrows, len(fails)))
sys.exit(1 if fails else 0)
