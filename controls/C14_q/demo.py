"""C14 control q: the rotation functions duplicated in xfab.tools and
xfab.laue give the same result, here with the weight on rod_to_u and what is
built on it (u_to_rod, u_to_ubi, ubi_to_u, ubi_to_rod, u_to_euler); B and
g-vectors carry the documented factor 2*pi, UBI / U / Rodrigues vectors /
Euler angles do not.

"The same result" is tested as agreement to a few ulp-scaled tolerances, and
the rotation matrix is also compared with an independent axis/angle
construction (rotation by 2*atan|r| about r/|r|).

Run as:  PYTHONPATH=<checkout root> /venv/bin/python -B demo.py
"""
import sys
import hashlib
import warnings
warnings.simplefilter('ignore')
import numpy as np
from xfab import tools, laue

rng = np.random.RandomState(1401)
fails = []


def fail(msg):
    fails.append(msg)
    if len(fails) <= 10:
        print('VIOLATION:', msg)


def axis_angle(r):
    """rotation by the angle 2*atan(|r|) about r (Rodrigues' rotation formula),
    transposed: that is the convention of xfab, where u_to_rod reads r from
    U[1,2]-U[2,1], U[2,0]-U[0,2], U[0,1]-U[1,0]"""
    r = np.asarray(r, float)
    nr = np.linalg.norm(r)
    if nr == 0:
        return np.eye(3)
    k = r / nr
    th = 2 * np.arctan(nr)
    K = np.array([[0, -k[2], k[1]], [k[2], 0, -k[0]], [-k[1], k[0], 0]])
    return (np.eye(3) + np.sin(th) * K + (1 - np.cos(th)) * K.dot(K)).T


def random_rod(rng, i):
    kind = i % 6
    if kind == 0:
        return rng.normal(size=3)
    if kind == 1:
        return rng.normal(size=3) * 10 ** rng.uniform(-8, -1)
    if kind == 2:                       # large angles (but not 180 degrees)
        return rng.normal(size=3) * 10 ** rng.uniform(0, 2)
    if kind == 3:                       # inside the cubic fundamental zone
        return rng.uniform(-0.4142, 0.4142, 3)
    if kind == 4:                       # along an axis / in a coordinate plane
        v = rng.normal(size=3)
        v[rng.randint(3)] = 0.0
        if rng.rand() < 0.5:
            v[rng.randint(3)] = 0.0
        return v
    return np.round(rng.uniform(-2, 2, 3), 1)   # short decimals, as in a .gff


cells = [[4.05, 4.05, 4.05, 90, 90, 90], [3.2, 3.2, 5.1, 90, 90, 120],
         [5.0, 6.0, 7.0, 90, 100, 90], [6.1, 7.2, 8.3, 82.0, 97.0, 105.0]]

n_in = 0
for i in range(600):
    r = random_rod(rng, i)
    forms = [r, list(r), tuple(r)]
    Ut = tools.rod_to_u(forms[i % 3])
    Ul = laue.rod_to_u(forms[(i + 1) % 3])
    tag = 'r=%r' % (r.tolist(),)
    n_in += 1
    for name, U in (('tools', Ut), ('laue', Ul)):
        if not isinstance(U, np.ndarray) or U.shape != (3, 3) or U.dtype != np.float64:
            fail('%s.rod_to_u: not a 3x3 float array: %s' % (name, tag))
    if fails:
        break
    # the property: both modules return the same rotation
    if not np.allclose(Ut, Ul, rtol=0, atol=1e-13):
        fail('rod_to_u: tools and laue differ by %g: %s' % (abs(Ut - Ul).max(), tag))
    # independent construction
    Ref = axis_angle(r)
    for name, U in (('tools', Ut), ('laue', Ul)):
        if abs(U - Ref).max() > 1e-12:
            fail('%s.rod_to_u is not the (transposed) rotation 2*atan|r| about r (off by %g): %s'
                 % (name, abs(U - Ref).max(), tag))
        if abs(U.dot(U.T) - np.eye(3)).max() > 1e-12 or abs(np.linalg.det(U) - 1) > 1e-12:
            fail('%s.rod_to_u is not a proper rotation: %s' % (name, tag))
    # what is built on it; r only up to moderate angles so that the maps are
    # well conditioned (1 + trace(U) = 4/(1+|r|^2) must stay away from 0)
    if np.dot(r, r) > 25:
        continue
    rt, rl = tools.u_to_rod(Ut), laue.u_to_rod(Ul)
    scale = 1 + np.dot(r, r)
    if abs(rt - rl).max() > 1e-12 * scale ** 2 or abs(rl - r).max() > 1e-11 * scale ** 2:
        fail('u_to_rod(rod_to_u(r)): tools %r laue %r: %s' % (rt.tolist(), rl.tolist(), tag))
    cell = cells[i % len(cells)]
    ubi_t = tools.u_to_ubi(Ut, cell)
    ubi_l = laue.u_to_ubi(Ul, cell)
    if not np.allclose(ubi_t, ubi_l, rtol=1e-11, atol=1e-11):
        fail('u_to_ubi: UBI must be the same in both modules: %s' % tag)
    Bt, Bl = tools.form_b_mat(cell), laue.form_b_mat(cell)
    if not np.allclose(Bt, 2 * np.pi * Bl, rtol=1e-12, atol=1e-14):
        fail('form_b_mat: ratio is not 2*pi')
    hkl = np.array([1., -2., 3.])
    if not np.allclose(Ut.dot(Bt).dot(hkl), 2 * np.pi * Ul.dot(Bl).dot(hkl), rtol=1e-11, atol=1e-11):
        fail('g-vector does not scale by 2*pi: %s' % tag)
    U2t, U2l = tools.ubi_to_u(ubi_t), laue.ubi_to_u(ubi_l)
    if not np.allclose(U2t, U2l, rtol=0, atol=1e-10) or not np.allclose(U2l, Ref, rtol=0, atol=1e-10):
        fail('ubi_to_u: %s' % tag)
    r2t, r2l = tools.ubi_to_rod(ubi_t), laue.ubi_to_rod(ubi_l)
    if abs(r2t - r2l).max() > 1e-10 * scale ** 2:
        fail('ubi_to_rod: tools %r laue %r: %s' % (r2t.tolist(), r2l.tolist(), tag))
    # Euler angles: compare through the rotation they stand for (no trouble
    # at the 0 / 2*pi wrap)
    et, el = tools.u_to_euler(Ut), laue.u_to_euler(Ul)
    Et, El = tools.euler_to_u(*et), laue.euler_to_u(*el)
    if abs(Et - El).max() > 1e-7 or abs(El - Ref).max() > 1e-7:
        fail('u_to_euler / euler_to_u: %s' % tag)

# ---------------------------------------------------------------- fingerprint
# raw bits of tools.rod_to_u and laue.rod_to_u for fixed inputs
fixed = [[0.1, 0.2, 0.3], [0.3, -0.25, 0.11], [1.5, 0.7, -2.2], [0.01, 0.02, -0.03],
         [0.4142, 0.4142, 0.4142], [-0.7, 0.9, 0.123456789], [3.3, -1.1, 0.6], [0.05, 0.9, -0.35]]
ht, hl = hashlib.sha256(), hashlib.sha256()
nbit = 0
for r in fixed:
    a = np.ascontiguousarray(tools.rod_to_u(r))
    b = np.ascontiguousarray(laue.rod_to_u(r))
    ht.update(a.tobytes())
    hl.update(b.tobytes())
    nbit += int((a != b).sum())
print('FINGERPRINT: rod_to_u raw bits tools=%s laue=%s entries_where_tools!=laue=%d/72'
      % (ht.hexdigest()[:16], hl.hexdigest()[:16], nbit))

print('%d inputs, %d violations' % (n_in, len(fails)))
sys.exit(1 if fails else 0)
