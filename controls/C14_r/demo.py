"""C14 control r: xfab.tools and xfab.laue must agree on u_to_euler (and friends).

The property is tested by comparing the two modules with each other on a few
hundred rotations (generic, exactly at gimbal lock PHI=0 / PHI=pi, and close to
it).  In addition the angles are validated with an independent Bunge matrix:
whatever representative is returned at gimbal lock, it must reproduce U and lie
in [0, 2*pi].  Which representative is returned is NOT part of the property.
"""
import sys
import hashlib
import numpy as np
from xfab import tools, laue


def bunge(p1, P, p2):
    """independent Z-X-Z (Bunge) matrix, U = Rz(p1) Rx(P) Rz(p2)"""
    def rz(a):
        return np.array([[np.cos(a), -np.sin(a), 0.], [np.sin(a), np.cos(a), 0.], [0., 0., 1.]])

    def rx(a):
        return np.array([[1., 0., 0.], [0., np.cos(a), -np.sin(a)], [0., np.sin(a), np.cos(a)]])
    return rz(p1).dot(rx(P)).dot(rz(p2))


rng = np.random.RandomState(1414)
cases = []
# generic rotations
for _ in range(200):
    cases.append(('generic', rng.uniform(0, 2*np.pi), rng.uniform(0.01, np.pi-0.01), rng.uniform(0, 2*np.pi)))
# exact gimbal lock
for _ in range(80):
    cases.append(('lock0', rng.uniform(0, 2*np.pi), 0.0, rng.uniform(0, 2*np.pi)))
    cases.append(('lockpi', rng.uniform(0, 2*np.pi), np.pi, rng.uniform(0, 2*np.pi)))
# close to gimbal lock, both sides of the internal tolerance
for _ in range(80):
    d = 10.0**rng.uniform(-12, -4)
    cases.append(('near0', rng.uniform(0, 2*np.pi), d, rng.uniform(0, 2*np.pi)))
    cases.append(('nearpi', rng.uniform(0, 2*np.pi), np.pi-d, rng.uniform(0, 2*np.pi)))
# special angles
for a in (0., np.pi/2, np.pi, 3*np.pi/2):
    for P in (0., np.pi):
        for b in (0., np.pi/2, np.pi, 3*np.pi/2):
            cases.append(('special', a, P, b))

bad = 0
for (kind, p1, P, p2) in cases:
    U = bunge(p1, P, p2)
    # euler_to_u is one of the duplicated functions as well
    Ut = tools.euler_to_u(p1, P, p2)
    Ul = laue.euler_to_u(p1, P, p2)
    if not np.array_equal(Ut, Ul) or np.abs(Ut-U).max() > 1e-12:
        print('euler_to_u differs', kind, p1, P, p2)
        bad += 1
    et = np.asarray(tools.u_to_euler(U), float)
    el = np.asarray(laue.u_to_euler(U), float)
    if et.shape != (3,) or el.shape != (3,) or np.abs(et-el).max() > 1e-12:
        print('u_to_euler: tools and laue disagree', kind, (p1, P, p2), et, el)
        bad += 1
        continue
    for e in (et, el):
        if not (np.all(e >= 0) and np.all(e <= 2*np.pi)):
            print('angle out of [0,2pi]', kind, e)
            bad += 1
        if np.abs(bunge(*e) - U).max() > 1e-7:
            print('angles do not reproduce U', kind, (p1, P, p2), e)
            bad += 1
    # u_to_rod / rod_to_u of the same U, for good measure
    if abs(1 + np.trace(U)) > 1e-6:
        rt, rl = tools.u_to_rod(U), laue.u_to_rod(U)
        if np.abs(np.asarray(rt)-np.asarray(rl)).max() > 1e-12*max(1., np.abs(rt).max()):
            print('u_to_rod differs', kind)
            bad += 1

# documented factor on B
for _ in range(50):
    cell = [rng.uniform(3, 9), rng.uniform(3, 9), rng.uniform(3, 9),
            rng.uniform(75, 105), rng.uniform(75, 105), rng.uniform(75, 105)]
    if np.abs(tools.form_b_mat(cell) - 2*np.pi*laue.form_b_mat(cell)).max() > 1e-12:
        print('B not 2 pi', cell)
        bad += 1

# fingerprint: raw output at a few fixed gimbal-lock inputs
fixed = [(0.3, 0.0, 0.4), (1.0, np.pi, 0.25), (2.0, 0.0, 5.0), (0.5, np.pi, 2.5)]
raw = []
for f in fixed:
    raw.append(['%.9f' % v for v in tools.u_to_euler(bunge(*f))])
    raw.append(['%.9f' % v for v in laue.u_to_euler(bunge(*f))])
print('FINGERPRINT: %s first=%s' % (hashlib.sha1(repr(raw).encode()).hexdigest()[:12], raw[0]))
print('cases %d, violations %d' % (len(cases), bad))
sys.exit(1 if bad else 0)
