"""C14 control s: the reflection generators of xfab.tools and xfab.laue must
produce identical reflection lists (and identical sin(theta)/lambda).

Compared pairwise between the modules, by VALUE: the statement does not fix the
numeric type in which the whole numbers h, k, l are handed back, nor (for
genhkl_all, which orders the symmetry equivalents with random numbers) the order
of the rows.  In addition every list is validated with an independent
metric-tensor computation of sin(theta)/lambda and, for the primitive groups, a
brute-force enumeration of all hkl in the shell.
"""
import sys
import hashlib
import itertools
import numpy as np
from xfab import tools, laue, sg


def my_stl(cell, hkl):
    a, b, c = cell[:3]
    al, be, ga = np.radians(cell[3:6])
    G = np.array([[a*a, a*b*np.cos(ga), a*c*np.cos(be)],
                  [a*b*np.cos(ga), b*b, b*c*np.cos(al)],
                  [a*c*np.cos(be), b*c*np.cos(al), c*c]])
    Gs = np.linalg.inv(G)
    hkl = np.atleast_2d(np.asarray(hkl, float))
    return 0.5*np.sqrt(np.einsum('ij,jk,ik->i', hkl, Gs, hkl))


def rows(H):
    """value-based canonical form of a reflection list: sorted tuples of floats"""
    H = np.asarray(H)
    return sorted(tuple(float(v) for v in r[:3]) for r in H)


rng = np.random.RandomState(14019)


def cell_for(system):
    a, b, c = rng.uniform(3.0, 6.5, 3)
    if system == 'triclinic':
        return [a, b, c, rng.uniform(80, 100), rng.uniform(80, 100), rng.uniform(80, 100)]
    if system == 'monoclinic':
        return [a, b, c, 90., rng.uniform(92, 115), 90.]
    if system == 'orthorhombic':
        return [a, b, c, 90., 90., 90.]
    if system == 'tetragonal':
        return [a, a, c, 90., 90., 90.]
    if system == 'hexagonal':
        return [a, a, c, 90., 90., 120.]
    return [a, a, a, 90., 90., 90.]


groups = [('triclinic', 1), ('triclinic', 2), ('monoclinic', 4), ('monoclinic', 14), ('monoclinic', 15),
          ('orthorhombic', 16), ('orthorhombic', 47), ('orthorhombic', 19), ('orthorhombic', 62), ('orthorhombic', 63), ('orthorhombic', 70),
          ('tetragonal', 88), ('tetragonal', 136), ('tetragonal', 141),
          ('hexagonal', 147), ('hexagonal', 164), ('hexagonal', 176), ('hexagonal', 194),
          ('cubic', 205), ('cubic', 225), ('cubic', 227), ('cubic', 229)]
# brute-force completeness only where the pristine generator is complete:
# for oblique triclinic cells it is known to stop early in some rows (both modules alike)
primitive_no_absences = (16, 47)

bad = 0
ncalls = 0
fp = []


def complain(*a):
    global bad
    bad += 1
    print('VIOLATION', *a)


for rep in range(3):
    for (system, sgno) in groups:
        cell = cell_for(system)
        smin = rng.choice([0.0, 0.08, 0.15])
        smax = rng.uniform(0.28, 0.42)
        spg = sg.sg(sgno=sgno)
        kw = dict(crystal_system=spg.crystal_system, Laue_class=spg.Laue, cell_choice=spg.cell_choice)

        # --- genhkl_base, indices only and with stl
        for stl_flag in (None, True):
            Ht = tools.genhkl_base(cell, spg.syscond, smin, smax, output_stl=stl_flag, **kw)
            Hl = laue.genhkl_base(cell, spg.syscond, smin, smax, output_stl=stl_flag, **kw)
            ncalls += 2
            if np.shape(Ht) != np.shape(Hl) or not np.array_equal(np.asarray(Ht, float), np.asarray(Hl, float)):
                complain('genhkl_base', sgno, cell, stl_flag)
        # --- genhkl_unique
        for stl_flag in (False, True):
            Ht = tools.genhkl_unique(cell, smin, smax, sgno=sgno, output_stl=stl_flag)
            Hl = laue.genhkl_unique(cell, smin, smax, sgno=sgno, output_stl=stl_flag)
            ncalls += 2
            if np.shape(Ht) != np.shape(Hl) or not np.array_equal(np.asarray(Ht, float), np.asarray(Hl, float)):
                complain('genhkl_unique', sgno, cell, stl_flag)
            if stl_flag and len(Ht):
                if np.abs(my_stl(cell, Hl[:, :3]) - Hl[:, 3]).max() > 1e-10:
                    complain('genhkl_unique stl column wrong', sgno, cell)
        # --- genhkl_all: rows in random order -> compare as sets of values
        for stl_flag in (False, True):
            Ht = tools.genhkl_all(cell, smin, smax, sgno=sgno, output_stl=stl_flag)
            Hl = laue.genhkl_all(cell, smin, smax, sgno=sgno, output_stl=stl_flag)
            ncalls += 2
            rt, rl = rows(Ht), rows(Hl)
            if np.shape(Ht) != np.shape(Hl) or rt != rl:
                complain('genhkl_all', sgno, cell, stl_flag)
                continue
            if len(set(rl)) != len(rl):
                complain('genhkl_all duplicates', sgno, cell)
            if any(v != round(v) for r in rl for v in r):
                complain('non-integral index', sgno)
            if len(rl):
                s = my_stl(cell, rl)
                tol = 1e-9
                if s.min() <= smin - tol or s.max() > smax + tol:
                    complain('genhkl_all outside the shell', sgno, cell, s.min(), s.max())
                if stl_flag:
                    for Hx in (Ht, Hl):
                        if np.abs(my_stl(cell, Hx[:, :3]) - Hx[:, 3]).max() > 1e-10:
                            complain('genhkl_all stl column wrong', sgno, cell)
            if sgno in primitive_no_absences and not stl_flag:
                m = int(np.ceil(2*smax*max(cell[:3]))) + 2
                box = np.array(list(itertools.product(range(-m, m+1), repeat=3)), float)
                s = my_stl(cell, box)
                # stay away from the shell edges, where rounding decides
                inside = (s > smin + 1e-9) & (s <= smax - 1e-9) & (np.abs(box).sum(axis=1) > 0)
                want = set(tuple(r) for r in box[inside])
                if not want.issubset(set(rl)):
                    complain('genhkl_all incomplete', sgno, cell, len(want), len(rl))
        # --- the outdated genhkl (triclinic segments only)
        if system == 'triclinic':
            for stl_flag in (None, True):
                Ht = tools.genhkl(cell, spg.syscond, smin, smax, output_stl=stl_flag)
                Hl = laue.genhkl(cell, spg.syscond, smin, smax, output_stl=stl_flag)
                ncalls += 2
                if np.shape(Ht) != np.shape(Hl) or not np.array_equal(np.asarray(Ht, float), np.asarray(Hl, float)):
                    complain('genhkl', sgno, cell, stl_flag)

# fingerprint: raw representation of a few fixed outputs
cell = [4.04, 4.04, 4.04, 90., 90., 90.]
for mod in (tools, laue):
    H = mod.genhkl_unique(cell, 0., 0.3, sgno=225)
    fp.append((mod.__name__, str(np.asarray(H).dtype), repr(np.asarray(H)[:2].tolist())))
    spg = sg.sg(sgno=225)
    H = mod.genhkl_base(cell, spg.syscond, 0., 0.3, crystal_system=spg.crystal_system,
                        Laue_class=spg.Laue, cell_choice=spg.cell_choice)
    fp.append((mod.__name__, str(np.asarray(H).dtype), type(np.asarray(H)[0, 0]).__name__))
    H = mod.genhkl_all(cell, 0., 0.3, sgno=225)
    fp.append((mod.__name__, str(np.asarray(H).dtype), np.asarray(H).shape))
print('FINGERPRINT: %s %s' % (hashlib.sha1(repr(fp).encode()).hexdigest()[:12], fp[3]))
print('calls %d, violations %d' % (ncalls, bad))
sys.exit(1 if bad else 0)
