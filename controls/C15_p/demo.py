"""
C15 demo (control p): structure.multiplicity(position, group) must equal the
number of distinct points, modulo lattice translations, among the images of
the position under the operations of the group.

The oracle is exact: the operations are read from the sglib classes and
turned into rationals, the position is a vector of Fractions, the images are
reduced modulo 1 and counted with a set.  The library is given the same
position as floats, possibly shifted by lattice vectors, by name or by number
and setting.

Run as  PYTHONPATH=<checkout root> /venv/bin/python -B demo.py
"""
from __future__ import print_function
import sys
import random
import hashlib
from fractions import Fraction as F

import numpy as np
from xfab import structure, sglib, sg

GRID = [F(0), F(1, 8), F(1, 6), F(1, 4), F(1, 3), F(3, 8), F(1, 2),
        F(5, 8), F(2, 3), F(3, 4), F(5, 6), F(7, 8)]
GENERIC = [F(1371, 10000), F(2903, 10000), F(4127, 10000), F(719, 10000)]
RHOMBO = [146, 148, 155, 160, 161, 166, 167]


def exact_ops(no, cell_choice):
    obj = getattr(sglib, 'Sg%i' % no)(cell_choice=cell_choice)
    ops = []
    for r, t in zip(obj.rot, obj.trans):
        rot = [[int(v) for v in row] for row in r]
        tr = [F(float(v)).limit_denominator(24) for v in t]
        ops.append((rot, tr))
    assert len(ops) == obj.nsymop
    return ops


def exact_multiplicity(pos, ops):
    seen = set()
    for rot, tr in ops:
        img = tuple((sum(rot[i][j] * pos[j] for j in range(3)) + tr[i]) % 1
                    for i in range(3))
        seen.add(img)
    return len(seen)


def names_of(no):
    out = [k for k, v in sg.sgdic.items() if v == 'Sg%i' % no]
    return sorted(out)


def gen_position(rng):
    kind = rng.choice(['grid', 'grid', 'xxz', 'x2xz', 'x-xz', 'general'])
    if kind == 'grid':
        return [rng.choice(GRID) for _ in range(3)]
    x = rng.choice(GENERIC)
    z = rng.choice(GRID + GENERIC[2:])
    if kind == 'xxz':
        return [x, x, z]
    if kind == 'x2xz':
        return [x, 2 * x, z]
    if kind == 'x-xz':
        return [x, -x, z]
    return [GENERIC[0], GENERIC[1], GENERIC[2]]


def main():
    rng = random.Random(1515)
    settings = [(no, 'standard') for no in range(1, 231)]
    settings += [(no, 'rhombohedral') for no in RHOMBO]
    assert len(settings) == 237
    bad = 0
    ncases = 0
    for no, cc in settings:
        ops = exact_ops(no, cc)
        for rep in range(3):
            pos = gen_position(rng)
            want = exact_multiplicity(pos, ops)
            shift = [rng.randint(-2, 2) for _ in range(3)] if rep else [0, 0, 0]
            fpos = [float(p + s) for p, s in zip(pos, shift)]
            if rep == 1:
                arg = np.array(fpos)
            else:
                arg = fpos
            if rep == 2:
                # by name; the rhombohedral setting is selected by the
                # trailing r of the name
                nm = [k for k in names_of(no)
                      if (k[0] == 'r' and k[-1] == 'r') == (cc == 'rhombohedral')]
                name = rng.choice(nm)
                got = structure.multiplicity(arg, sgname=name)
                how = 'sgname=%r' % name
            else:
                got = structure.multiplicity(arg, sgno=no, cell_choice=cc)
                how = 'sgno=%i, cell_choice=%r' % (no, cc)
            ncases += 1
            if got != want or int(got) != got:
                bad += 1
                if bad <= 20:
                    print('MISMATCH %s pos=%s shift=%s: got %r, exact %r'
                          % (how, [str(p) for p in pos], shift, got, want))
    print('%i cases checked, %i mismatches' % (ncases, bad))

    # ------------------------------------------------------------------
    # fingerprint: things the property leaves open
    fp = []
    # (1) positions closer than the merging tolerance to a rotation axis
    #     (outside the rational grid / generic-x families): the count depends
    #     on how a non-transitive "nearly equal" relation is resolved
    e = 0.4e-5
    for name, p in [('P4', [e, e, 0.1]), ('P4', [0.5 + e, 0.5 + e, 0.3]),
                    ('P6', [e, 2 * e, 0.2]), ('P4/m', [e, e, 0.25 * e]),
                    ('Fm-3m', [e, e, e]),
                    ('P422', [0.5000022, 0.5000018, 4.3e-06]),
                    ('P4/m', [0.4999962, 0.5000046, 0.4999977]),
                    ('P23', [0.4999972, 1.2e-06, 0.5000027]),
                    ('P6/mmm', [4.6e-06, -2.9e-06, 0.5000026])]:
        fp.append('%s%s->%r' % (name, p, structure.multiplicity(p, sgname=name)))
    # (2) a column vector as position
    try:
        r = structure.multiplicity(np.array([[0.1], [0.2], [0.3]]), sgname='P21/c')
        fp.append('column->%r' % (r,))
    except Exception as exc:
        fp.append('column->%s' % type(exc).__name__)
    # (3) numpy calls made by one multiplicity() evaluation
    counts = {}

    class Proxy(object):
        def __getattr__(self, name):
            val = getattr(np, name)
            if name in ('dot', 'concatenate', 'round', 'tril'):
                def wrapped(*a, **k):
                    counts[name] = counts.get(name, 0) + 1
                    return val(*a, **k)
                return wrapped
            return val
    saved = structure.n
    structure.n = Proxy()
    try:
        structure.multiplicity([0.0, 0.21, 0.21], sgname='Fm-3m')
    finally:
        structure.n = saved
    fp.append('calls=' + ','.join('%s:%i' % kv for kv in sorted(counts.items())))
    text = ' | '.join(fp)
    print('FINGERPRINT: %s  %s' % (hashlib.sha1(text.encode()).hexdigest()[:12], text))
    return 1 if bad else 0


if __name__ == '__main__':
    sys.exit(main())
