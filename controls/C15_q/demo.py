"""
C15 demo (control q): structure.multiplicity(position, group) must equal the
number of distinct points, modulo lattice translations, among the images of
the position under the operations of the group.

The oracle is exact: the operations are read from the sglib classes and
turned into rationals, the position is a vector of Fractions, the images are
reduced modulo 1 and counted with a set.  The library is given the same
position as floats, possibly shifted by lattice vectors, by name or by number
and setting.

Run as  PYTHONPATH=<checkout root> /venv/bin/python -B demo.py
"""
from __future__ import print_function
import sys
import random
import hashlib
from fractions import Fraction as F

import numpy as np
from xfab import structure, sglib, sg

GRID = [F(0), F(1, 8), F(1, 6), F(1, 4), F(1, 3), F(3, 8), F(1, 2),
        F(5, 8), F(2, 3), F(3, 4), F(5, 6), F(7, 8)]
GENERIC = [F(1371, 10000), F(2903, 10000), F(4127, 10000), F(719, 10000)]
RHOMBO = [146, 148, 155, 160, 161, 166, 167]


def exact_ops(no, cell_choice):
    obj = getattr(sglib, 'Sg%i' % no)(cell_choice=cell_choice)
    ops = []
    for r, t in zip(obj.rot, obj.trans):
        rot = [[int(v) for v in row] for row in r]
        tr = [F(float(v)).limit_denominator(24) for v in t]
        ops.append((rot, tr))
    assert len(ops) == obj.nsymop
    return ops


def exact_multiplicity(pos, ops):
    seen = set()
    for rot, tr in ops:
        img = tuple((sum(rot[i][j] * pos[j] for j in range(3)) + tr[i]) % 1
                    for i in range(3))
        seen.add(img)
    return len(seen)


def names_of(no):
    out = [k for k, v in sg.sgdic.items() if v == 'Sg%i' % no]
    return sorted(out)


def gen_position(rng):
    kind = rng.choice(['grid', 'grid', 'xxz', 'x2xz', 'x-xz', 'general'])
    if kind == 'grid':
        return [rng.choice(GRID) for _ in range(3)]
    x = rng.choice(GENERIC)
    z = rng.choice(GRID + GENERIC[2:])
    if kind == 'xxz':
        return [x, x, z]
    if kind == 'x2xz':
        return [x, 2 * x, z]
    if kind == 'x-xz':
        return [x, -x, z]
    return [GENERIC[0], GENERIC[1], GENERIC[2]]


def main():
    rng = random.Random(1515)
    settings = [(no, 'standard') for no in range(1, 231)]
    settings += [(no, 'rhombohedral') for no in RHOMBO]
    assert len(settings) == 237
    bad = 0
    ncases = 0
    for no, cc in settings:
        ops = exact_ops(no, cc)
        for rep in range(3):
            pos = gen_position(rng)
            want = exact_multiplicity(pos, ops)
            shift = [rng.randint(-2, 2) for _ in range(3)] if rep else [0, 0, 0]
            fpos = [float(p + s) for p, s in zip(pos, shift)]
            if rep == 1:
                arg = np.array(fpos)
            else:
                arg = fpos
            if rep == 2:
                # by name; the rhombohedral setting is selected by the
                # trailing r of the name
                nm = [k for k in names_of(no)
                      if (k[0] == 'r' and k[-1] == 'r') == (cc == 'rhombohedral')]
                name = rng.choice(nm)
                got = structure.multiplicity(arg, sgname=name)
                how = 'sgname=%r' % name
            else:
                got = structure.multiplicity(arg, sgno=no, cell_choice=cc)
                how = 'sgno=%i, cell_choice=%r' % (no, cc)
            ncases += 1
            if got != want or int(got) != got:
                bad += 1
                if bad <= 20:
                    print('MISMATCH %s pos=%s shift=%s: got %r, exact %r'
                          % (how, [str(p) for p in pos], shift, got, want))
    print('%i cases checked, %i mismatches' % (ncases, bad))

    # ------------------------------------------------------------------
    # fingerprint: the raw translation parts handed out by sg.sg for a few
    # groups with 1/3, 1/6 screw / centring translations (the property only
    # needs them modulo the lattice and to within the merging tolerance),
    # and the raw images of one position
    fp = []
    h = hashlib.sha1()
    for kw in [dict(sgname='P31'), dict(sgname='P6122'), dict(sgname='R-3c'),
               dict(sgno=167, cell_choice='rhombohedral'), dict(sgname='P21/c')]:
        g = sg.sg(**kw)
        t = np.ascontiguousarray(g.trans, dtype=float)
        h.update(t.tobytes())
        img = np.dot(g.rot, np.array([0.1371, 0.2903, 0.4127])) + g.trans
        h.update(np.ascontiguousarray(img, dtype=float).tobytes())
    g = sg.sg(sgname='P6122')
    fp.append('P6122 trans[1]=%r' % (g.trans[1].tolist(),))
    g = sg.sg(sgname='P31')
    fp.append('P31 trans[2]=%r' % (g.trans[2].tolist(),))
    fp.append('P31 (1/3,2/3,1/4)->%r'
              % structure.multiplicity([1 / 3., 2 / 3., 0.25], sgname='P31'))
    text = ' | '.join(fp)
    print('FINGERPRINT: %s  %s' % (h.hexdigest()[:12], text))
    return 1 if bad else 0


if __name__ == '__main__':
    sys.exit(main())
