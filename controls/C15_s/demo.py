"""
C15 control s: multiplicity() == size of the orbit modulo lattice translations.

Independent oracle: exact rational arithmetic (fractions.Fraction) on the
operations tabulated in xfab.sglib (translations snapped to n/12), orbit
collected as a set of points reduced modulo 1.  The subject is called with
floats, with lattice shifts, by name and by number + cell_choice.

Exit status 0 when every case agrees.  The FINGERPRINT line shows which
exception classes come out of calls that identify no space group at all
(no name and no number, unknown name, number without a table): inputs outside
the quantifier, about which the property says nothing.
"""
from __future__ import print_function
import sys
import inspect
import random
import numbers
import hashlib
from fractions import Fraction as F

import numpy as np
from xfab import structure, sglib, sg

GRID = [F(0), F(1, 8), F(1, 6), F(1, 4), F(1, 3), F(3, 8), F(1, 2), F(5, 8),
        F(2, 3), F(3, 4), F(5, 6), F(7, 8)]
XGEN = F(137, 1000)          # "generic" x


def settings():
    out = []
    for cname, klass in inspect.getmembers(sglib, inspect.isclass):
        if not cname.startswith('Sg'):
            continue
        no = int(cname[2:])
        choices = ['standard']
        if klass(cell_choice='rhombohedral').cell_choice == 'rhombohedral':
            choices.append('rhombohedral')
        for cc in choices:
            out.append((no, cc, klass))
    out.sort(key=lambda s: (s[0], s[1]))
    return out


def exact_ops(klass, cc):
    obj = klass(cell_choice=cc)
    rots = [[[int(v) for v in row] for row in r] for r in obj.rot]
    trs = [[F(float(v)).limit_denominator(12) for v in t] for t in obj.trans]
    assert len(rots) == len(trs) == obj.nsymop
    return obj, rots, trs


def orbit_size(rots, trs, pos):
    pts = set()
    for r, t in zip(rots, trs):
        p = tuple((sum(r[i][k] * pos[k] for k in range(3)) + t[i]) % 1
                  for i in range(3))
        pts.add(p)
    return len(pts)


def positions(rng):
    """positions of the quantifier: grid points and the x,x,z / x,2x,z /
    x,-x,z families with generic x"""
    kind = rng.randrange(5)
    g = lambda: rng.choice(GRID)
    if kind in (0, 1):
        return [g(), g(), g()]
    if kind == 2:
        return [XGEN, XGEN, g()]
    if kind == 3:
        return [XGEN, 2 * XGEN, g()]
    return [XGEN, -XGEN, g()]


def main():
    rng = random.Random(20261001)
    sets = settings()
    assert len(sets) == 237, len(sets)
    ncase = 0
    bad = 0
    # every setting once + extra random ones
    todo = list(sets) + [rng.choice(sets) for _ in range(163)]
    for no, cc, klass in todo:
        obj, rots, trs = exact_ops(klass, cc)
        pos = positions(rng)
        expect = orbit_size(rots, trs, pos)
        # also the textbook formula nsymop / |site symmetry|
        stab = sum(1 for r, t in zip(rots, trs)
                   if all(((sum(r[i][k] * pos[k] for k in range(3)) + t[i]
                            - pos[i]) % 1) == 0 for i in range(3)))
        assert obj.nsymop % stab == 0 and obj.nsymop // stab == expect, \
            (no, cc, pos)
        shift = [rng.randint(-2, 2) for _ in range(3)]
        fpos = [float(p) for p in pos]
        fshift = [float(p + s) for p, s in zip(pos, shift)]
        calls = []
        calls.append(('no', lambda q: structure.multiplicity(
            q, sgno=no, cell_choice=cc)))
        name = obj.name
        if name.replace(' ', '').lower() in sg.sgdic:
            # the name must lead to the same setting
            chk = sg.sg(sgname=name)
            if chk.no == no and chk.nsymop == obj.nsymop and \
               np.array_equal(chk.rot, np.array(obj.rot)):
                calls.append(('name', lambda q: structure.multiplicity(
                    q, sgname=name)))
        for tag, fn in calls:
            for q in (fpos, np.array(fpos), fshift, np.array(fshift)):
                ncase += 1
                got = fn(q)
                ok = (isinstance(got, numbers.Integral) and got == expect
                      and int(got) == expect)
                if not ok:
                    bad += 1
                    if bad < 10:
                        print('MISMATCH', no, cc, tag, q, 'got', repr(got),
                              'expected', expect)
    print('cases: %d  mismatches: %d' % (ncase, bad))

    # fingerprint: what happens OUTSIDE the quantifier, when no space group
    # can be identified (the property says nothing about these calls)
    probes = [('none', lambda: structure.multiplicity([0.1, 0.2, 0.3])),
              ('badname', lambda: structure.multiplicity([0.1, 0.2, 0.3],
                                                         sgname='P 99 x')),
              ('emptyname', lambda: structure.multiplicity([0.1, 0.2, 0.3],
                                                           sgname='')),
              ('badno', lambda: structure.multiplicity([0.1, 0.2, 0.3],
                                                       sgno=231)),
              ('sg()', lambda: sg.sg())]
    raw = []
    for tag, fn in probes:
        try:
            r = fn()
            raw.append('%s->returned %r' % (tag, r))
        except Exception as e:
            raw.append('%s->%s.%s' % (tag, type(e).__module__,
                                      type(e).__name__))
    txt = ';'.join(raw)
    print('FINGERPRINT: %s %s' % (hashlib.md5(txt.encode()).hexdigest()[:12],
                                  txt))
    return 1 if bad else 0


if __name__ == '__main__':
    sys.exit(main())
