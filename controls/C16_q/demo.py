"""
C16 demo: atomic form factors are physical.

For every entry of xfab.atomlib.formfactor
  * f(0) equals the atomic number Z within 0.1 electron,
  * f is positive and strictly decreasing on [0, 2] 1/Angstrom,
  * structure.FormFactor(el, s) equals  sum_i a_i exp(-b_i s^2) + c  with the
    nine tabulated coefficients (independent pure-Python evaluation).
Z comes from the periodic table below (by element SYMBOL, not from the position
of an entry in the table); monotonicity is also decided analytically: with all
a_i*b_i > 0 the derivative -2 s sum a_i b_i exp(-b_i s^2) is negative for s > 0.

Exit status 0 if the property holds, 1 otherwise.
Prints "FINGERPRINT: values=<hash> layout=<hash>":
  values = hash of the exact bit patterns FormFactor returns for fixed inputs,
  layout = hash of the order of the table keys and the container type of entries.
"""
from __future__ import print_function
import sys, math, random, hashlib, struct
import numpy as np
from xfab import atomlib, structure

PERIODIC = ("H HE LI BE B C N O F NE NA MG AL SI P S CL AR K CA SC TI V CR MN FE "
            "CO NI CU ZN GA GE AS SE BR KR RB SR Y ZR NB MO TC RU RH PD AG CD IN "
            "SN SB TE I XE CS BA LA CE PR ND PM SM EU GD TB DY HO ER TM YB LU HF "
            "TA W RE OS IR PT AU HG TL PB BI PO AT RN FR RA AC TH PA U NP PU").split()
ZOF = dict((sym, i + 1) for i, sym in enumerate(PERIODIC))

bad = []
def fail(msg):
    bad.append(msg)
    if len(bad) <= 20:
        print("VIOLATION:", msg)

def ref(coef, s):
    """independent evaluation, pure Python, exactly rounded sum"""
    a = [float(x) for x in coef[0:4]]
    b = [float(x) for x in coef[4:8]]
    c = float(coef[8])
    return math.fsum([a[i] * math.exp(-b[i] * s * s) for i in range(4)] + [c])

table = atomlib.formfactor
if len(table) != 94:
    fail("table has %d entries, expected 94" % len(table))
if sorted(table) != sorted(PERIODIC):
    fail("table keys are not the 94 elements H..Pu")

rng = random.Random(16)
grid = np.linspace(0.0, 2.0, 401)
ncases = 0
for el in sorted(table):
    coef = table[el]
    if len(coef) != 9:
        fail("%s: %d coefficients" % (el, len(coef)))
        continue
    Z = ZOF.get(el)
    if Z is None:
        continue
    # f(0) = Z
    f0 = float(structure.FormFactor(el, 0.0))
    if not abs(f0 - Z) <= 0.1:
        fail("%s: f(0) = %r, Z = %d" % (el, f0, Z))
    # FormFactor is the nine-coefficient formula: grid (as an array) ...
    fg = np.asarray(structure.FormFactor(el, grid), dtype=float)
    if fg.shape != grid.shape:
        fail("%s: shape %r for a grid of shape %r" % (el, fg.shape, grid.shape))
        continue
    rg = np.array([ref(coef, float(s)) for s in grid])
    if not np.all(np.abs(fg - rg) <= 1e-11 * np.maximum(1.0, np.abs(rg))):
        fail("%s: FormFactor differs from sum a_i exp(-b_i s^2) + c on the grid "
             "(max %g)" % (el, np.max(np.abs(fg - rg))))
    # ... and scalars at random places
    for _ in range(4):
        s = rng.uniform(0.0, 2.0)
        v = float(structure.FormFactor(el, s))
        r = ref(coef, s)
        ncases += 1
        if not abs(v - r) <= 1e-11 * max(1.0, abs(r)):
            fail("%s: FormFactor(%r) = %r, formula %r" % (el, s, v, r))
    # positive and strictly decreasing on the grid
    if not np.all(fg > 0):
        fail("%s: not positive, min %r" % (el, fg.min()))
    if not np.all(np.diff(fg) < 0):
        k = int(np.argmax(np.diff(fg) >= 0))
        fail("%s: not decreasing between s=%r and s=%r" % (el, grid[k], grid[k + 1]))
    # analytic decision where possible; otherwise a much finer grid
    ab = [float(coef[i]) * float(coef[i + 4]) for i in range(4)]
    if not all(x > 0 for x in ab):
        fine = np.linspace(0.0, 2.0, 40001)
        ff = np.asarray(structure.FormFactor(el, fine), dtype=float)
        if not np.all(np.diff(ff) < 0):
            fail("%s: mixed signs of a_i*b_i and not decreasing on the fine grid" % el)
    # since f decreases its minimum is at s = 2
    if not ref(coef, 2.0) > 0:
        fail("%s: formula value at s=2 is %r" % (el, ref(coef, 2.0)))

# ---------------------------------------------------------------- fingerprint
h = hashlib.sha1()
for el in ("H", "C", "N", "O", "FE", "MO", "W", "PU"):
    for s in (0.0, 0.05, 0.123456789, 0.3, 0.5, 0.77, 1.0, 1.3, 1.7, 2.0):
        h.update(struct.pack("<d", float(structure.FormFactor(el, s))))
values = h.hexdigest()[:12]
lay = hashlib.sha1((",".join(list(table)) + "|" +
                    ",".join(sorted(set(type(v).__name__ for v in table.values())))
                    ).encode()).hexdigest()[:12]
print("checked %d elements, %d grid points each, %d random scalars"
      % (len(table), len(grid), ncases))
print("FINGERPRINT: values=%s layout=%s (first keys %s, entries %s)"
      % (values, lay, " ".join(list(table)[:5]),
         "/".join(sorted(set(type(v).__name__ for v in table.values())))))
if bad:
    print("FAIL: %d violations" % len(bad))
    sys.exit(1)
print("OK")
sys.exit(0)
