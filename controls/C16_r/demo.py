"""Demo for control C16_r: the form-factor table is listed in a different
(alphabetical) order.  The property (f(0)=Z within 0.1 e, f>0 and strictly
decreasing on [0,2], FormFactor == sum a_i exp(-b_i s^2) + c of the nine
tabulated coefficients) is checked with an independent computation; atomic
numbers come from an independent periodic-table list, never from the position
of an entry in the table."""
import sys, math, hashlib
import numpy as np
from xfab import atomlib, structure

PERIODIC = ("H HE LI BE B C N O F NE NA MG AL SI P S CL AR K CA SC TI V CR MN "
            "FE CO NI CU ZN GA GE AS SE BR KR RB SR Y ZR NB MO TC RU RH PD AG "
            "CD IN SN SB TE I XE CS BA LA CE PR ND PM SM EU GD TB DY HO ER TM "
            "YB LU HF TA W RE OS IR PT AU HG TL PB BI PO AT RN FR RA AC TH PA "
            "U NP PU").split()
Z = dict((sym, i + 1) for i, sym in enumerate(PERIODIC))

bad = []
table = atomlib.formfactor
if sorted(table.keys()) != sorted(PERIODIC):
    bad.append("table does not hold exactly the 94 elements H..Pu")

grid = [2.0 * i / 400 for i in range(401)]          # 94 x 401 inputs
for sym in PERIODIC:
    co = [float(x) for x in table[sym]]
    if len(co) != 9:
        bad.append("%s: %d coefficients" % (sym, len(co)))
        continue
    a, b, c = co[0:4], co[4:8], co[8]
    ref = [math.fsum(a[i] * math.exp(-b[i] * s * s) for i in range(4)) + c
           for s in grid]
    got = [float(structure.FormFactor(sym, s)) for s in grid]
    vec = np.asarray(structure.FormFactor(sym, np.array(grid)), dtype=float)
    for s, r, g, v in zip(grid, ref, got, vec):
        if abs(r - g) > 1e-9 * max(1.0, abs(r)) or abs(r - v) > 1e-9 * max(1.0, abs(r)):
            bad.append("%s: FormFactor(%g)=%r, nine-coefficient sum=%r" % (sym, s, g, r))
            break
    if abs(got[0] - Z[sym]) > 0.1:
        bad.append("%s: f(0)=%r but Z=%d" % (sym, got[0], Z[sym]))
    if min(got) <= 0.0:
        bad.append("%s: f not positive on [0,2] (min %r)" % (sym, min(got)))
    if any(got[i + 1] >= got[i] for i in range(len(got) - 1)):
        bad.append("%s: f not strictly decreasing on the grid" % sym)

keys = list(table.keys())
vals = ["%r" % float(structure.FormFactor(k, s))
        for k in ("H", "FE", "PU") for s in (0.0, 0.5, 2.0)]
fp = hashlib.sha1((",".join(keys) + "|" + ",".join(vals)).encode()).hexdigest()[:16]
print("FINGERPRINT: %s first-keys=%s" % (fp, keys[:5]))
if bad:
    print("PROPERTY VIOLATED (%d):" % len(bad))
    for m in bad[:20]:
        print("  ", m)
    sys.exit(1)
print("OK: property C16 holds for 94 elements x %d grid points" % len(grid))
