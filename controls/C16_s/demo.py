"""Demo for control C16_s: FormFactor treats arguments OUTSIDE the tabulated
range differently (negative sin(theta)/lambda refused, value floored at zero
beyond 2.0 1/Angstrom).  Inside the quantifier of the property, s in [0,2] for
the 94 table entries, nothing may change: f(0)=Z within 0.1 e, f>0 and strictly
decreasing, FormFactor == sum a_i exp(-b_i s^2) + c of the nine tabulated
coefficients.  All of that is checked with an independent computation, for
scalar and for array arguments."""
import sys, math, hashlib
import numpy as np
from xfab import atomlib, structure

PERIODIC = ("H HE LI BE B C N O F NE NA MG AL SI P S CL AR K CA SC TI V CR MN "
            "FE CO NI CU ZN GA GE AS SE BR KR RB SR Y ZR NB MO TC RU RH PD AG "
            "CD IN SN SB TE I XE CS BA LA CE PR ND PM SM EU GD TB DY HO ER TM "
            "YB LU HF TA W RE OS IR PT AU HG TL PB BI PO AT RN FR RA AC TH PA "
            "U NP PU").split()
Z = dict((sym, i + 1) for i, sym in enumerate(PERIODIC))

bad = []
table = atomlib.formfactor
if sorted(table.keys()) != sorted(PERIODIC):
    bad.append("table does not hold exactly the 94 elements H..Pu")

grid = [2.0 * i / 500 for i in range(501)]          # 94 x 501 inputs, 0 and 2.0 included
for sym in PERIODIC:
    co = [float(x) for x in table[sym]]
    if len(co) != 9:
        bad.append("%s: %d coefficients" % (sym, len(co)))
        continue
    a, b, c = co[0:4], co[4:8], co[8]
    ref = [math.fsum(a[i] * math.exp(-b[i] * s * s) for i in range(4)) + c
           for s in grid]
    got = [float(structure.FormFactor(sym, s)) for s in grid]
    vec = np.asarray(structure.FormFactor(sym, np.array(grid)), dtype=float)
    if vec.shape != (len(grid),):
        bad.append("%s: array argument gives shape %r" % (sym, vec.shape))
        continue
    for s, r, g, v in zip(grid, ref, got, vec):
        if abs(r - g) > 1e-9 * max(1.0, abs(r)) or abs(r - v) > 1e-9 * max(1.0, abs(r)):
            bad.append("%s: FormFactor(%g)=%r / %r, nine-coefficient sum=%r" % (sym, s, g, v, r))
            break
    if abs(got[0] - Z[sym]) > 0.1:
        bad.append("%s: f(0)=%r but Z=%d" % (sym, got[0], Z[sym]))
    if min(got) <= 0.0 or vec.min() <= 0.0:
        bad.append("%s: f not positive on [0,2] (min %r)" % (sym, min(got)))
    if any(got[i + 1] >= got[i] for i in range(len(got) - 1)):
        bad.append("%s: f not strictly decreasing on the grid" % sym)

# raw behaviour for fixed arguments outside the quantifier (s < 0, s > 2)
def raw(sym, s):
    try:
        return "%r" % float(structure.FormFactor(sym, s))
    except Exception as e:
        return type(e).__name__
probe = [raw(k, s) for k in ("B", "N", "CL", "C") for s in (-0.5, 3.0, 4.0, 6.0)]
fp = hashlib.sha1(",".join(probe).encode()).hexdigest()[:16]
print("FINGERPRINT: %s B(-0.5)=%s B(4.0)=%s" % (fp, probe[0], probe[2]))
if bad:
    print("PROPERTY VIOLATED (%d):" % len(bad))
    for m in bad[:20]:
        print("  ", m)
    sys.exit(1)
print("OK: property C16 holds for 94 elements x %d grid points" % len(grid))
