"""
C17 demo: CIF and PDB ingestion reproduces what the file states.

Run as:  PYTHONPATH=<checkout root> /venv/bin/python -B demo.py

Generates a few hundred CIF files and PDB files, reads them with
xfab.structure.build_atomlist and compares everything the property names
with values computed here from what was written to the file.  Exit code 0
when the property holds, 1 otherwise.  Also prints a FINGERPRINT line
(FP_MODE selects what it is taken from).
"""
from __future__ import print_function
import sys, os, math, random, tempfile, hashlib, shutil, logging
import numpy as np

FP_MODE = 'pdb'          # 'cif' or 'pdb'

logging.disable(logging.CRITICAL)
import warnings
warnings.simplefilter('ignore')

from xfab import structure, sg as sgmod

B2U = 1.0 / (8 * math.pi ** 2)
failures = []


def fail(msg):
    failures.append(msg)
    if len(failures) <= 15:
        print('VIOLATION:', msg)


def close(a, b, rel=1e-12, abs_=1e-14):
    return math.isclose(float(a), float(b), rel_tol=rel, abs_tol=abs_)


def as_floats(v):
    return [float(t) for t in np.asarray(v, dtype=float).ravel()]


# --------------------------------------------------------------------------
# independent orbit count (site multiplicity)
_sgcache = {}


def symops(name):
    key = ''.join(name.split()).lower()
    if key not in _sgcache:
        o = sgmod.sg(sgname=key)
        _sgcache[key] = (np.array(o.rot, float), np.array(o.trans, float))
    return _sgcache[key]


def orbit_size(name, pos):
    """number of images distinct modulo 1; None when too close to call"""
    rot, trans = symops(name)
    imgs = rot.dot(np.asarray(pos, float)) + trans
    uniq = []
    for p in imgs:
        same = False
        for q in uniq:
            d = p - q
            d = np.abs(d - np.round(d)).sum()
            if d < 1e-8:
                same = True
                break
            if d < 1e-3:
                return None      # ambiguous, do not judge
        if not same:
            uniq.append(p)
    return len(uniq)


# --------------------------------------------------------------------------
# CIF generation
CIF_SYMBOLS = ['P 1', 'P -1', 'P 21', 'P 21/c', 'C 2/c', 'P 21 21 21', 'P n m a',
               'Pnma', 'C m c a', 'F d d 2', 'I 41/a', 'P 43 21 2', 'P 31 2 1',
               'P 3 1 2', 'R -3 c', 'P 63/m m c', 'P 6 2 2', 'P a -3', 'F m -3 m',
               'I a -3 d', 'F d -3 m', 'P 4/m m m', 'I 4/m c m', 'P b c a', 'C 2',
               'P  21/n', 'I m m m', 'P -4 21 m', 'P 63', 'I 21 3']
ELEMENTS = ['C', 'N', 'O', 'H', 'S', 'Fe', 'Si', 'Cl', 'Na', 'Cu', 'Zn', 'P', 'Al']
SPECIAL = ['0', '0.0', '0.25', '0.5', '0.75', '0.5000', '0.125', '1.0']


def num_token(rng, lo, hi, ndec, esd):
    v = rng.uniform(lo, hi)
    s = '%.*f' % (ndec, v)
    val = float(s)
    if esd:
        s += '(%d)' % rng.randint(1, 99)
    return s, val


def coord_token(rng, esd):
    if rng.random() < 0.3:
        s = rng.choice(SPECIAL)
        return s, float(s)
    return num_token(rng, -0.2, 1.2, rng.choice([3, 4, 5]), esd)


def make_cif(rng):
    """returns (text, blockname or None, expected dict)"""
    esd = rng.random() < 0.6
    exp = {}
    lines = []
    blk = 'blk%d' % rng.randint(1, 999)
    with_global = rng.random() < 0.3
    give_name = (not with_global and rng.random() < 0.5) or \
                (with_global and rng.random() < 0.3)
    glob = ['data_global', "_publ_contact_author_name 'A. N. Other'",
            '_journal_year 2008', '']
    if with_global and rng.random() < 0.5:
        lines += glob
        glob = None
    lines.append('data_' + blk)
    cell = []
    for key, lo, hi, nd in (('_cell_length_a', 3, 30, 4), ('_cell_length_b', 3, 30, 4),
                            ('_cell_length_c', 3, 30, 4), ('_cell_angle_alpha', 60, 120, 3),
                            ('_cell_angle_beta', 60, 120, 3), ('_cell_angle_gamma', 60, 120, 3)):
        s, v = num_token(rng, lo, hi, rng.choice([2, nd]), esd and rng.random() < 0.8)
        lines.append('%-34s %s' % (key, s))
        cell.append(v)
    exp['cell'] = cell
    sym = rng.choice(CIF_SYMBOLS)
    lines.append("_symmetry_space_group_name_H-M   '%s'" % sym)
    exp['sgname'] = ''.join(sym.split())

    natoms = rng.randint(1, 12)
    elems = [rng.choice(ELEMENTS) for _ in range(natoms)]
    # atom type loop
    mode = rng.choice(['disp', 'nodisp', 'noloop'])
    disp = {}
    types = []
    for e in elems:
        if e not in types:
            types.append(e)
    if mode == 'disp':
        lines += ['loop_', '_atom_type_symbol', '_atom_type_description',
                  '_atom_type_scat_dispersion_real', '_atom_type_scat_dispersion_imag']
        for e in types:
            s1, v1 = num_token(rng, -1, 1, 4, False)
            s2, v2 = num_token(rng, 0, 3, 4, False)
            lines.append('%s %s %s %s' % (e, e, s1, s2))
            disp[e.upper()] = [v1, v2]
    elif mode == 'nodisp':
        lines += ['loop_', '_atom_type_symbol', '_atom_type_description']
        for e in types:
            lines.append('%s %s' % (e, e))
            disp[e.upper()] = None
    else:
        for e in types:
            disp[e.upper()] = None
    exp['disp'] = disp

    adp_col = rng.random() < 0.85
    occ_col = rng.random() < 0.6
    multikey = rng.choice([None, '_atom_site_symmetry_multiplicity',
                           '_atom_site_symetry_multiplicity'])
    bset = rng.random() < 0.5      # B flavoured or U flavoured file
    head = ['loop_', '_atom_site_label', '_atom_site_type_symbol',
            '_atom_site_fract_x', '_atom_site_fract_y', '_atom_site_fract_z']
    isokey = '_atom_site_B_iso_or_equiv' if bset else '_atom_site_U_iso_or_equiv'
    if adp_col:
        head += [isokey, '_atom_site_adp_type']
    if occ_col:
        head.append('_atom_site_occupancy')
    if multikey:
        head.append(multikey)
    lines += head
    atoms = []
    aniso_rows = []
    count = {}
    for e in elems:
        count[e] = count.get(e, 0) + 1
        label = '%s%d' % (e, count[e])
        if rng.random() < 0.2:
            label += rng.choice(['A', 'B', "'"])
        row = [label, e]
        pos = []
        for _ in range(3):
            s, v = coord_token(rng, esd)
            row.append(s)
            pos.append(v)
        at = {'label': label, 'atomtype': e.upper(), 'pos': pos}
        if adp_col:
            s, v = num_token(rng, 0.005, 6.0 if bset else 0.09, 4, esd and rng.random() < 0.7)
            kind = rng.choice(['iso', 'ani'])
            if kind == 'iso':
                at['adp_type'] = 'Uiso'
                at['adp'] = v * B2U if bset else v
                row += [s, 'Biso' if bset else 'Uiso']
            else:
                comps = []
                toks = []
                for k in range(6):
                    lo, hi = (0.005, 0.09) if k < 3 else (-0.02, 0.02)
                    if bset:
                        lo, hi = lo * 79, hi * 79
                    s2, v2 = num_token(rng, lo, hi, 4, esd and rng.random() < 0.7)
                    toks.append(s2)
                    comps.append(v2 * B2U if bset else v2)
                # file order of the columns is 11 22 33 12 13 23 (as SHELXL writes);
                # comps/toks are generated in the order 11 22 33 23 13 12
                aniso_rows.append((label, toks))
                at['adp_type'] = 'Uani'
                at['adp'] = comps
                row += [s, 'Bani' if bset else 'Uani']
        else:
            at['adp_type'] = None
            at['adp'] = 0.0
        if occ_col:
            if rng.random() < 0.5:
                row.append('1')
                at['occ'] = 1.0
            else:
                s, v = num_token(rng, 0.05, 1.0, 3, esd and rng.random() < 0.5)
                row.append(s)
                at['occ'] = v
        else:
            at['occ'] = 1.0
        if multikey:
            m = rng.choice([1, 2, 3, 4, 6, 8, 12, 16, 24, 48, 96, 192])
            row.append(str(m))
            at['multi'] = m
        else:
            at['multi'] = 'computed'
        lines.append(' '.join(row))
        atoms.append(at)
    if aniso_rows:
        pre = '_atom_site_aniso_B_' if bset else '_atom_site_aniso_U_'
        lines += ['loop_', '_atom_site_aniso_label'] + \
                 [pre + k for k in ('11', '22', '33', '12', '13', '23')]
        order = list(range(len(aniso_rows)))
        rng.shuffle(order)      # the aniso loop need not follow the site loop
        for j in order:
            label, t = aniso_rows[j]
            # t is 11 22 33 23 13 12 -> write 11 22 33 12 13 23
            lines.append(' '.join([label, t[0], t[1], t[2], t[5], t[4], t[3]]))
    lines.append('')
    if with_global and glob is not None:
        lines += glob
    exp['atoms'] = atoms
    return '\n'.join(lines) + '\n', (blk if give_name else None), exp


def check_cif(tag, al, exp):
    if as_floats(al.cell) != exp['cell'] or len(al.cell) != 6:
        fail('%s cell %r != %r' % (tag, al.cell, exp['cell']))
    if al.sgname != exp['sgname']:
        fail('%s sgname %r != %r' % (tag, al.sgname, exp['sgname']))
    if len(al.atom) != len(exp['atoms']):
        fail('%s number of atoms %d != %d' % (tag, len(al.atom), len(exp['atoms'])))
        return
    for a, e in zip(al.atom, exp['atoms']):
        t = '%s atom %s' % (tag, e['label'])
        if a.label != e['label']:
            fail('%s label %r' % (t, a.label))
        if str(a.atomtype).upper() != e['atomtype']:
            fail('%s atomtype %r' % (t, a.atomtype))
        if as_floats(a.pos) != e['pos']:
            fail('%s pos %r != %r' % (t, a.pos, e['pos']))
        if e['adp_type'] is None:
            # no displacement information in the file
            if a.adp_type not in (None, 'Uiso') or as_floats(a.adp if a.adp is not None else 0.0) != [0.0]:
                fail('%s adp for absent adp type: %r %r' % (t, a.adp_type, a.adp))
        else:
            if a.adp_type != e['adp_type']:
                fail('%s adp_type %r != %r' % (t, a.adp_type, e['adp_type']))
            got = as_floats(a.adp)
            want = as_floats(e['adp'])
            if len(got) != len(want) or not all(close(g, w) for g, w in zip(got, want)):
                fail('%s adp %r != %r' % (t, a.adp, e['adp']))
        if not close(a.occ, e['occ'], rel=0, abs_=0):
            fail('%s occ %r != %r' % (t, a.occ, e['occ']))
        if e['multi'] == 'computed':
            m = orbit_size(exp['sgname'], e['pos'])
            if m is not None and a.symmulti != m:
                fail('%s computed multiplicity %r != %r' % (t, a.symmulti, m))
        elif a.symmulti != e['multi']:
            fail('%s multiplicity %r != %r' % (t, a.symmulti, e['multi']))
    got = dict(al.dispersion)
    for k, v in exp['disp'].items():
        if k not in got:
            fail('%s dispersion lacks %s' % (tag, k))
        elif v is None:
            if got[k] is not None:
                fail('%s dispersion[%s] = %r, expected None' % (tag, k, got[k]))
        elif got[k] is None or as_floats(got[k]) != v:
            fail('%s dispersion[%s] = %r != %r' % (tag, k, got[k], v))
    if set(got) != set(exp['disp']):
        fail('%s dispersion keys %r != %r' % (tag, sorted(got), sorted(exp['disp'])))


# --------------------------------------------------------------------------
# PDB generation
PDB_SYMBOLS = [('P 1', 'p1'), ('P 1 21 1', 'p21'), ('C 1 2 1', 'c2'), ('P 21 21 21', 'p212121'),
               ('P 21 21 2', 'p21212'), ('C 2 2 21', 'c2221'), ('P 41 21 2', 'p41212'),
               ('P 43 21 2', 'p43212'), ('P 31 2 1', 'p3121'), ('P 32 2 1', 'p3221'),
               ('P 3 1 2', 'p312'), ('P 3 2 1', 'p321'), ('P 61 2 2', 'p6122'), ('P 65', 'p65'),
               ('I 4', 'i4'), ('I 41 2 2', 'i4122'), ('F 2 3', 'f23'), ('P 21 3', 'p213'),
               ('I 2 2 2', 'i222'), ('P 4 3 2', 'p432'), ('P 1 2 1', 'p2'), ('I 21 3', 'i213'),
               ('P 63', 'p63'), ('P 42 21 2', 'p42212')]
PDB_NAMES = [(' CA ', 'CA', ' C'), (' N  ', 'N', ' N'), (' O  ', 'O', ' O'), (' CB ', 'CB', ' C'),
             (' SG ', 'SG', ' S'), ('FE  ', 'FE', 'FE'), ('ZN  ', 'ZN', 'ZN'), (' OXT', 'OXT', ' O'),
             (' HA ', 'HA', ' H'), ('CL  ', 'CL', 'CL'), (' O1P', 'O1P', ' O'), (' P  ', 'P', ' P')]


def frac_matrix(cell):
    a, b, c, al, be, ga = cell
    al, be, ga = [math.radians(t) for t in (al, be, ga)]
    ca, cb, cg, sg_ = math.cos(al), math.cos(be), math.cos(ga), math.sin(ga)
    v = math.sqrt(1 - ca * ca - cb * cb - cg * cg + 2 * ca * cb * cg)
    M = np.array([[a, b * cg, c * cb],
                  [0, b * sg_, c * (ca - cb * cg) / sg_],
                  [0, 0, c * v / sg_]])
    return np.linalg.inv(M)


def make_pdb(rng):
    exp = {}
    sym, short = rng.choice(PDB_SYMBOLS)
    cell = [float('%.3f' % rng.uniform(10, 120)) for _ in range(3)] + \
           [float('%.2f' % rng.uniform(70, 115)) for _ in range(3)]
    if rng.random() < 0.5:
        cell[3:] = [90.0, 90.0, rng.choice([90.0, 120.0])]
    exp['cell'] = cell
    exp['sgname'] = short
    lines = ['HEADER    TEST STRUCTURE', 'REMARK   2 RESOLUTION. 1.40 ANGSTROMS.']
    lines.append('CRYST1%9.3f%9.3f%9.3f%7.2f%7.2f%7.2f %-11s%4d' % (tuple(cell) + (sym, 4)))
    S = frac_matrix(cell)
    u = [0.0, 0.0, 0.0]
    if rng.random() < 0.3:
        u = [float('%.5f' % rng.uniform(-0.5, 0.5)) for _ in range(3)]
    Sfile = np.zeros((3, 4))
    scale_lines = []
    for i in range(3):
        t = '%10.6f%10.6f%10.6f' % tuple(S[i])
        scale_lines.append('SCALE%d    %s     %10.5f' % (i + 1, t, u[i]))
        Sfile[i, :3] = [float(t[0:10]), float(t[10:20]), float(t[20:30])]
        Sfile[i, 3] = u[i]
    atoms = []
    alines = []
    natoms = rng.randint(1, 12)
    for k in range(natoms):
        field, label, elem = rng.choice(PDB_NAMES)
        if rng.random() < 0.15:
            xyz = [0.0, 0.0, 0.0]
        else:
            xyz = [float('%.3f' % rng.uniform(-50, 150)) for _ in range(3)]
        occ = float('%.2f' % rng.choice([1.0, 1.0, rng.uniform(0.1, 1.0)]))
        B = float('%.2f' % rng.uniform(2, 80))
        rec = rng.choice(['ATOM  ', 'ATOM  ', 'HETATM'])
        alines.append('%s%5d %4s %3s %1s%4d    %8.3f%8.3f%8.3f%6.2f%6.2f          %2s  ' %
                      (rec, k + 1, field, 'ALA', 'A', k + 1, xyz[0], xyz[1], xyz[2], occ, B, elem))
        frac = Sfile[:, :3].dot(xyz) + Sfile[:, 3]
        atoms.append({'label': label, 'atomtype': elem.strip().upper(), 'pos': frac,
                      'occ': occ, 'adp': B * B2U})
    body = scale_lines + alines
    if rng.random() < 0.2:
        # record order is not what matters
        body = alines + scale_lines
    lines += body + ['END']
    exp['atoms'] = atoms
    return '\n'.join(lines) + '\n', exp


def check_pdb(tag, al, exp):
    if as_floats(al.cell) != exp['cell'] or len(al.cell) != 6:
        fail('%s cell %r != %r' % (tag, al.cell, exp['cell']))
    if str(al.sgname).lower() != exp['sgname']:
        fail('%s sgname %r != %r' % (tag, al.sgname, exp['sgname']))
    if len(al.atom) != len(exp['atoms']):
        fail('%s number of atoms %d != %d' % (tag, len(al.atom), len(exp['atoms'])))
        return
    for a, e in zip(al.atom, exp['atoms']):
        t = '%s atom %s' % (tag, e['label'])
        if a.label != e['label']:
            fail('%s label %r' % (t, a.label))
        if str(a.atomtype).upper() != e['atomtype']:
            fail('%s atomtype %r != %r' % (t, a.atomtype, e['atomtype']))
        got = as_floats(a.pos)
        if len(got) != 3 or not all(close(g, w, rel=1e-9, abs_=1e-9) for g, w in zip(got, e['pos'])):
            fail('%s pos %r != %r' % (t, a.pos, e['pos']))
        if a.adp_type != 'Uiso' or not close(a.adp, e['adp']):
            fail('%s adp %r %r != %r' % (t, a.adp_type, a.adp, e['adp']))
        if float(a.occ) != e['occ']:
            fail('%s occ %r != %r' % (t, a.occ, e['occ']))
        m = orbit_size(exp['sgname'], e['pos'])
        if m is not None and a.symmulti != m:
            fail('%s multiplicity %r != %r' % (t, a.symmulti, m))
        if a.atomtype not in al.dispersion or al.dispersion[a.atomtype] is not None:
            fail('%s dispersion entry for %r' % (t, a.atomtype))


# --------------------------------------------------------------------------
# fingerprints
FIXED_CIF = """data_fp
_cell_length_a 8.5312(12)
_cell_length_b 4.8321(5)
_cell_length_c 10.125
_cell_angle_alpha 90
_cell_angle_beta 92.031(4)
_cell_angle_gamma 90
_symmetry_space_group_name_H-M 'P 21/c'
loop_
_atom_type_symbol
_atom_type_scat_dispersion_real
_atom_type_scat_dispersion_imag
C 0.0033 0.0016
O 0.0106 0.0060
loop_
_atom_site_label
_atom_site_type_symbol
_atom_site_fract_x
_atom_site_fract_y
_atom_site_fract_z
_atom_site_U_iso_or_equiv
_atom_site_adp_type
_atom_site_occupancy
C1 C 0.1234(5) 0.25 0.5(1) 0.0321(4) Uani 1
O1 O 0 0.5 0 0.041(2) Uiso 0.5(1)
loop_
_atom_site_aniso_label
_atom_site_aniso_U_11
_atom_site_aniso_U_22
_atom_site_aniso_U_33
_atom_site_aniso_U_12
_atom_site_aniso_U_13
_atom_site_aniso_U_23
C1 0.031(1) 0.032(1) 0.033(1) 0.0012(8) -0.0013(8) 0.0023(8)
"""

FIXED_PDB = """CRYST1   77.325   77.325   38.159  90.00  90.00  90.00 P 43 21 2     8
SCALE1      0.012932  0.000000  0.000000        0.00000
SCALE2      0.000000  0.012932  0.000000        0.00000
SCALE3      0.000000  0.000000  0.026206        0.00000
ATOM      1  N   LYS A   1       2.273   9.264  10.697  1.00  8.97           N
ATOM      2  CA  LYS A   1       1.460  11.127   9.385  0.50  8.47           C
HETATM    3 ZN    ZN A   2       0.000   0.000   0.000  1.00 12.10          ZN
ATOM      4  O   LYS A   1       1.433  11.854  10.349  1.00  8.47           O
"""


def fingerprint_cif(tmp):
    path = os.path.join(tmp, 'fp.cif')
    open(path, 'w').write(FIXED_CIF)
    calls = [0]

    class counting(structure.build_atomlist):
        def remove_esd(self, a):
            calls[0] += 1
            return structure.build_atomlist.remove_esd(self, a)
    b = counting()
    b.CIFread(path)
    a0 = b.atomlist.atom[0]
    return 'cif: pos container=%s, adp container=%s, cell container=%s, remove_esd method calls=%d' % (
        type(a0.pos).__name__, type(a0.adp).__name__, type(b.atomlist.cell).__name__, calls[0])


def fingerprint_pdb(tmp):
    path = os.path.join(tmp, 'fp.pdb')
    open(path, 'w').write(FIXED_PDB)
    ncalls = {'multiplicity': 0, 'sg': 0}
    orig_m = structure.multiplicity
    orig_sg = sgmod.sg

    def m(*a, **k):
        ncalls['multiplicity'] += 1
        return orig_m(*a, **k)

    class countsg(orig_sg):
        def __init__(self, *a, **k):
            ncalls['sg'] += 1
            orig_sg.__init__(self, *a, **k)
    structure.multiplicity = m
    sgmod.sg = countsg
    try:
        b = structure.build_atomlist()
        b.PDBread(path)
    finally:
        structure.multiplicity = orig_m
        sgmod.sg = orig_sg
    vals = hashlib.sha1(repr([(a.label, a.atomtype, as_floats(a.pos), a.adp, a.occ, a.symmulti)
                              for a in b.atomlist.atom]).encode()).hexdigest()[:10]
    return 'pdb: 4 atoms -> structure.multiplicity calls=%d, sg.sg objects built=%d, values sha1=%s' % (
        ncalls['multiplicity'], ncalls['sg'], vals)


# --------------------------------------------------------------------------
def main():
    tmp = tempfile.mkdtemp(prefix='c17demo')
    try:
        rng = random.Random(1717)
        ncif = 220
        for k in range(ncif):
            text, blk, exp = make_cif(rng)
            path = os.path.join(tmp, 'c%03d.cif' % k)
            with open(path, 'w') as f:
                f.write(text)
            b = structure.build_atomlist()
            try:
                if blk is None:
                    b.CIFread(path)
                else:
                    b.CIFread(path, blk)
            except Exception as err:
                fail('cif %d: CIFread raised %r\n%s' % (k, err, text))
                continue
            check_cif('cif %d' % k, b.atomlist, exp)
        npdb = 150
        for k in range(npdb):
            text, exp = make_pdb(rng)
            path = os.path.join(tmp, 'p%03d.pdb' % k)
            with open(path, 'w') as f:
                f.write(text)
            b = structure.build_atomlist()
            try:
                b.PDBread(path)
            except Exception as err:
                fail('pdb %d: PDBread raised %r\n%s' % (k, err, text))
                continue
            check_pdb('pdb %d' % k, b.atomlist, exp)
        print('checked %d CIF files and %d PDB files, %d violations' % (ncif, npdb, len(failures)))
        fp = fingerprint_cif(tmp) if FP_MODE == 'cif' else fingerprint_pdb(tmp)
        print('FINGERPRINT: ' + fp)
    finally:
        shutil.rmtree(tmp, ignore_errors=True)
    return 1 if failures else 0


if __name__ == '__main__':
    sys.exit(main())
