"""
C17 control r: demo / property check for CIF ingestion.

Generates a few hundred well-formed CIF files (any cell, assorted space-group
symbols, 1..12 atoms, every adp type, with/without esds, occupancy,
multiplicity key in both spellings or absent, atom-type loop, 'global' block),
reads them with xfab.structure.build_atomlist().CIFread and compares every
value with what was written, computed independently here.  Values are
compared numerically (==), container/number types are not looked at.
Exit status 0 when the property holds, 1 otherwise.
"""
import os, sys, math, random, tempfile, hashlib, logging
import numpy as np
logging.disable(logging.CRITICAL)
from xfab import structure, sg

SYMBOLS = ['P 1', 'P -1', 'P 21', 'C 2', 'P 21/c', 'C 2/c', 'P 21 21 21',
           'P n m a', 'C m c a', 'F d d 2', 'I 41/a', 'P 43 21 2', 'P 4/m m m',
           'P 3', 'P 31 2 1', 'P 63/m m c', 'P 6/m', 'P a -3', 'F m -3 m',
           'I a -3 d', 'P m -3 m', 'I 4/m m m', 'P b c a', 'P 2/m']
ELEMENTS = ['C', 'N', 'O', 'Si', 'Fe', 'Cu', 'S', 'Cl', 'H', 'Zn']
EIGHTPI2 = 8 * math.pi ** 2


def num(rng, lo, hi, dec, esd):
    """a decimal text within [lo,hi], optionally with esd, and its value"""
    txt = '%.*f' % (dec, rng.uniform(lo, hi))
    val = float(txt)
    if esd and rng.random() < 0.7:
        txt += '(%d)' % rng.randint(1, 99)
    return txt, val


def own_multiplicity(pos, sgname):
    """size of the orbit of pos modulo lattice translations"""
    g = sg.sg(sgname=sgname)
    orbit = []
    for R, t in zip(g.rot, g.trans):
        p = np.dot(R, pos) + t
        for q in orbit:
            d = p - q
            if np.abs(d - np.round(d)).sum() < 1e-5:
                break
        else:
            orbit.append(p)
    return len(orbit)


def make_case(rng, k):
    esd = rng.random() < 0.6
    exp = {}
    lines = []
    if rng.random() < 0.3:
        lines += ['data_global', "_audit_creation_method 'demo'", '']
    lines.append('data_blk%d' % k)
    cell_t, cell_v = [], []
    for lo, hi, dec in [(3, 30, 4)] * 3 + [(60, 120, 3)] * 3:
        t, v = num(rng, lo, hi, dec, esd)
        cell_t.append(t); cell_v.append(v)
    for key, t in zip(['_cell_length_a', '_cell_length_b', '_cell_length_c',
                       '_cell_angle_alpha', '_cell_angle_beta',
                       '_cell_angle_gamma'], cell_t):
        lines.append('%s %s' % (key, t))
    exp['cell'] = cell_v
    sym = rng.choice(SYMBOLS)
    lines.append("_symmetry_space_group_name_H-M '%s'" % sym)
    exp['sgname'] = ''.join(sym.split())

    natoms = rng.randint(1, 12)
    els = [rng.choice(ELEMENTS) for _ in range(natoms)]
    # atom-type loop: absent / symbols only / with dispersion terms
    tloop = rng.choice(['none', 'symbols', 'full'])
    exp['disp'] = {}
    uniq = sorted(set(els), key=els.index)
    if tloop == 'none':
        for e in uniq:
            exp['disp'][e.upper()] = None
    else:
        lines += ['loop_', '_atom_type_symbol']
        if tloop == 'full':
            lines += ['_atom_type_scat_dispersion_real',
                      '_atom_type_scat_dispersion_imag']
        for e in uniq:
            if tloop == 'full':
                t1, v1 = num(rng, -1, 1, 4, esd)
                t2, v2 = num(rng, 0, 3, 4, esd)
                lines.append('%s %s %s' % (e, t1, t2))
                exp['disp'][e.upper()] = (v1, v2)
            else:
                lines.append(e)
                exp['disp'][e.upper()] = None

    with_occ = rng.random() < 0.5
    multikey = rng.choice([None, '_atom_site_symmetry_multiplicity',
                           '_atom_site_symetry_multiplicity'])
    adp_mode = rng.choice(['absent', 'mixed', 'mixed', 'Uiso', 'Biso'])
    heads = ['_atom_site_label', '_atom_site_type_symbol',
             '_atom_site_fract_x', '_atom_site_fract_y', '_atom_site_fract_z']
    if adp_mode != 'absent':
        heads += ['_atom_site_adp_type', '_atom_site_U_iso_or_equiv',
                  '_atom_site_B_iso_or_equiv']
    if with_occ:
        heads.append('_atom_site_occupancy')
    if multikey:
        heads.append(multikey)
    lines += ['loop_'] + heads
    atoms, aniso = [], []
    for i in range(natoms):
        a = {}
        a['label'] = '%s%d' % (els[i], i + 1)
        a['atomtype'] = els[i].upper()
        row = [a['label'], els[i]]
        pos = []
        special = rng.random() < 0.3
        for _ in range(3):
            if special:
                t = rng.choice(['0.0000', '0.5000', '0.2500', '0.7500'])
                v = float(t)
                if esd and rng.random() < 0.2:
                    t += '(%d)' % rng.randint(1, 9)
            else:
                t, v = num(rng, -0.2, 1.2, 5, esd)
            row.append(t); pos.append(v)
        a['pos'] = pos
        if adp_mode == 'absent':
            a['adp_type'] = None
            a['adp'] = None        # what is returned here is not specified
        else:
            typ = adp_mode if adp_mode != 'mixed' else \
                rng.choice(['Uiso', 'Uani', 'Biso', 'Bani'])
            tU, vU = num(rng, 0.005, 0.09, 4, esd)
            tB, vB = num(rng, 0.3, 7.0, 3, esd)
            row += [typ, tU, tB]
            if typ == 'Uiso':
                a['adp_type'], a['adp'] = 'Uiso', vU
            elif typ == 'Biso':
                a['adp_type'], a['adp'] = 'Uiso', vB / EIGHTPI2
            else:
                six_t, six_v = [], []
                for _ in range(6):
                    if typ == 'Uani':
                        t, v = num(rng, -0.02, 0.09, 4, esd)
                    else:
                        t, v = num(rng, -1.5, 7.0, 3, esd)
                    six_t.append(t); six_v.append(v)
                aniso.append((typ, a['label'], six_t))
                a['adp_type'] = 'Uani'
                # file columns are 11 22 33 12 13 23 ; wanted 11 22 33 23 13 12
                wanted = [six_v[0], six_v[1], six_v[2],
                          six_v[5], six_v[4], six_v[3]]
                if typ == 'Bani':
                    wanted = [w / EIGHTPI2 for w in wanted]
                a['adp'] = wanted
        if with_occ:
            t, v = num(rng, 0.05, 1.0, 3, esd)
            if rng.random() < 0.4:
                t, v = rng.choice([('1', 1.0), ('1.0', 1.0), ('1.00', 1.0)])
            row.append(t); a['occ'] = v
        else:
            a['occ'] = 1.0
        if multikey:
            m = rng.choice([1, 2, 3, 4, 6, 8, 12, 16, 24, 48, 96, 192])
            row.append('%d' % m); a['symmulti'] = m
        else:
            a['symmulti'] = own_multiplicity(pos, exp['sgname'])
        lines.append(' '.join(row))
        atoms.append(a)
    exp['atoms'] = atoms
    # aniso loop, rows in shuffled order; '.' where the other kind applies
    if aniso:
        rng.shuffle(aniso)
        hasU = any(r[0] == 'Uani' for r in aniso)
        hasB = any(r[0] == 'Bani' for r in aniso)
        lines += ['loop_', '_atom_site_aniso_label']
        cols = ['11', '22', '33', '12', '13', '23']
        if hasU:
            lines += ['_atom_site_aniso_U_%s' % c for c in cols]
        if hasB:
            lines += ['_atom_site_aniso_B_%s' % c for c in cols]
        for typ, lab, six in aniso:
            row = [lab]
            if hasU:
                row += six if typ == 'Uani' else ['.'] * 6
            if hasB:
                row += six if typ == 'Bani' else ['.'] * 6
            lines.append(' '.join(row))
    return '\n'.join(lines) + '\n', exp


def read(text, tmpdir, k):
    path = os.path.join(tmpdir, 'c%d.cif' % k)
    with open(path, 'w') as f:
        f.write(text)
    b = structure.build_atomlist()
    b.CIFread(ciffile=path)
    return b.atomlist


def check(al, exp, k, text):
    bad = []
    def want(name, got, ref):
        ok = False
        try:
            if ref is None:
                ok = got is None
            elif isinstance(ref, str):
                ok = (got == ref)
            elif isinstance(ref, (list, tuple)):
                ok = (got is not None and len(got) == len(ref)
                      and all(float(g) == float(r) for g, r in zip(got, ref)))
            else:
                ok = (float(got) == float(ref))
        except Exception as e:
            ok = False
        if not ok:
            bad.append('%s: got %r, file states %r' % (name, got, ref))
    want('cell', al.cell, exp['cell'])
    want('sgname', al.sgname, exp['sgname'])
    if set(al.dispersion.keys()) != set(exp['disp'].keys()):
        bad.append('dispersion keys %r vs %r' % (sorted(al.dispersion), sorted(exp['disp'])))
    else:
        for e, v in exp['disp'].items():
            want('dispersion[%s]' % e, al.dispersion[e], v)
    if len(al.atom) != len(exp['atoms']):
        bad.append('number of atoms %d vs %d' % (len(al.atom), len(exp['atoms'])))
    else:
        for i, (g, a) in enumerate(zip(al.atom, exp['atoms'])):
            want('atom %d label' % i, g.label, a['label'])
            want('atom %d atomtype' % i, g.atomtype, a['atomtype'])
            want('atom %d pos' % i, g.pos, a['pos'])
            want('atom %d adp_type' % i, g.adp_type, a['adp_type'])
            if a['adp_type'] is not None:
                want('atom %d adp' % i, g.adp, a['adp'])
            want('atom %d occ' % i, g.occ, a['occ'])
            want('atom %d symmulti' % i, g.symmulti, a['symmulti'])
    if bad:
        print('CASE %d violates the property:' % k)
        for b in bad:
            print('   ', b)
        print(text)
    return not bad


FIXED = """data_fix
_cell_length_a 5.4310(2)
_cell_length_b 6.1000
_cell_length_c 7.25(1)
_cell_angle_alpha 90
_cell_angle_beta 101.30(2)
_cell_angle_gamma 90
_symmetry_space_group_name_H-M 'P 21/c'
loop_
_atom_site_label
_atom_site_type_symbol
_atom_site_fract_x
_atom_site_fract_y
_atom_site_fract_z
%s
Fe1 Fe 0.0000 0.0000 0.5000 %s
O1 O 0.1234(5) 0.2345(5) 0.3456(5) %s
"""


def fingerprint(tmpdir):
    out = []
    variants = [
        ('_atom_site_symmetry_multiplicity', '2', '4'),
        ('_atom_site_symetry_multiplicity', '2', '4'),
        ('_atom_site_occupancy\n_atom_site_symmetry_multiplicity', '1 2', '0.5 4'),
        ('_atom_site_occupancy', '1', '0.50(2)'),
    ]
    for j, v in enumerate(variants):
        al = read(FIXED % v, tmpdir, 9000 + j)
        for a in al.atom:
            out.append((a.label, repr(a.occ), repr(a.symmulti)))
    raw = repr(out)
    return hashlib.sha1(raw.encode()).hexdigest()[:12] + ' ' + \
        ' '.join('%s/%s' % (o, m) for _, o, m in out[:4])


def main():
    rng = random.Random(170017)
    ncase, nbad = 400, 0
    with tempfile.TemporaryDirectory() as tmpdir:
        for k in range(ncase):
            text, exp = make_case(rng, k)
            try:
                al = read(text, tmpdir, k)
            except Exception as e:
                print('CASE %d: CIFread raised %r' % (k, e))
                print(text)
                nbad += 1
                continue
            if not check(al, exp, k, text):
                nbad += 1
            if nbad > 5:
                break
        fp = fingerprint(tmpdir)
    print('FINGERPRINT: %s' % fp)
    print('%d CIF files read, %d violations' % (ncase, nbad))
    return 1 if nbad else 0


if __name__ == '__main__':
    sys.exit(main())
