"""
C17 control s: demo / property check for PDB ingestion.

Generates a few hundred well-formed PDB files (any cell, assorted PDB-style
space-group symbols with and without '1' place-holders, 1..12 ATOM/HETATM
records, SCALE matrix with and without a translation), reads them with
xfab.structure.build_atomlist().PDBread and compares cell, symbol, labels,
elements, fractional coordinates (SCALE matrix times orthogonal coordinates),
U = B/(8 pi^2), occupancy, computed multiplicity and dispersion entries with
an independent computation.  The symbol is compared as a space-group symbol,
i.e. without whitespace and regardless of letter case (the statement asks for
the file's symbol without whitespace and without the '1' place-holders and
says nothing about case).
Exit status 0 when the property holds, 1 otherwise.
"""
import os, sys, math, random, tempfile, hashlib, logging
import numpy as np
logging.disable(logging.CRITICAL)
from xfab import structure, sg

# (symbol as written in CRYST1, symbol expected)
SYMBOLS = [('P 1', 'P1'), ('P -1', 'P-1'), ('P 1 21 1', 'P21'),
           ('P 1 2 1', 'P2'), ('C 1 2 1', 'C2'), ('P 1 21/c 1', 'P21/c'),
           ('C 1 2/c 1', 'C2/c'), ('P 1 2/m 1', 'P2/m'),
           ('P 21 21 21', 'P212121'), ('P 21 21 2', 'P21212'),
           ('C 2 2 21', 'C2221'), ('I 2 2 2', 'I222'), ('F 2 2 2', 'F222'),
           ('P 41', 'P41'), ('P 43 21 2', 'P43212'), ('P 41 21 2', 'P41212'),
           ('I 4', 'I4'), ('I 41 2 2', 'I4122'), ('P 31', 'P31'),
           ('P 31 2 1', 'P3121'), ('P 32 2 1', 'P3221'), ('P 3 1 2', 'P312'),
           ('P 61', 'P61'), ('P 65 2 2', 'P6522'), ('P 63', 'P63'),
           ('P 2 3', 'P23'), ('P 21 3', 'P213'), ('I 2 3', 'I23'),
           ('F 4 3 2', 'F432'), ('P 43 3 2', 'P4332'), ('I 41 3 2', 'I4132'),
           ('P n m a', 'Pnma'), ('F m -3 m', 'Fm-3m'),
           ('P 63/m m c', 'P63/mmc'), ('P 21/c', 'P21/c'), ('C 2', 'C2')]
# (atom name columns 13-16, element columns 77-78)
ATOMS = [(' N  ', ' N'), (' CA ', ' C'), (' C  ', ' C'), (' O  ', ' O'),
         (' CB ', ' C'), (' SG ', ' S'), ('FE  ', 'FE'), ('ZN  ', 'ZN'),
         (' OXT', ' O'), (' O1 ', ' O'), ('CL  ', 'CL'), (' NE2', ' N'),
         (' H1 ', ' H'), ('SE  ', 'Se'), ('MG  ', 'Mg')]
EIGHTPI2 = 8 * math.pi ** 2


def scale_matrix(cell):
    a, b, c, al, be, ga = cell
    al, be, ga = [math.radians(x) for x in (al, be, ga)]
    ca, cb, cg, sg_ = math.cos(al), math.cos(be), math.cos(ga), math.sin(ga)
    v = math.sqrt(1 - ca * ca - cb * cb - cg * cg + 2 * ca * cb * cg)
    A = np.array([[a, b * cg, c * cb],
                  [0, b * sg_, c * (ca - cb * cg) / sg_],
                  [0, 0, c * v / sg_]])
    return np.linalg.inv(A)


def own_multiplicity(pos, sgname):
    g = sg.sg(sgname=sgname)
    orbit = []
    for R, t in zip(g.rot, g.trans):
        p = np.dot(R, pos) + t
        for q in orbit:
            d = p - q
            if np.abs(d - np.round(d)).sum() < 1e-5:
                break
        else:
            orbit.append(p)
    return len(orbit)


def make_case(rng, k, symbol=None):
    exp = {}
    sym, want = symbol if symbol else rng.choice(SYMBOLS)
    cell = [float('%.3f' % rng.uniform(5, 120)) for _ in range(3)] + \
           [float('%.2f' % rng.uniform(65, 115)) for _ in range(3)]
    if rng.random() < 0.5:
        cell[3:] = [90.0, 90.0, float('%.2f' % rng.choice([90, 120, 101.37]))]
    exp['cell'] = cell
    exp['sgname'] = want
    lines = ['HEADER    DEMO CASE %d' % k,
             'REMARK   2 RESOLUTION.    1.50 ANGSTROMS.',
             'CRYST1%9.3f%9.3f%9.3f%7.2f%7.2f%7.2f %-11s%4d' %
             (tuple(cell) + (sym, rng.choice([1, 2, 4, 8])))]
    M = scale_matrix(cell)
    u = [0.0, 0.0, 0.0]
    if rng.random() < 0.3:
        u = [rng.uniform(-0.5, 0.5) for _ in range(3)]
    S = np.zeros((3, 4))
    for i in range(3):
        txt = 'SCALE%d    %10.6f%10.6f%10.6f     %10.5f' % \
              (i + 1, M[i, 0], M[i, 1], M[i, 2], u[i])
        lines.append(txt)
        S[i] = [float(t) for t in txt.split()[1:]]
    atoms = []
    natoms = rng.randint(1, 12)
    for i in range(natoms):
        name, el = rng.choice(ATOMS)
        rec = rng.choice(['ATOM  ', 'ATOM  ', 'HETATM'])
        xyz = [float('%.3f' % rng.uniform(-60, 150)) for _ in range(3)]
        occ = float('%.2f' % rng.choice([1.0, 1.0, rng.uniform(0.1, 1.0)]))
        B = float('%.2f' % rng.uniform(2, 90))
        lines.append('%s%5d %-4s%1s%3s %1s%4d%1s   %8.3f%8.3f%8.3f%6.2f%6.2f          %2s%2s'
                     % (rec, i + 1, name, ' ', rng.choice(['ALA', 'HIS', 'HOH', 'CYS']),
                        'A', i + 1, ' ', xyz[0], xyz[1], xyz[2], occ, B, el, '  '))
        a = {'label': ''.join(name.split()), 'atomtype': el.strip().upper(),
             'pos': S[:, :3].dot(xyz) + S[:, 3], 'adp': B / EIGHTPI2,
             'occ': occ}
        a['symmulti'] = own_multiplicity(a['pos'], want)
        atoms.append(a)
    lines += ['TER', 'END']
    exp['atoms'] = atoms
    exp['disp'] = dict((a['atomtype'], None) for a in atoms)
    return '\n'.join(lines) + '\n', exp


def read(text, tmpdir, k):
    path = os.path.join(tmpdir, 'p%d.pdb' % k)
    with open(path, 'w') as f:
        f.write(text)
    b = structure.build_atomlist()
    b.PDBread(path)
    return b.atomlist


def check(al, exp, k, text):
    bad = []
    if [float(x) for x in al.cell] != exp['cell']:
        bad.append('cell %r vs %r' % (al.cell, exp['cell']))
    s = al.sgname
    if not isinstance(s, str) or s != ''.join(s.split()) \
            or s.lower() != exp['sgname'].lower():
        bad.append('sgname %r vs %r' % (s, exp['sgname']))
    if dict(al.dispersion) != exp['disp']:
        bad.append('dispersion %r vs %r' % (al.dispersion, exp['disp']))
    if len(al.atom) != len(exp['atoms']):
        bad.append('number of atoms %d vs %d' % (len(al.atom), len(exp['atoms'])))
    else:
        for i, (g, a) in enumerate(zip(al.atom, exp['atoms'])):
            if g.label != a['label']:
                bad.append('atom %d label %r vs %r' % (i, g.label, a['label']))
            if g.atomtype != a['atomtype']:
                bad.append('atom %d atomtype %r vs %r' % (i, g.atomtype, a['atomtype']))
            if len(g.pos) != 3 or not np.allclose(np.asarray(g.pos, float), a['pos'], rtol=0, atol=1e-10):
                bad.append('atom %d pos %r vs %r' % (i, g.pos, a['pos']))
            if g.adp_type != 'Uiso' or abs(g.adp - a['adp']) > 1e-14:
                bad.append('atom %d adp %r %r vs %r' % (i, g.adp_type, g.adp, a['adp']))
            if g.occ != a['occ']:
                bad.append('atom %d occ %r vs %r' % (i, g.occ, a['occ']))
            if g.symmulti != a['symmulti']:
                bad.append('atom %d symmulti %r vs %r' % (i, g.symmulti, a['symmulti']))
    if bad:
        print('CASE %d violates the property:' % k)
        for b in bad:
            print('   ', b)
        print(text)
    return not bad


def fingerprint(tmpdir):
    rng = random.Random(5)
    names = []
    for j, symbol in enumerate([('P 43 21 2', 'P43212'), ('P 1 21 1', 'P21'),
                                ('C 1 2 1', 'C2'), ('P 1', 'P1'),
                                ('F m -3 m', 'Fm-3m')]):
        text, exp = make_case(rng, 9000 + j, symbol)
        names.append(read(text, tmpdir, 9000 + j).sgname)
    raw = repr(names)
    return hashlib.sha1(raw.encode()).hexdigest()[:12] + ' ' + ' '.join(names)


def main():
    rng = random.Random(170018)
    ncase, nbad = 300, 0
    with tempfile.TemporaryDirectory() as tmpdir:
        for k in range(ncase):
            text, exp = make_case(rng, k)
            try:
                al = read(text, tmpdir, k)
            except Exception as e:
                print('CASE %d: PDBread raised %r' % (k, e))
                print(text)
                nbad += 1
                continue
            if not check(al, exp, k, text):
                nbad += 1
            if nbad > 5:
                break
        fp = fingerprint(tmpdir)
    print('FINGERPRINT: %s' % fp)
    print('%d PDB files read, %d violations' % (ncase, nbad))
    return 1 if nbad else 0


if __name__ == '__main__':
    sys.exit(main())
