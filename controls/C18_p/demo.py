"""
C18 demo: reduce_cell returns a primitive cell of the same lattice.

Run as   PYTHONPATH=<checkout root> /venv/bin/python -B demo.py

Independent check (nothing from xfab is used by the oracle):
  * volume:   sqrt(det G_out) == sqrt(det G_in), G built from the six
              parameters with g_ij = a_i a_j cos(angle_ij);
  * lattice:  an integer matrix M, |det M| = 1, with M G_in M^T == G_out is
              found by exhaustive search over index triples in [-4, 4]^3;
  * shortest: the three output lengths are the successive minima of the
              input lattice (brute force over [-4, 4]^3, exact integer rank
              tests).

The library has a known defect (the basis vectors found are stored as rows
and then read as columns), so the 'lattice' and 'shortest' parts only hold on
the pristine tree when the Cartesian frame form_a_mat gives to the input
basis is aligned with orthogonal lattice axes.  The demo therefore checks
  family V : many kinds of lattices (triclinic, monoclinic, hexagonal,
             rhombohedral, fcc/bcc primitive, ...) x random unimodular
             change of basis   -> volume only
  family C : primitive cubic lattices x ANY random unimodular change of
             basis                -> volume + lattice + shortest
  family O : orthorhombic / tetragonal lattices x unimodular changes that
             keep b1 on a lattice axis and b2 in an axis plane
                                  -> volume + lattice + shortest
All changes of basis have |entries of M^-1| <= 2, i.e. the reduced basis
lies inside the default search range.  Both modules are exercised.

Exit status 0: property holds on every generated input.  Non-zero: violated.
"""
from __future__ import print_function
import sys
import itertools
import hashlib
import numpy as np

from xfab import tools, laue

# ----------------------------------------------------------------- oracle
def metric(cell):
    a, b, c, al, be, ga = [float(x) for x in cell]
    ca, cb, cg = [np.cos(np.radians(x)) for x in (al, be, ga)]
    return np.array([[a*a, a*b*cg, a*c*cb],
                     [a*b*cg, b*b, b*c*ca],
                     [a*c*cb, b*c*ca, c*c]])


def cell_from_metric(G):
    a, b, c = np.sqrt(np.diag(G))
    return [a, b, c,
            np.degrees(np.arccos(G[1, 2]/b/c)),
            np.degrees(np.arccos(G[0, 2]/a/c)),
            np.degrees(np.arccos(G[0, 1]/a/b))]


RNG = 4
HS = np.array(list(itertools.product(range(-RNG, RNG+1), repeat=3)))
HS = HS[np.any(HS != 0, axis=1)]


def idet(rows):
    (a, b, c), (d, e, f), (g, h, i) = [[int(x) for x in r] for r in rows]
    return a*(e*i-f*h) - b*(d*i-f*g) + c*(d*h-e*g)


def minima(G):
    """successive minima (lengths) of the lattice with metric G"""
    q = np.einsum('ni,ij,nj->n', HS, G, HS)
    o = np.argsort(q, kind='stable')
    h1 = HS[o[0]]
    lam = [q[o[0]]]
    h2 = None
    for k in o[1:]:
        if h2 is None:
            if np.any(np.cross(h1, HS[k]) != 0):
                h2 = HS[k]
                lam.append(q[k])
        elif idet([h1, h2, HS[k]]) != 0:
            lam.append(q[k])
            break
    return np.sqrt(np.array(lam))


def same_lattice(Gin, Gout, rtol=1e-7):
    """integer M (rows), |det| = 1, with M Gin M^T = Gout, or None"""
    q = np.einsum('ni,ij,nj->n', HS, Gin, HS)
    cands = [HS[np.abs(q-Gout[i, i]) <= rtol*Gout[i, i]] for i in range(3)]
    tol = rtol*np.max(np.diag(Gout))
    for h0 in cands[0]:
        for h1 in cands[1]:
            if abs(h0.dot(Gin).dot(h1)-Gout[0, 1]) > tol:
                continue
            for h2 in cands[2]:
                if abs(h0.dot(Gin).dot(h2)-Gout[0, 2]) > tol:
                    continue
                if abs(h1.dot(Gin).dot(h2)-Gout[1, 2]) > tol:
                    continue
                if abs(idet([h0, h1, h2])) == 1:
                    return np.array([h0, h1, h2])
    return None


def check(cell_in, cell_out, full):
    out = np.asarray(cell_out, float)
    if out.shape != (6,) or not np.all(np.isfinite(out)):
        return 'not six finite numbers'
    Gin = metric(cell_in)
    Gout = metric(out)
    vin = np.sqrt(np.linalg.det(Gin))
    dout = np.linalg.det(Gout)
    if not dout > 0 or abs(vin-np.sqrt(dout)) > 1e-7*vin:
        return 'volume'
    if full:
        if same_lattice(Gin, Gout) is None:
            return 'no unimodular integer matrix relates the metrics'
        lam = minima(Gin)
        if not np.allclose(np.sort(np.sqrt(np.diag(Gout))), np.sort(lam),
                           rtol=1e-7, atol=0):
            return 'not the shortest non-coplanar vectors'
    return None


# ------------------------------------------------------------- generators
def rand_unimod(rs):
    """random unimodular M, |M| <= 3, |M^-1| <= 2"""
    while True:
        M = np.eye(3, dtype=int)
        for _ in range(rs.randint(1, 5)):
            i, j = rs.choice(3, 2, replace=False)
            E = np.eye(3, dtype=int)
            E[i, j] = rs.choice([-2, -1, 1, 2])
            M = M.dot(E)
        if rs.rand() < 0.5:
            M = M.dot(np.eye(3, dtype=int)[rs.permutation(3)])
        M = M.dot(np.diag(rs.choice([-1, 1], 3)))
        Mi = np.rint(np.linalg.inv(M)).astype(int)
        if np.abs(Mi).max() <= 2 and np.abs(M).max() <= 3:
            return M


def axis_keeping_unimod(rs):
    """columns: b1 = +-axis_i, b2 = +-axis_j + m b1, b3 = +-axis_k + p b1 + q b2"""
    while True:
        m, p, q = rs.randint(-2, 3, 3)
        U = np.array([[1, m, p], [0, 1, q], [0, 0, 1]])
        PS = np.eye(3, dtype=int)[rs.permutation(3)].dot(
            np.diag(rs.choice([-1, 1], 3)))
        M = PS.dot(U)
        Mi = np.rint(np.linalg.inv(M)).astype(int)
        if np.abs(Mi).max() <= 2 and np.abs(M).max() <= 3:
            return M


def transformed(base, M):
    # columns of M are the new basis vectors in terms of the old ones
    return cell_from_metric(M.T.dot(metric(base)).dot(M))


def inputs():
    rs = np.random.RandomState(20180318)
    S3 = 109.47122063449069
    shapes = [(1, 1, 1.6, 90, 90, 120), (1, 1, 1.6, 90, 90, 60),
              (1, 1, 1, 60, 60, 60), (1, 1, 1, S3, S3, S3),
              (1, 1, 1, 75, 75, 75), (1, 1, 1, 100, 100, 100),
              (1, 1.2, 1.5, 90, 100, 90), (1, 1.3, 0.8, 90, 90, 97)]
    # family V: volume only
    for t in range(120):
        if t % 2:
            base = list(rs.uniform(3, 9, 3)) + list(rs.uniform(72, 108, 3))
        else:
            sh = shapes[(t//2) % len(shapes)]
            s = rs.uniform(2, 8)
            base = [sh[0]*s, sh[1]*s, sh[2]*s] + list(sh[3:])
        M = rand_unimod(rs) if t % 4 else np.eye(3, dtype=int)
        yield 'V', transformed(base, M), False
    # family C: primitive cubic, any unimodular change
    for t in range(90):
        a = rs.uniform(2, 9)
        M = rand_unimod(rs) if t % 6 else np.eye(3, dtype=int)
        yield 'C', transformed([a, a, a, 90, 90, 90], M), True
    # family O: orthorhombic / tetragonal, axis keeping changes
    for t in range(120):
        a, b, c = rs.uniform(2, 9, 3)
        if t % 3 == 0:
            b = a
        elif t % 3 == 1 and t % 2:
            c = b
        M = axis_keeping_unimod(rs) if t % 6 else np.eye(3, dtype=int)
        yield 'O', transformed([a, b, c, 90, 90, 90], M), True


# ------------------------------------------------------------ fingerprint
def fingerprint():
    """raw outputs and the a_to_cell call pattern for fixed inputs"""
    S3 = 109.47122063449069
    fixed = [[3.0, 3.0, 5.0, 90, 90, 120], [3.0, 3.0, 5.0, 90, 90, 60],
             [4.0, 4.0, 4.0, 60, 60, 60], [4.0, 4.0, 4.0, S3, S3, S3],
             [5.0, 5.0, 5.0, 90, 90, 90], [4.0, 4.0, 6.5, 90, 90, 90],
             [5.1, 6.2, 7.3, 81.0, 95.0, 102.0],
             transformed([4.0, 4.0, 4.0, 60, 60, 60],
                         np.array([[1, 1, 0], [0, 1, 1], [0, 0, 1]])),
             transformed([3.0, 3.0, 5.0, 90, 90, 120],
                         np.array([[1, 0, 0], [1, 1, 0], [0, 1, 1]])),
             transformed([5.0, 5.0, 5.0, 90, 90, 90],
                         np.array([[1, 2, 0], [0, 1, 0], [1, 0, 1]]))]
    outs = []
    args = []
    ncalls = 0
    for mod in (tools, laue):
        seen = []
        orig = mod.a_to_cell

        def spy(A, _orig=orig, _seen=seen):
            _seen.append(np.array(A, float))
            return _orig(A)
        mod.a_to_cell = spy
        try:
            for cell in fixed:
                outs.append(repr([float(x) for x in mod.reduce_cell(cell)]))
        finally:
            mod.a_to_cell = orig
        ncalls += len(seen)
        args.extend(repr(A.tolist()) for A in seen)
    h = lambda xs: hashlib.sha1('\n'.join(xs).encode()).hexdigest()[:12]
    return 'a_to_cell calls=%d args=%s outputs=%s' % (ncalls, h(args), h(outs))


def main():
    bad = 0
    count = {}
    for fam, cell, full in inputs():
        for mod in (tools, laue):
            for form in (list, np.array):
                arg = form(cell)
                keep = list(cell)
                out = mod.reduce_cell(arg)
                why = check(cell, out, full)
                if why is None and list(arg) != keep:
                    why = 'input modified'
                count[fam] = count.get(fam, 0) + 1
                if why is not None:
                    bad += 1
                    if bad <= 10:
                        print('VIOLATION [%s] %s.reduce_cell(%r) -> %r : %s'
                              % (fam, mod.__name__, cell, list(out), why))
    print('checked', ' '.join('%s=%d' % kv for kv in sorted(count.items())),
          'violations=%d' % bad)
    print('FINGERPRINT: ' + fingerprint())
    return 1 if bad else 0


if __name__ == '__main__':
    sys.exit(main())
