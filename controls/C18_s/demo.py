"""
C18 demo: reduce_cell returns the six parameters of a basis of the same
lattice, built from the shortest non-coplanar lattice vectors.

Independent computation (own metric tensor, own brute-force search over
[-6,6]^3 for the successive minima, own volume formula); nothing from xfab
is used except the function under test.

What is tested, for every generated cell inside the quantifier (all
lattice vectors not longer than the third successive minimum have indices
|u|,|v|,|w| <= 2), for both xfab.tools and xfab.laue:

  (1) six finite numbers, lengths > 0, angles in (0,180), valid cell
  (2) same volume as the input (rel 1e-9)
  (3) there is an integer matrix M, det +-1, whose rows are lattice
      vectors with the lengths of the three successive minima, such that
      the metric tensor of the output has the same orthogonal invariants
      (eigenvalues) as M G M^T.
      [The library is known to hand the chosen vectors to a_to_cell as
       rows where columns are expected; the eigenvalues are what is
       independent of that, so the demo stops there.  The number of cases
       in which the output metric is M G M^T itself is printed for
       information only.]
  (4) for primitive cubic lattices in any unimodular setting (where the
      row/column question does not matter) the output is exactly
      a, a, a, 90, 90, 90.

exit 0 = property holds.  Prints a FINGERPRINT of the raw outputs for a
few fixed inputs.
"""
import sys, itertools, hashlib
import numpy as np
from xfab import tools, laue

RNG = np.random.RandomState(18018)


def metric(cell):
    a, b, c, al, be, ga = [float(x) for x in cell]
    ca, cb, cg = [np.cos(np.radians(x)) for x in (al, be, ga)]
    return np.array([[a*a, a*b*cg, a*c*cb],
                     [a*b*cg, b*b, b*c*ca],
                     [a*c*cb, b*c*ca, c*c]])


def cell_of(G):
    a, b, c = np.sqrt(np.diag(G))
    al = np.degrees(np.arccos(np.clip(G[1, 2]/b/c, -1, 1)))
    be = np.degrees(np.arccos(np.clip(G[0, 2]/a/c, -1, 1)))
    ga = np.degrees(np.arccos(np.clip(G[0, 1]/a/b, -1, 1)))
    return [a, b, c, al, be, ga]


def volume(cell):
    return np.sqrt(max(np.linalg.det(metric(cell)), 0.0))


R6 = np.array(list(itertools.product(range(-6, 7), repeat=3)))
R6 = R6[np.any(R6 != 0, axis=1)]


def minima(G):
    """successive minima and the candidate index vectors for each"""
    l2 = np.einsum('ij,jk,ik->i', R6, G, R6)
    order = np.argsort(l2)
    idx, l2 = R6[order], l2[order]
    lam = []
    chosen = []
    for v, q in zip(idx, l2):
        M = np.array(chosen + [v])
        if np.linalg.matrix_rank(M) == len(M):
            # rank with integer entries <= 6 is safe
            chosen.append(v)
            lam.append(np.sqrt(q))
            if len(lam) == 3:
                break
    lam = np.array(lam)
    near = l2 <= lam[2]**2*(1 + 1e-8)
    inside = np.all(np.abs(idx[near]) <= 2)
    cands = [idx[np.abs(np.sqrt(l2) - L) <= 1e-9*L] for L in lam]
    return lam, cands, inside


def unimodular():
    M = np.eye(3, dtype=int)
    for _ in range(RNG.randint(0, 4)):
        kind = RNG.randint(3)
        if kind == 0:
            i, j = RNG.choice(3, 2, replace=False)
            E = np.eye(3, dtype=int)
            E[i, j] = RNG.choice([-1, 1])
        elif kind == 1:
            E = np.eye(3, dtype=int)[RNG.permutation(3)]
        else:
            E = np.diag(RNG.choice([-1, 1], 3))
        M = E.dot(M)
    assert abs(round(np.linalg.det(M))) == 1
    return M


def base_cell(kind):
    u = RNG.uniform
    if kind == 'triclinic':
        return [u(3, 9), u(3, 9), u(3, 9), u(65, 115), u(65, 115), u(65, 115)]
    if kind == 'monoclinic':
        return [u(3, 9), u(3, 9), u(3, 9), 90, u(91, 118), 90]
    if kind == 'orthorhombic':
        return [u(3, 9), u(3, 9), u(3, 9), 90, 90, 90]
    if kind == 'tetragonal':
        a = u(3, 9)
        return [a, a, u(3, 9), 90, 90, 90]
    if kind == 'hexagonal':
        a = u(3, 9)
        return [a, a, u(3, 12), 90, 90, RNG.choice([60, 120])]
    if kind == 'rhombohedral':
        a = u(3, 9)
        al = u(50, 112)
        return [a, a, a, al, al, al]
    if kind == 'cubic':
        a = u(3, 9)
        return [a, a, a, 90, 90, 90]
    if kind == 'fcc-primitive':
        a = u(3, 9)
        return [a, a, a, 60, 60, 60]
    if kind == 'bcc-primitive':
        a = u(3, 9)
        t = np.degrees(np.arccos(-1/3.))
        return [a, a, a, t, t, t]
    raise ValueError(kind)


KINDS = ['triclinic', 'monoclinic', 'orthorhombic', 'tetragonal', 'hexagonal',
         'rhombohedral', 'cubic', 'fcc-primitive', 'bcc-primitive']


def check(mod, cell, kind):
    """returns (list of problems, proper_reading_holds)"""
    G = metric(cell)
    lam, cands, inside = minima(G)
    assert inside
    out = mod.reduce_cell(list(cell))
    try:
        o = [float(x) for x in out]
    except Exception as e:
        return ['output not six numbers: %r' % (e,)], False
    if len(o) != 6 or not np.all(np.isfinite(o)):
        return ['output not six finite numbers: %r' % (o,)], False
    if min(o[:3]) <= 0 or min(o[3:]) <= 0 or max(o[3:]) >= 180:
        return ['lengths/angles out of range: %r' % (o,)], False
    Go = metric(o)
    v_in, v_out = volume(cell), volume(o)
    bad = []
    if abs(v_in - v_out) > 1e-9*v_in:
        bad.append('volume %r -> %r' % (v_in, v_out))
    ev_o = np.sort(np.linalg.eigvalsh(Go))
    scale = ev_o[-1]
    found = False
    proper = False
    for m1 in cands[0]:
        for m2 in cands[1]:
            for m3 in cands[2]:
                M = np.array([m1, m2, m3])
                if abs(round(np.linalg.det(M))) != 1:
                    continue
                Gm = M.dot(G).dot(M.T)
                ev = np.sort(np.linalg.eigvalsh(Gm))
                if np.max(np.abs(ev - ev_o)) <= 1e-8*scale:
                    found = True
                    for P in itertools.permutations(range(3)):
                        Gp = Gm[np.ix_(P, P)]
                        if np.max(np.abs(np.abs(Gp) - np.abs(Go))) <= 1e-8*scale \
                           and np.max(np.abs(np.diag(Gp) - np.diag(Go))) <= 1e-8*scale:
                            # equal up to signs of the vectors; verify a sign choice
                            for s in itertools.product([1, -1], repeat=3):
                                S = np.diag(s)
                                if np.max(np.abs(S.dot(Gp).dot(S) - Go)) <= 1e-8*scale:
                                    proper = True
                if found and proper:
                    break
            if found and proper:
                break
        if found and proper:
            break
    if not found:
        bad.append('no unimodular M of shortest vectors reproduces the invariants '
                   'of the output metric; out=%r minima=%r' % (o, lam.tolist()))
    if kind == 'cubic':
        a = lam[0]
        ref = np.array([a, a, a, 90, 90, 90])
        if np.max(np.abs(np.array(o) - ref)) > 1e-6:
            bad.append('cubic lattice: got %r expected %r' % (o, ref.tolist()))
        if not proper:
            bad.append('cubic lattice: output metric is not M G M^T')
    return bad, proper


def main():
    n_cases = 0
    n_proper = 0
    failures = []
    per_kind = dict((k, 0) for k in KINDS)
    attempts = 0
    while min(per_kind.values()) < 36 and attempts < 20000:
        attempts += 1
        kind = KINDS[attempts % len(KINDS)]
        if per_kind[kind] >= 36:
            continue
        base = base_cell(kind)
        Gb = metric(base)
        if np.linalg.det(Gb) <= 1e-3*np.prod(np.diag(Gb)):
            continue
        M = unimodular()
        cell = cell_of(M.dot(Gb).dot(M.T))
        if min(cell[3:]) < 5 or max(cell[3:]) > 175:
            continue
        lam, cands, inside = minima(metric(cell))
        if not inside:
            continue            # outside the quantifier
        per_kind[kind] += 1
        for mod in (tools, laue):
            n_cases += 1
            bad, proper = check(mod, cell, kind)
            n_proper += proper
            for b in bad:
                failures.append('%s %s cell=%r: %s' % (mod.__name__, kind, cell, b))

    # fixed inputs for the fingerprint (tie-rich cells inside the quantifier,
    # and one cell outside it whose reduced basis needs an index of +3)
    fixed = [[3, 3, 5, 90, 90, 60], [4, 4, 4, 60, 60, 60],
             [5, 5, 5, 75, 75, 75], [4, 4, 7, 90, 90, 90],
             [5, 6, 7, 80, 85, 75], OUTSIDE]
    raw = []
    for c in fixed:
        for mod in (tools, laue):
            with np.errstate(all='ignore'):
                raw.append(['%.7f' % float(x) for x in mod.reduce_cell(list(c))])
    fp = hashlib.sha1(repr(raw).encode()).hexdigest()[:16]
    print('cases checked: %d (%s)' % (n_cases, ', '.join('%s=%d' % kv for kv in sorted(per_kind.items()))))
    print('info: output metric equals M G M^T itself in %d of %d cases' % (n_proper, n_cases))
    print('FINGERPRINT: %s  hex60=%s fccp=%s outside=%s' % (fp, raw[0], raw[2], raw[10]))
    if n_cases < 300:
        failures.append('too few cases generated: %d' % n_cases)
    if failures:
        print('PROPERTY VIOLATED in %d checks' % len(failures))
        for f in failures[:20]:
            print('  ', f)
        return 1
    print('OK: property holds on all cases')
    return 0


# a cell outside the quantifier: reduced cell [5,6,7,80,85,75] re-based with
# c' = c + 3a.  The third vector of the reduced basis (the one on the positive
# side of the plane of the first two) is then 3a' - c', index +3 along a'.
def _outside():
    G = metric([5, 6, 7, 80, 85, 75])
    M = np.array([[1, 0, 0], [0, 1, 0], [3, 0, 1]])
    return cell_of(M.dot(G).dot(M.T))


OUTSIDE = _outside()

if __name__ == '__main__':
    sys.exit(main())
