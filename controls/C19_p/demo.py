"""
C19 control p: saveparameters writes its lines in another order.

Property tested (independently of the library's own parsing):
  save -> load gives back the same name->value mapping for int, float
  (bit-exact) and space-free non-numeric strings; numeric-looking strings
  come back as int when they parse as int, else float; hyphens in names
  become underscores.  The saved file holds exactly one "name value" line per
  parameter (in whatever order).

Run: PYTHONPATH=<checkout root> /venv/bin/python -B demo.py
"""
import hashlib
import math
import os
import random
import struct
import sys
import tempfile

from xfab import parameters as P

rng = random.Random(1903)
NAMECHARS = "abcdefghijklmnopqrstuvwxyzABCDEFGHIJKLMNOPQRSTUVWXYZ0123456789-_"
STRCHARS = "".join(chr(c) for c in range(33, 127))     # printable, no space

failures = []


def fail(msg):
    failures.append(msg)
    if len(failures) <= 10:
        print("VIOLATION:", msg)


def gen_name():
    n = rng.randint(1, 8)
    return "".join(rng.choice(NAMECHARS) for _ in range(n))


def looks_numeric(s):
    try:
        float(s)
        return True
    except ValueError:
        return False


def gen_float():
    k = rng.random()
    if k < 0.05:
        return rng.choice([0.0, -0.0, float("inf"), float("-inf"), 5e-324,
                           1.7976931348623157e308, 2.0, -3.0, 1e16, 1e22])
    if k < 0.5:
        while True:
            x = struct.unpack("<d", struct.pack("<Q", rng.getrandbits(64)))[0]
            if not math.isnan(x):
                return x
    if k < 0.75:
        return rng.uniform(-1000, 1000)
    return round(rng.uniform(-10, 10), rng.randint(0, 6))


def gen_int():
    k = rng.random()
    if k < 0.6:
        return rng.randint(-1000, 1000)
    return rng.randint(-10 ** 30, 10 ** 30)


def gen_str():
    while True:
        n = rng.randint(0, 10) if rng.random() < 0.97 else 0
        s = "".join(rng.choice(STRCHARS) for _ in range(n))
        if not looks_numeric(s):
            return s


def gen_numeric_string():
    k = rng.random()
    if k < 0.4:
        return rng.choice(["%d", "+%d", "00%d"]) % rng.randint(0, 10 ** 6)
    if k < 0.5:
        return "-%d" % rng.randint(0, 10 ** 12)
    if k < 0.8:
        return repr(gen_float())
    return rng.choice(["1e3", "2.50", "-.5", "1E-7", "12.", "3.0", "inf",
                       "1_000", "6.02e23"])


def expected_after_load(v):
    """independent statement of what a saved value must come back as"""
    if type(v) is str:
        if looks_numeric(v):
            try:
                return int(v)
            except ValueError:
                return float(v)
        return v
    return v


def same(a, b):
    if type(a) is not type(b):
        return False
    if type(a) is float:
        return struct.pack("<d", a) == struct.pack("<d", b)
    return a == b


def norm(name):
    return name.replace("-", "_")


def one_case(tmpdir, idx, allow_collisions):
    n = rng.randint(0, 12)
    d = {}
    while len(d) < n:
        name = gen_name()
        if not allow_collisions and any(norm(name) == norm(k) for k in d):
            continue
        k = rng.random()
        if k < 0.3:
            d[name] = gen_int()
        elif k < 0.6:
            d[name] = gen_float()
        elif k < 0.85:
            d[name] = gen_str()
        else:
            d[name] = gen_numeric_string()
    if allow_collisions and d and rng.random() < 0.8:
        # force at least one pair name-with-hyphen / name-with-underscore
        base = rng.choice(list(d))
        if "-" not in base and "_" not in base:
            base = base + "-x"
            d[base] = gen_int()
        other = base.replace("-", "\0").replace("_", "-").replace("\0", "_")
        d[other] = gen_float()

    p = P.parameters()
    how = rng.randrange(3)
    items = list(d.items())
    rng.shuffle(items)
    for name, v in items:
        if how == 0:
            p.set(name, v)
        elif how == 1:
            p.addpar(P.par(name, v))
        else:
            p.parameters[name] = v
    fname = os.path.join(tmpdir, "case%d.par" % idx)
    p.saveparameters(fname)

    # --- the file: one "name value" line per parameter, any order
    with open(fname, "r") as f:
        text = f.read()
    lines = text.split("\n")
    if text and lines[-1] != "":
        fail("case %d: file does not end with a newline" % idx)
    got_lines = sorted(l for l in lines[:-1]) if text else []
    want_lines = sorted("%s %s" % (k, str(v)) for k, v in d.items())
    if got_lines != want_lines:
        fail("case %d: file lines %r != %r" % (idx, got_lines, want_lines))

    # --- load into a fresh object
    q = P.read_par_file(fname)
    got = q.get_parameters()
    groups = {}
    for k, v in d.items():
        groups.setdefault(norm(k), []).append(expected_after_load(v))
    if set(got.keys()) != set(groups.keys()):
        fail("case %d: names %r != %r" % (idx, sorted(got), sorted(groups)))
        return
    for k, cands in groups.items():
        if not any(same(got[k], c) for c in cands):
            fail("case %d: %r came back as %r, expected one of %r" %
                 (idx, k, got[k], cands))
        if not same(q.get(k), got[k]):
            fail("case %d: get(%r) disagrees with get_parameters" % (idx, k))

    # --- save the loaded object again and load once more: fixed point
    fname2 = fname + "2"
    q.saveparameters(fname2)
    r = P.read_par_file(fname2)
    got2 = r.get_parameters()
    if set(got2) != set(got) or not all(same(got2[k], got[k]) for k in got):
        fail("case %d: second save/load changed the mapping" % idx)


def fingerprint(tmpdir):
    p = P.parameters()
    fixed = [("wavelength", 0.2878), ("O11", 1), ("o12", -1), ("Z", 2.5),
             ("cell-c", 4.05), ("cell_a", 4.04), ("cell_b", "P-1"),
             ("t-x", 0), ("t_X", 1e-3), ("a", "12"), ("B", "foo")]
    for k, v in fixed:
        p.set(k, v)
    fname = os.path.join(tmpdir, "fixed.par")
    p.saveparameters(fname)
    with open(fname, "rb") as f:
        raw = f.read()
    order = [l.split(b" ")[0].decode() for l in raw.splitlines()]
    return "%s order=%s" % (hashlib.sha256(raw).hexdigest()[:16],
                            ",".join(order))


def main():
    tmpdir = tempfile.mkdtemp(prefix="c19p_")
    try:
        ncase = 0
        for i in range(400):
            one_case(tmpdir, i, allow_collisions=False)
            ncase += 1
        for i in range(400, 500):
            one_case(tmpdir, i, allow_collisions=True)
            ncase += 1
        print("FINGERPRINT: " + fingerprint(tmpdir))
    finally:
        for fn in os.listdir(tmpdir):
            os.remove(os.path.join(tmpdir, fn))
        os.rmdir(tmpdir)
    print("cases: %d  violations: %d" % (ncase, len(failures)))
    return 1 if failures else 0


if __name__ == "__main__":
    sys.exit(main())
