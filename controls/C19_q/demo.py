"""
C19 control q: set_varylist keeps a private copy of the list (any iterable is
accepted), set_variable_values takes any iterable and writes through
dict.update.

Property tested: after any sequence (length <= 30) of addpar, set,
set_parameters, set_varylist, set_variable_values, update_other and
update_yourself calls the object agrees with a plain dictionary model:
get / get_parameters return the last value written (set_parameters coerces
numeric-looking strings: int when they parse as int, else float; other strings
are stripped), and get_variable_values follows varylist order.

Run: PYTHONPATH=<checkout root> /venv/bin/python -B demo.py
"""
import hashlib
import random
import struct
import sys

from xfab import parameters as P

rng = random.Random(1917)
NAMES = ["a", "b", "c", "t_x", "t_y", "O11", "wavelength", "cell__a", "d", "e"]

failures = []


def fail(msg):
    failures.append(msg)
    if len(failures) <= 10:
        print("VIOLATION:", msg)


def same(a, b):
    if type(a) is not type(b):
        return False
    if type(a) is float:
        return struct.pack("<d", a) == struct.pack("<d", b)
    return a == b


def coerce(v):
    """independent model of the string coercion done by set_parameters"""
    if type(v) is not str:
        return v
    try:
        return int(v)
    except ValueError:
        pass
    try:
        return float(v)
    except ValueError:
        return v.strip()


def gen_value():
    k = rng.random()
    if k < 0.3:
        return rng.randint(-100, 100)
    if k < 0.65:
        return rng.choice([rng.uniform(-10, 10), rng.gauss(0, 1e-3), 0.1, -0.0,
                           1e300, float(rng.randint(-5, 5))])
    if k < 0.85:
        return rng.choice(["foo", "P21/c", "bar ", " baz", "x-y", "", "1e", "--"])
    return rng.choice(["12", "-3", "1.5", "1e3", " 7 ", "2.50", "+4", "0x10"])


class Model(object):
    """the plain dictionary model"""

    def __init__(self):
        self.d = {}
        self.varylist = []
        self.variable = []

    def addpar(self, name, value, vary, can_vary):
        self.d[name] = value
        if vary and name not in self.varylist:
            self.varylist.append(name)
        if can_vary and name not in self.variable:
            self.variable.append(name)

    def set_parameters(self, upd):
        self.d.update(upd)
        for k in list(self.d):
            self.d[k] = coerce(self.d[k])

    def varied(self):
        return [self.d[n] for n in self.varylist]


class Thing(object):
    pass


def compare(p, m, where):
    got = p.get_parameters()
    if set(got.keys()) != set(m.d.keys()):
        fail("%s: names %r != %r" % (where, sorted(got), sorted(m.d)))
        return False
    for k, v in m.d.items():
        if not same(got[k], v):
            fail("%s: get_parameters()[%r] = %r, model %r" % (where, k, got[k], v))
            return False
        if not same(p.get(k), v):
            fail("%s: get(%r) = %r, model %r" % (where, k, p.get(k), v))
            return False
    if list(p.varylist) != m.varylist:
        fail("%s: varylist %r, model %r" % (where, p.varylist, m.varylist))
        return False
    gv = p.get_variable_values()
    mv = m.varied()
    if type(gv) is not list or len(gv) != len(mv) or \
            not all(same(x, y) for x, y in zip(gv, mv)):
        fail("%s: get_variable_values %r, model %r" % (where, gv, mv))
        return False
    return True


def one_history(idx, trace=None):
    m = Model()
    init = {}
    for name in rng.sample(NAMES, rng.randint(0, 3)):
        init[name] = gen_value()
    p = P.parameters(**init)
    for k, v in init.items():
        m.addpar(k, v, False, False)
    nsteps = rng.randint(1, 30)
    for step in range(nsteps):
        where = "history %d step %d" % (idx, step)
        op = rng.choice(["addpar", "addpar", "set", "set", "set_parameters",
                         "set_varylist", "set_varylist", "set_variable_values",
                         "set_variable_values", "update_other",
                         "update_yourself", "bad_varylist"])
        if op == "addpar":
            name = rng.choice(NAMES)
            v = gen_value()
            vary = rng.random() < 0.4
            can_vary = vary or rng.random() < 0.5
            p.addpar(P.par(name, v, vary=vary, can_vary=can_vary,
                           stepsize=0.1))
            m.addpar(name, v, vary, can_vary)
        elif op == "set":
            name = rng.choice(NAMES)
            v = gen_value()
            p.set(name, v)
            m.d[name] = v
        elif op == "set_parameters":
            upd = dict((n, gen_value())
                       for n in rng.sample(NAMES, rng.randint(0, 4)))
            p.set_parameters(dict(upd))
            m.set_parameters(upd)
        elif op == "set_varylist":
            ok = [n for n in m.variable if n in m.d]
            vl = [rng.choice(ok) for _ in range(rng.randint(0, 4))] if ok else []
            if rng.random() < 0.7:
                vl = list(dict.fromkeys(vl))      # mostly without repeats
            p.set_varylist(list(vl))              # always a fresh list
            m.varylist = list(vl)
        elif op == "bad_varylist":
            bad = [n for n in NAMES if n not in m.variable]
            if not bad:
                continue
            vl = [n for n in m.variable if n in m.d][:2] + [rng.choice(bad)]
            try:
                p.set_varylist(list(vl))
            except AssertionError:
                pass
            else:
                fail("%s: set_varylist(%r) accepted a non-variable name"
                     % (where, vl))
        elif op == "set_variable_values":
            vals = [gen_value() for _ in m.varylist]
            p.set_variable_values(list(vals))
            for n, v in zip(m.varylist, vals):
                m.d[n] = v
        elif op == "update_other":
            o = Thing()
            present = [n for n in NAMES if rng.random() < 0.5]
            for n in present:
                setattr(o, n, "old")
            p.update_other(o)
            for n in NAMES:
                if n in present and n in m.d:
                    if not same(getattr(o, n), m.d[n]):
                        fail("%s: other.%s = %r, model %r" %
                             (where, n, getattr(o, n), m.d[n]))
                elif n in present:
                    if getattr(o, n) != "old":
                        fail("%s: other.%s touched" % (where, n))
                elif hasattr(o, n):
                    fail("%s: other.%s created" % (where, n))
        elif op == "update_yourself":
            o = Thing()
            for n in NAMES:
                if rng.random() < 0.5:
                    v = gen_value()
                    setattr(o, n, v)
                    if n in m.d:
                        m.d[n] = v
            p.update_yourself(o)
        if trace is not None:
            trace.append((op, sorted(p.get_parameters().items(), key=repr),
                          list(p.varylist), p.get_variable_values()))
        if not compare(p, m, where + " (" + op + ")"):
            return


def fingerprint():
    """what the object does with the list handed to set_varylist"""
    out = []
    p = P.parameters()
    for n in ("a", "b", "c"):
        p.addpar(P.par(n, 1.0, can_vary=True, stepsize=0.1))
    vl = ["b", "a"]
    p.set_varylist(vl)
    out.append("stored_is_callers=%s" % (p.varylist is vl))
    p.addpar(P.par("c", 3.0, vary=True, can_vary=True))
    out.append("callers_list_after_addpar=%s" % ",".join(vl))
    vl.append("a")
    out.append("n_varied_after_caller_append=%d" % len(p.get_variable_values()))
    # a generator of values
    q = P.parameters()
    for n in ("a", "b"):
        q.addpar(P.par(n, 0, vary=True, can_vary=True))
    try:
        q.set_variable_values(x * 0.5 for x in (1, 2))
        out.append("generator_values=%r" % (q.get_variable_values(),))
    except TypeError:
        out.append("generator_values=TypeError")
    # handing in the object's own variable_list
    r = P.parameters()
    r.addpar(P.par("a", 1, can_vary=True))
    r.set_varylist(r.get_variable_list())
    r.addpar(P.par("b", 2, can_vary=True))
    out.append("varied_after_own_variable_list=%r" % (r.get_variable_values(),))
    s = ";".join(out)
    return hashlib.sha256(s.encode()).hexdigest()[:12] + " " + s


def main():
    n = 600
    for i in range(n):
        one_history(i)
    print("FINGERPRINT: " + fingerprint())
    print("histories: %d  violations: %d" % (n, len(failures)))
    return 1 if failures else 0


if __name__ == "__main__":
    sys.exit(main())
