"""
Demo for control C19_s (addpar keeps its own copy of the par object and keeps
it up to date; set_varylist keeps its own copy of the list).

Checks property C19 with an independent model:
  1. save -> load gives back the same name -> value mapping for int, float
     (bit exact) and space-free non-numeric strings, whatever the order of
     the lines in the file; hyphens in names come back as underscores;
  2. files written by hand: numeric-looking strings become int when they
     parse as int, else float;
  3. random histories (<= 30 calls) of addpar / set / set_parameters /
     set_varylist / set_variable_values / update_other / update_yourself
     agree with a plain dict model.
Histories also hand the SAME par object to addpar more than once and hand fresh
lists to set_varylist; the caller's objects are never expected to be
kept or changed by the library.  Only get / get_parameters /
get_variable_values (and the files) are observed for the verdict.
Exit status 0 when the property holds.  Prints FINGERPRINT of the bookkeeping
the property does not speak about (par_objs contents and identity, identity
of the varylist) after a fixed history.
"""
from __future__ import print_function
import hashlib, os, random, re, shutil, struct, sys, tempfile, types

from xfab import parameters as P

FAIL = []


def bits(x):
    return struct.pack("<d", x)


def same(a, b):
    """ same type and same value, floats bit for bit """
    if type(a) is not type(b):
        return False
    if isinstance(a, float):
        return bits(a) == bits(b)
    return a == b


def same_list(got, want):
    return len(got) == len(want) and all(same(a, b) for a, b in zip(got, want))


def same_map(got, want):
    if set(got.keys()) != set(want.keys()):
        return False
    return all(same(got[k], want[k]) for k in want)


NAMECHARS = "abcxyzABCXYZ019_-."
STRCHARS = [chr(i) for i in range(33, 127)]
INT_RE = re.compile(r"^[+-]?[0-9]+$")


def gen_name(rng):
    n = rng.randint(1, 7)
    return "".join(rng.choice(NAMECHARS) for _ in range(n))


def gen_names(rng, k):
    """ k names, no two of which are the same once '-' has become '_' """
    out, seen = [], set()
    while len(out) < k:
        nm = gen_name(rng)
        key = nm.replace("-", "_")
        if key in seen:
            continue
        seen.add(key)
        out.append(nm)
    return out


def gen_float(rng):
    c = rng.random()
    if c < 0.5:
        while True:
            x = struct.unpack("<d", struct.pack("<Q", rng.getrandbits(64)))[0]
            if x == x:                       # no nan payloads
                return x
    if c < 0.6:
        return rng.choice([0.0, -0.0, float("inf"), float("-inf"), 5e-324,
                           1.7976931348623157e308, 2.0, -1.0, 1e22, 1e16])
    if c < 0.8:
        return rng.uniform(-1000, 1000)
    return float(rng.randint(-10 ** 6, 10 ** 6))


def gen_int(rng):
    c = rng.random()
    if c < 0.6:
        return rng.randint(-1000, 1000)
    if c < 0.9:
        return rng.randint(-10 ** 18, 10 ** 18)
    return rng.randint(-10 ** 40, 10 ** 40)


def gen_str(rng):
    while True:
        s = "".join(rng.choice(STRCHARS) for _ in range(rng.randint(1, 8)))
        try:
            float(s)
        except ValueError:
            return s


def gen_value(rng):
    return rng.choice([gen_int, gen_float, gen_str])(rng)


def parse_file(fn):
    """ independent reading of a parameter file: name -> text """
    out = {}
    with open(fn) as f:
        for line in f.read().split("\n"):
            if line == "":
                continue
            name, text = line.split(" ")
            assert name not in out, "name written twice"
            out[name] = text
    return out


# ---------------------------------------------------------------- part 1
def check_roundtrip(rng, tmp, n):
    for i in range(n):
        names = gen_names(rng, rng.randint(0, 12))
        model = dict((nm, gen_value(rng)) for nm in names)
        p = P.parameters()
        order = list(names)
        rng.shuffle(order)
        for nm in order:
            if rng.random() < 0.5:
                p.set(nm, model[nm])
            else:
                p.addpar(P.par(nm, model[nm]))
        fn = os.path.join(tmp, "rt%d.par" % i)
        p.saveparameters(fn)
        # the file carries every pair once, in whatever order
        txt = parse_file(fn)
        if set(txt) != set(names) or any(txt[k] != str(model[k]) for k in names):
            FAIL.append(("file contents", model, txt))
        want = dict((k.replace("-", "_"), v) for k, v in model.items())
        q = P.parameters()
        q.loadparameters(fn)
        if not same_map(q.get_parameters(), want):
            FAIL.append(("roundtrip", model, dict(q.get_parameters())))
        r = P.read_par_file(fn)
        if not same_map(r.get_parameters(), want):
            FAIL.append(("read_par_file", model, dict(r.get_parameters())))
        # a second trip does not change anything any more
        fn2 = os.path.join(tmp, "rt%d_b.par" % i)
        q.saveparameters(fn2)
        s = P.read_par_file(fn2)
        if not same_map(s.get_parameters(), want):
            FAIL.append(("second trip", model, dict(s.get_parameters())))


# ---------------------------------------------------------------- part 2
def check_handwritten(rng, tmp, n):
    for i in range(n):
        names = gen_names(rng, rng.randint(1, 10))
        lines, want = [], {}
        for nm in names:
            c = rng.random()
            if c < 0.3:
                text = rng.choice(["%d", "+%d", "-%d", "00%d"]) % rng.randint(0, 10 ** 6)
            elif c < 0.6:
                text = rng.choice(["%r", "%.3f", "%.5e", "%.1f"]) % rng.uniform(-50, 50)
            elif c < 0.7:
                text = rng.choice(["1e3", "-2E-2", ".5", "7.", "inf", "-inf", "1e400"])
            else:
                text = gen_str(rng)
            lines.append("%s %s\n" % (nm, text))
            if INT_RE.match(text):
                val = int(text)
            else:
                try:
                    val = float(text)
                except ValueError:
                    val = text
            want[nm.replace("-", "_")] = val
        fn = os.path.join(tmp, "hw%d.par" % i)
        with open(fn, "w") as f:
            f.write("".join(lines))
        q = P.read_par_file(fn)
        if not same_map(q.get_parameters(), want):
            FAIL.append(("handwritten", lines, dict(q.get_parameters())))


# ---------------------------------------------------------------- part 3
class Model(object):
    def __init__(self):
        self.values = {}
        self.varylist = []
        self.variable_list = []


def check_history(rng, n):
    pool_all = gen_names(rng, 40)
    for i in range(n):
        pool = rng.sample(pool_all, 6)
        p = P.parameters()
        m = Model()
        kept = []
        for step in range(rng.randint(1, 30)):
            op = rng.choice(["addpar", "addpar", "readd", "set", "set_parameters",
                             "set_varylist", "set_variable_values",
                             "update_other", "update_yourself"])
            if op == "addpar":
                nm, v = rng.choice(pool), gen_value(rng)
                vary, can = rng.random() < 0.5, rng.random() < 0.7
                q = P.par(nm, v, vary=vary, can_vary=can,
                          stepsize=rng.random())
                kept.append((q, q.tostringlist()))
                p.addpar(q)
                m.values[nm] = v
                if vary and nm not in m.varylist:
                    m.varylist.append(nm)
                if can and nm not in m.variable_list:
                    m.variable_list.append(nm)
            elif op == "readd":
                if not kept:
                    continue
                q, was = rng.choice(kept)
                # what is written is what the caller's object says
                nm, v, vary, can = q.name, q.value, q.vary, q.can_vary
                p.addpar(q)
                m.values[nm] = v
                if vary and nm not in m.varylist:
                    m.varylist.append(nm)
                if can and nm not in m.variable_list:
                    m.variable_list.append(nm)
            elif op == "set":
                nm, v = rng.choice(pool), gen_value(rng)
                p.set(nm, v)
                m.values[nm] = v
            elif op == "set_parameters":
                d = dict((rng.choice(pool), gen_value(rng))
                         for _ in range(rng.randint(0, 3)))
                p.set_parameters(dict(d))
                m.values.update(d)
            elif op == "set_varylist":
                ok = [x for x in m.variable_list if x in m.values]
                vl = rng.sample(ok, rng.randint(0, len(ok)))
                p.set_varylist(list(vl))
                m.varylist = list(vl)
                if not same_list(p.get_variable_values(),
                                 [m.values[x] for x in vl]):
                    FAIL.append(("order after set_varylist", i, step))
            elif op == "set_variable_values":
                vals = [gen_value(rng) for _ in m.varylist]
                p.set_variable_values(list(vals))
                for nm, v in zip(m.varylist, vals):
                    m.values[nm] = v
            elif op == "update_other":
                o = types.SimpleNamespace()
                before = {}
                for nm in rng.sample(pool, 3):
                    before[nm] = gen_value(rng)
                    setattr(o, nm, before[nm])
                p.update_other(o)
                for nm in before:
                    w = m.values[nm] if nm in m.values else before[nm]
                    if not same(getattr(o, nm), w):
                        FAIL.append(("update_other", i, step, nm))
                if set(vars(o)) != set(before):
                    FAIL.append(("update_other made attributes", i, step))
            elif op == "update_yourself":
                o = types.SimpleNamespace()
                for nm in rng.sample(pool, 3):
                    v = gen_value(rng)
                    setattr(o, nm, v)
                    if nm in m.values:
                        m.values[nm] = v
                p.update_yourself(o)
            # observe
            if not same_map(p.get_parameters(), m.values):
                FAIL.append(("get_parameters", i, step, op))
            for nm in m.values:
                if not same(p.get(nm), m.values[nm]):
                    FAIL.append(("get", i, step, op, nm))
            got = p.get_variable_values()
            want = [m.values[nm] for nm in m.varylist]
            if not same_list(got, want):
                FAIL.append(("get_variable_values", i, step, op, got, want))
            if not isinstance(got, list):
                FAIL.append(("get_variable_values not a list", i, step, op))
            if len(FAIL) > 5:
                return


# ---------------------------------------------------------------- fingerprint
def fingerprint(tmp):
    p = P.parameters(wavelength=0.5)
    qa = P.par("t_x", 1.0, vary=True, can_vary=True, stepsize=0.1)
    qb = P.par("t_y", 2.0, vary=False, can_vary=True, stepsize=0.1)
    qc = P.par("name", "abc")
    for q in (qa, qb, qc):
        p.addpar(q)
    vl = ["t_y", "t_x"]
    p.set_varylist(vl)
    p.set_variable_values([20.5, 10.5])
    p.set("name", "xyz")
    p.set_parameters({"t_x": "11"})
    vl2 = ["t_y"]
    p.set_varylist(vl2)
    o = types.SimpleNamespace(t_y=-3)
    p.update_yourself(o)
    rows = []
    for nm in sorted(p.par_objs):
        obj = p.par_objs[nm]
        rows.append("%s=%r/vary=%r" % (nm, obj.value, obj.vary))
    rows.append("par_objs[t_x] is caller's: %r" % (p.par_objs["t_x"] is qa))
    rows.append("varylist is caller's: %r" % (p.varylist is vl2))
    # what the property does speak about, for reference (same on both trees)
    rows.append("values=%r varied=%r" % (sorted(p.get_parameters().items()),
                                          p.get_variable_values()))
    return " ".join(rows)


def main():
    rng = random.Random(1909)
    tmp = tempfile.mkdtemp(prefix="c19s_")
    try:
        check_roundtrip(rng, tmp, 300)
        check_handwritten(rng, tmp, 200)
        check_history(rng, 300)
        print("FINGERPRINT: %s" % fingerprint(tmp))
    finally:
        shutil.rmtree(tmp, ignore_errors=True)
    if FAIL:
        for f in FAIL[:5]:
            print("VIOLATION:", f)
        print("property C19 violated (%d)" % len(FAIL))
        return 1
    print("property C19 holds on all generated cases")
    return 0


if __name__ == "__main__":
    sys.exit(main())
