"""Demo for property C20 (input checks reject exactly the invalid inputs, and
only while switched on; the switch takes only True/False).

Run as:  PYTHONPATH=<checkout root> /venv/bin/python -B demo.py

Exits 0 when the property holds on a few hundred generated inputs and
histories, non-zero otherwise.  Validity of every generated input is decided
here with an independent computation (singular values, determinant, plain
range tests), never with the library's own checks.

Prints one line "FINGERPRINT: ..." that shows raw behaviour the property leaves
open (see fingerprint() at the bottom).
"""
import hashlib
import sys

import numpy as np

import xfab
from xfab import checks, laue, symmetry, tools

RNG = np.random.RandomState(20200)
TWO_PI = 2 * np.pi
FAILURES = []


def fail(msg):
    FAILURES.append(msg)
    if len(FAILURES) <= 20:
        print("VIOLATION:", msg)


# ----------------------------------------------------------------------------
# independent generators / oracles
# ----------------------------------------------------------------------------
def rot_from_quaternion(q):
    w, x, y, z = q / np.sqrt((q * q).sum())
    return np.array([[1 - 2 * (y * y + z * z), 2 * (x * y - z * w), 2 * (x * z + y * w)],
                     [2 * (x * y + z * w), 1 - 2 * (x * x + z * z), 2 * (y * z - x * w)],
                     [2 * (x * z - y * w), 2 * (y * z + x * w), 1 - 2 * (x * x + y * y)]])


def random_rotation():
    while True:
        U = rot_from_quaternion(RNG.standard_normal(4))
        # stay away from 180 degree rotations: u_to_rod has its own,
        # unrelated, ValueError('Wrong trace of U') there
        if abs(1 + np.trace(U)) > 0.05 and abs(1 - np.trace(U)) > 0.05:
            return U


def oracle_rotation(M):
    """'valid', 'invalid' or 'open' (inside the band the property leaves open)."""
    M = np.asarray(M, float)
    s = np.linalg.svd(M, compute_uv=False)
    dev = np.abs(s - 1).max()
    det = np.linalg.det(M)
    if dev < 4e-7 and det > 0:
        return "valid"
    if dev > 2e-4 or det < 0:
        return "invalid"
    return "open"


def clearly_valid_rotation(kind):
    U = random_rotation()
    if kind == 0:
        M = U
    elif kind == 1:                      # perturbed by < 1e-7
        M = U + RNG.uniform(-9e-8, 9e-8, (3, 3))
    else:                                # float32 precision
        M = U.astype(np.float32)
    assert oracle_rotation(M) == "valid"
    return M


def clearly_invalid_rotation(kind):
    while True:
        U = random_rotation()
        if kind == 0:                    # perturbed by 1e-3 .. 1
            E = RNG.standard_normal((3, 3))
            size = 10 ** RNG.uniform(-3, 0)
            M = U + size * E / np.abs(E).max()
        elif kind == 1:                  # improper: a mirror image
            M = np.dot(U, np.diag([1., 1., -1.]))
        else:                            # improper: inversion
            M = -U
        if oracle_rotation(M) == "invalid" and abs(np.linalg.det(M)) > 1e-3 \
                and abs(1 + np.trace(M)) > 0.05:
            return M


def random_cell():
    while True:
        cell = [RNG.uniform(3, 9), RNG.uniform(3, 9), RNG.uniform(3, 9),
                RNG.uniform(70, 110), RNG.uniform(70, 110), RNG.uniform(70, 110)]
        ca, cb, cg = np.cos(np.radians(cell[3:]))
        if 1 - ca * ca - cb * cb - cg * cg + 2 * ca * cb * cg > 0.3:
            return cell


def direct_basis(cell):
    """columns a, b, c of a right handed direct lattice; a along x, b in xy."""
    a, b, c = cell[:3]
    ca, cb, cg = np.cos(np.radians(cell[3:]))
    sg = np.sin(np.radians(cell[5]))
    cx = c * cb
    cy = c * (ca - cb * cg) / sg
    cz = np.sqrt(c * c - cx * cx - cy * cy)
    return np.array([[a, b * cg, cx], [0, b * sg, cy], [0, 0, cz]])


def handedness(ubi):
    return np.linalg.det(np.asarray(ubi, float))


def valid_ubi(kind):
    cell = random_cell()
    ubi = np.dot(random_rotation(), direct_basis(cell)).T     # rows: a, b, c in the lab
    if kind == 1:
        ubi = ubi + RNG.uniform(-9e-8, 9e-8, (3, 3))
    assert handedness(ubi) > 1.0
    return ubi, cell


def left_handed_ubi(kind):
    ubi, cell = valid_ubi(0)
    if kind == 0:
        ubi = ubi[[1, 0, 2]]
    elif kind == 1:
        ubi = -ubi
    else:
        ubi = ubi.copy()
        ubi[2] = -ubi[2]
    assert handedness(ubi) < -1.0
    return ubi, cell


def valid_euler():
    ang = list(RNG.uniform(0, TWO_PI, 3))
    k = RNG.randint(0, 8)
    if k < 3:
        ang[k] = [0.0, TWO_PI, 0][k]      # the closed ends of the range
    return ang


def invalid_euler():
    ang = valid_euler()
    d = 10 ** RNG.uniform(-3, 0)
    ang[RNG.randint(0, 3)] = -d if RNG.rand() < 0.5 else TWO_PI + d
    return ang


# ----------------------------------------------------------------------------
# the calls of the quantifier, for both copies of the API (tools and laue)
# ----------------------------------------------------------------------------
def rotation_calls(M):
    cell = random_cell()
    V = clearly_valid_rotation(0)
    cs = int(RNG.randint(1, 8))
    out = []
    for mod in (tools, laue):
        out.append((mod.__name__ + ".u_to_euler", lambda mod=mod: mod.u_to_euler(M)))
        out.append((mod.__name__ + ".u_to_rod", lambda mod=mod: mod.u_to_rod(M)))
        out.append((mod.__name__ + ".u_to_ubi", lambda mod=mod: mod.u_to_ubi(M, cell)))
    out.append(("symmetry.Umis(M,V)", lambda: symmetry.Umis(M, V, cs)))
    out.append(("symmetry.Umis(V,M)", lambda: symmetry.Umis(V, M, cs)))
    out.append(("symmetry.Umis(M,M)", lambda: symmetry.Umis(M, M, cs)))
    return out


def ubi_calls(ubi, cell):
    out = []
    for mod in (tools, laue):
        out.append((mod.__name__ + ".ubi_to_u", lambda mod=mod: mod.ubi_to_u(ubi)))
        out.append((mod.__name__ + ".ubi_to_u_and_eps",
                    lambda mod=mod: mod.ubi_to_u_and_eps(ubi, cell)))
    return out


def euler_calls(ang):
    return [(mod.__name__ + ".euler_to_u", lambda mod=mod: mod.euler_to_u(*ang))
            for mod in (tools, laue)]


def ub_calls(UB):
    return [(mod.__name__ + ".ub_to_u_b", lambda mod=mod: mod.ub_to_u_b(UB))
            for mod in (tools, laue)]


def same(a, b):
    if isinstance(a, tuple):
        return len(a) == len(b) and all(same(x, y) for x, y in zip(a, b))
    return np.array_equal(np.asarray(a), np.asarray(b))


def run(call):
    try:
        return ("ok", call())
    except ValueError as e:
        return ("ValueError", e)
    except Exception as e:                      # pragma: no cover
        return ("other", e)


def expect_valid(name, call):
    """never rejected; same values with the switch on and off."""
    xfab.CHECKS.activated = True
    on = run(call)
    xfab.CHECKS.activated = False
    off = run(call)
    xfab.CHECKS.activated = True
    if on[0] != "ok":
        fail("%s rejected a valid input while on: %r" % (name, on[1]))
    elif off[0] != "ok":
        fail("%s raised while off: %r" % (name, off[1]))
    elif not same(on[1], off[1]):
        fail("%s returns different values on/off" % name)
    return on


def expect_invalid(name, call):
    """ValueError while on, nothing raised while off."""
    xfab.CHECKS.activated = True
    on = run(call)
    xfab.CHECKS.activated = False
    off = run(call)
    xfab.CHECKS.activated = True
    if on[0] != "ValueError":
        fail("%s accepted an invalid input while on (%s)" % (name, on[0]))
    if off[0] != "ok":
        fail("%s raised while off: %r" % (name, off[1]))


# ----------------------------------------------------------------------------
# part 1: inputs
# ----------------------------------------------------------------------------
def part_inputs():
    n = 0
    for i in range(60):
        M = clearly_valid_rotation(i % 3)
        for name, call in rotation_calls(M):
            expect_valid(name, call); n += 1
        M = clearly_invalid_rotation(i % 3)
        for name, call in rotation_calls(M):
            expect_invalid(name, call); n += 1
    for i in range(60):
        ubi, cell = valid_ubi(i % 2)
        for name, call in ubi_calls(ubi, cell):
            res = expect_valid(name, call); n += 1
            if res[0] == "ok":
                U = res[1][0] if isinstance(res[1], tuple) else res[1]
                if oracle_rotation(U) != "valid":
                    fail("%s did not return a rotation" % name)
        # a right handed lattice stays acceptable when it is deformed
        E = RNG.standard_normal((3, 3))
        ubi_d = ubi + 10 ** RNG.uniform(-3, -1) * E / np.abs(E).max()
        assert handedness(ubi_d) > 1.0
        for name, call in ubi_calls(ubi_d, cell):
            expect_valid(name + "(deformed)", call); n += 1
        ubi, cell = left_handed_ubi(i % 3)
        for name, call in ubi_calls(ubi, cell):
            expect_invalid(name, call); n += 1
    for i in range(60):
        ang = valid_euler()
        for name, call in euler_calls(ang):
            res = expect_valid(name, call); n += 1
            if res[0] == "ok" and oracle_rotation(res[1]) != "valid":
                fail("%s did not return a rotation" % name)
        for name, call in euler_calls(invalid_euler()):
            expect_invalid(name, call); n += 1
    for i in range(40):
        U = random_rotation()
        B = np.triu(RNG.uniform(-1, 1, (3, 3)))
        B[np.diag_indices(3)] = RNG.uniform(0.5, 2, 3)
        UB = np.dot(U, B)
        if i % 2:
            E = RNG.standard_normal((3, 3))
            UB = UB + 10 ** RNG.uniform(-3, -1.5) * E / np.abs(E).max()   # still a fine UB
        for name, call in ub_calls(UB):
            res = expect_valid(name, call); n += 1
            if res[0] == "ok":
                U2, B2 = res[1]
                if oracle_rotation(U2) != "valid" or not np.allclose(np.dot(U2, B2), UB, atol=1e-9):
                    fail("%s: U.B != UB" % name)
    return n


# ----------------------------------------------------------------------------
# part 2: histories of assignments to the switch, interleaved with calls
# ----------------------------------------------------------------------------
class Weird(object):
    def __bool__(self):
        return True
    __nonzero__ = __bool__


BAD_VALUES = [0, 1, None, "True", "False", "", 1.0, 0.0, [], [True], (), np.True_,
              np.bool_(False), np.array(True), Weird(), "yes", 2, -1]


def part_histories():
    n = 0
    for h in range(25):
        xfab.CHECKS.activated = True
        model = True
        for step in range(30):
            r = RNG.rand()
            if r < 0.3:
                v = bool(RNG.randint(0, 2))
                xfab.CHECKS.activated = v
                model = v
            elif r < 0.6:
                v = BAD_VALUES[RNG.randint(0, len(BAD_VALUES))]
                try:
                    xfab.CHECKS.activated = v
                    fail("switch accepted %r" % (v,))
                except ValueError:
                    pass
            if xfab.CHECKS.activated is not model:
                fail("switch state %r, last valid assignment %r" % (xfab.CHECKS.activated, model))
            # one call: must follow the modelled state
            k = RNG.randint(0, 6)
            if k == 0:
                calls, valid = rotation_calls(clearly_valid_rotation(RNG.randint(0, 3))), True
            elif k == 1:
                calls, valid = rotation_calls(clearly_invalid_rotation(RNG.randint(0, 3))), False
            elif k == 2:
                calls, valid = ubi_calls(*valid_ubi(RNG.randint(0, 2))), True
            elif k == 3:
                calls, valid = ubi_calls(*left_handed_ubi(RNG.randint(0, 3))), False
            elif k == 4:
                calls, valid = euler_calls(valid_euler()), True
            else:
                calls, valid = euler_calls(invalid_euler()), False
            name, call = calls[RNG.randint(0, len(calls))]
            got = run(call)[0]
            want = "ok" if (valid or not model) else "ValueError"
            if got != want:
                fail("history %d step %d: %s gave %s, expected %s (switch %r, input %s)"
                     % (h, step, name, got, want, model, "valid" if valid else "invalid"))
            if xfab.CHECKS.activated is not model:
                fail("a call changed the switch")
            n += 1
    xfab.CHECKS.activated = True
    return n


# ----------------------------------------------------------------------------
# fingerprint: behaviour the property leaves open
#   * verdict on a matrix scaled by (1 + 3e-6): U.T.U - I = 6e-6 on the diagonal,
#     i.e. between "perturbed by < 1e-7" and "perturbed by >= 1e-3"
#   * text of the message for an improper (mirror image) matrix
#   * whether numpy.allclose / numpy.linalg.det are used while checking
# ----------------------------------------------------------------------------
def fingerprint():
    xfab.CHECKS.activated = True
    U0 = rot_from_quaternion(np.array([0.9, 0.1, -0.3, 0.2]))
    Ug = U0 * (1 + 3e-6)
    cell = [4., 5., 6., 85., 95., 100.]
    verdict = ""
    for call in (lambda: tools.u_to_euler(Ug), lambda: tools.u_to_rod(Ug),
                 lambda: tools.u_to_ubi(Ug, cell), lambda: laue.u_to_euler(Ug),
                 lambda: symmetry.Umis(U0, Ug, 7)):
        verdict += "R" if run(call)[0] == "ValueError" else "A"
    msg = str(run(lambda: tools.u_to_rod(np.dot(U0, np.diag([1., 1., -1.]))))[1])

    counts = {"allclose": 0, "det": 0}
    real_allclose, real_det = np.allclose, np.linalg.det

    def spy_allclose(*a, **k):
        counts["allclose"] += 1
        return real_allclose(*a, **k)

    def spy_det(*a, **k):
        counts["det"] += 1
        return real_det(*a, **k)
    np.allclose, np.linalg.det = spy_allclose, spy_det
    try:
        tools.u_to_rod(U0)
    finally:
        np.allclose, np.linalg.det = real_allclose, real_det
    raw = "gap=%s|msg=%s|allclose=%d|det=%d" % (verdict, msg, counts["allclose"], counts["det"])
    return "%s gap-verdicts=%s numpy.allclose-calls=%d numpy.linalg.det-calls=%d" % (
        hashlib.sha1(raw.encode()).hexdigest()[:16], verdict, counts["allclose"], counts["det"])


if __name__ == "__main__":
    n1 = part_inputs()
    n2 = part_histories()
    print("checked %d calls on generated inputs, %d history steps" % (n1, n2))
    print("FINGERPRINT: " + fingerprint())
    xfab.CHECKS.activated = True
    if FAILURES:
        print("%d violations" % len(FAILURES))
        sys.exit(1)
    print("property C20 holds on all generated inputs")
    sys.exit(0)
