"""Demo for control C20_s.

Tests property C20 (input checks reject exactly the invalid inputs and only
while xfab.CHECKS.activated is True; the switch accepts only True/False and its
state is the last valid value assigned) with an oracle that does not use xfab's
own check code: validity of every generated input is decided here from
max|M^T M - I|, the sign of the determinant, the angle range and the sign of the
triple product, and the switch is followed by a one-variable model.

Only the public surface named in the property is used: xfab.CHECKS.activated and
the guarded functions. The valid side is pushed to the edge of what the
quantifier allows (perturbations of 9.9e-8 aligned with the matrix elements,
rotations computed entirely in float32).

Run as: PYTHONPATH=<checkout root> /venv/bin/python -B demo.py
Exit status 0 = property holds on everything generated; 1 = violation.
"""
import sys
import warnings
import numpy as np

import xfab
from xfab import tools, symmetry

warnings.simplefilter("ignore")
np.seterr(all="ignore")

rng = np.random.RandomState(2020)
TWO_PI = 2 * np.pi
failures = []


def fail(msg):
    failures.append(msg)
    if len(failures) <= 20:
        print("VIOLATION:", msg)


# ------------------------------------------------------------------ generators
def rotation():
    """Random proper rotation from axis and angle (Rodrigues' formula)."""
    ax = rng.normal(size=3)
    ax /= np.linalg.norm(ax)
    ang = rng.uniform(0.05, np.pi - 0.05)   # stay away from trace = -1
    K = np.array([[0, -ax[2], ax[1]], [ax[2], 0, -ax[0]], [-ax[1], ax[0], 0]])
    return np.eye(3) + np.sin(ang) * K + (1 - np.cos(ang)) * K.dot(K)


def classify_rotation(M):
    """'valid', 'invalid' or None (grey zone, outside the quantifier)."""
    dev = np.abs(M.T.dot(M) - np.eye(3)).max()
    det = np.linalg.det(M)
    if dev < 5e-7 and det > 0:
        return "valid"
    if dev > 1e-4 or det < 0:
        return "invalid"
    return None


def rotation32():
    """The same construction carried out in single precision throughout."""
    f = np.float32
    ax = rng.normal(size=3).astype(f)
    ax = ax / np.sqrt((ax * ax).sum(dtype=f))
    ang = f(rng.uniform(0.05, np.pi - 0.05))
    K = np.array([[0, -ax[2], ax[1]], [ax[2], 0, -ax[0]], [-ax[1], ax[0], 0]], f)
    R = np.eye(3, dtype=f) + np.sin(ang) * K + (f(1) - np.cos(ang)) * K.dot(K)
    assert R.dtype == np.float32
    return R


def valid_rotation():
    R = rotation()
    kind = rng.randint(5)
    if kind == 1:                                  # stored in float32
        R = R.astype(np.float32).astype(float)
    elif kind == 2:                                # perturbed by < 1e-7, random signs
        R = R + rng.uniform(-1, 1, (3, 3)) * 9.9e-8
    elif kind == 3:                                # perturbed by < 1e-7, worst case for the
        R = R + np.sign(R) * 9.9e-8 * rng.choice([-1, 1])   # column norms: all along R
    elif kind == 4:                                # computed in float32
        R = rotation32().astype(float)
    if kind == 4:
        # valid by construction; single precision arithmetic leaves up to ~1.2e-6 on
        # the squared column norms
        assert np.abs(R.T.dot(R) - np.eye(3)).max() < 2e-6 and np.linalg.det(R) > 0
    else:
        assert classify_rotation(R) == "valid"
    return R


def invalid_rotation():
    while True:
        R = rotation()
        kind = rng.randint(3)
        eps = 10 ** rng.uniform(-3, 0)
        if kind == 0:                              # generic perturbation 1e-3..1
            E = rng.uniform(0.5, 1, (3, 3)) * rng.choice([-1, 1], (3, 3))
            M = R + eps * E
        elif kind == 1:                            # improper: a mirror image
            M = R.dot(np.diag([1, 1, -1.0]))
        else:                                      # not normalised
            M = R * (1 + eps)
        if classify_rotation(M) == "invalid":
            return M


def cell():
    return [rng.uniform(3, 9), rng.uniform(3, 9), rng.uniform(3, 9),
            rng.uniform(75, 105), rng.uniform(75, 105), rng.uniform(75, 105)]


def valid_ubi():
    """Rows = right-handed lattice vectors."""
    L = np.diag(rng.uniform(3, 9, 3)) + np.triu(rng.uniform(-1, 1, (3, 3)), 1)
    ubi = rotation().dot(L).T
    if rng.randint(2):
        ubi = ubi + rng.uniform(-1, 1, (3, 3)) * 9e-8
    assert np.linalg.det(ubi) > 1
    return ubi


def invalid_ubi():
    ubi = valid_ubi()
    kind = rng.randint(3)
    if kind == 0:
        ubi = ubi[[1, 0, 2]]
    elif kind == 1:
        ubi = -ubi
    else:
        ubi = ubi * np.array([[1.0], [1.0], [-1.0]])
    ubi = ubi + rng.uniform(-1, 1, (3, 3)) * 10 ** rng.uniform(-3, -1)
    assert np.linalg.det(ubi) < -1
    return ubi


def valid_ub():
    B = np.diag(rng.uniform(0.5, 2, 3)) + np.triu(rng.uniform(-0.3, 0.3, (3, 3)), 1)
    return valid_rotation().dot(B)


def invalid_ub():
    M = valid_ub()
    M = M[:, [1, 0, 2]] if rng.randint(2) else M.dot(np.diag([1, -1.0, 1]))
    assert np.linalg.det(M) < -1e-2
    return M


def valid_euler():
    a = rng.uniform(1e-6, TWO_PI - 1e-6, 3)
    k = rng.randint(4)
    if k == 0:
        a[rng.randint(3)] = 0.0
    elif k == 1:
        a[rng.randint(3)] = TWO_PI
    elif k == 2:
        a = a + rng.uniform(-1, 1, 3) * 9e-8
    assert np.all(a >= 0) and np.all(a <= TWO_PI)
    return tuple(float(x) for x in a)


def invalid_euler():
    a = list(valid_euler())
    e = 10 ** rng.uniform(-3, 0)
    a[rng.randint(3)] = -e if rng.randint(2) else TWO_PI + e
    return tuple(a)


APIS = {
    "u_to_euler": (tools.u_to_euler, lambda: (valid_rotation(),), lambda: (invalid_rotation(),)),
    "u_to_rod": (tools.u_to_rod, lambda: (valid_rotation(),), lambda: (invalid_rotation(),)),
    "u_to_ubi": (tools.u_to_ubi, lambda: (valid_rotation(), cell()), lambda: (invalid_rotation(), cell())),
    "ubi_to_u": (tools.ubi_to_u, lambda: (valid_ubi(),), lambda: (invalid_ubi(),)),
    "ubi_to_u_and_eps": (tools.ubi_to_u_and_eps, lambda: (valid_ubi(), cell()), lambda: (invalid_ubi(), cell())),
    "euler_to_u": (tools.euler_to_u, valid_euler, invalid_euler),
    "ub_to_u_b": (tools.ub_to_u_b, lambda: (valid_ub(),), lambda: (invalid_ub(),)),
    "Umis": (symmetry.Umis,
             lambda: (valid_rotation(), valid_rotation(), int(rng.randint(1, 8))),
             lambda: ((invalid_rotation(), valid_rotation(), int(rng.randint(1, 8))) if rng.randint(2)
                      else (valid_rotation(), invalid_rotation(), int(rng.randint(1, 8))))),
}
NAMES = sorted(APIS)

INVALID_SWITCH_VALUES = [0, 1, None, "True", "False", "", 1.0, 0.0, [], [True], (),
                         np.bool_(True), np.bool_(False), np.array(True), "yes", object()]


def flat(res):
    if isinstance(res, tuple):
        return np.concatenate([np.ravel(np.asarray(r, float)) for r in res])
    return np.ravel(np.asarray(res, float))


def copy_args(args):
    return tuple(a.copy() if isinstance(a, np.ndarray) else (list(a) if isinstance(a, list) else a)
                 for a in args)


# ------------------------------------------------------------------ histories
def run_history(n_steps):
    model = xfab.CHECKS.activated        # whatever the previous history left
    stored = []
    for _ in range(n_steps):
        r = rng.rand()
        if r < 0.25:                                   # valid assignment
            v = bool(rng.randint(2))
            xfab.CHECKS.activated = v
            model = v
        elif r < 0.40:                                 # invalid assignment
            v = INVALID_SWITCH_VALUES[rng.randint(len(INVALID_SWITCH_VALUES))]
            try:
                xfab.CHECKS.activated = v
            except ValueError:
                pass
            except Exception as e:
                fail("assigning %r raised %s, not ValueError" % (v, type(e).__name__))
            else:
                fail("assigning %r to the switch was accepted" % (v,))
        else:                                          # a guarded call
            name = NAMES[rng.randint(len(NAMES))]
            func, gen_ok, gen_bad = APIS[name]
            want_valid = rng.rand() < 0.5
            args = gen_ok() if want_valid else gen_bad()
            try:
                res = func(*copy_args(args))
                raised = None
            except ValueError as e:
                raised = e
            if want_valid:
                if raised is not None:
                    fail("%s rejected a valid input (switch %s): %s" % (name, model, raised))
                else:
                    stored.append((name, args, flat(res), model))
            else:
                if model and raised is None:
                    fail("%s accepted an invalid input while the switch is on" % name)
                if not model and raised is not None:
                    fail("%s raised ValueError while the switch is off: %s" % (name, raised))
        if xfab.CHECKS.activated is not model:
            fail("switch reads %r, last valid value assigned was %r" % (xfab.CHECKS.activated, model))
            xfab.CHECKS.activated = model
    # same values for valid inputs under the other setting
    for name, args, res, state in stored:
        xfab.CHECKS.activated = not state
        try:
            other = flat(APIS[name][0](*copy_args(args)))
        except ValueError as e:
            fail("%s rejected a valid input (switch %s): %s" % (name, not state, e))
            continue
        if not np.array_equal(res, other):
            fail("%s returns different values with the switch on and off" % name)
    return len(stored)


def fingerprint():
    """Accept (A) / reject (R) pattern, checks on, for a fixed rotation R sheared by s,
    M = R (I + s e0 e1^T), det M = 1, scalar product of columns 0 and 1 equal to s, with
    s between 1e-7 and 1e-3: inputs that are neither 'perturbed by < 1e-7' nor
    'perturbed by 1e-3..1', i.e. outside the quantifier of the property."""
    c, s_ = np.cos(0.3), np.sin(0.3)
    R = np.array([[c, -s_, 0], [s_, c, 0], [0, 0, 1.0]])
    xfab.CHECKS.activated = True
    out = []
    for s in [2e-7, 6e-7, 2e-6, 5e-6, 9e-6, 2e-5, 1e-4]:
        S = np.eye(3)
        S[0, 1] = s
        M = R.dot(S)
        for call in [lambda: tools.u_to_rod(M), lambda: symmetry.Umis(R, M, 7)]:
            try:
                call()
                out.append("A")
            except ValueError:
                out.append("R")
    return "sheared rotation, s=2e-7..1e-4, u_to_rod/Umis: " + "".join(out)


def edge_of_quantifier(n):
    """Smallest perturbations the quantifier still calls invalid (exactly 1e-3: on one
    element, on all elements with random signs and sizes, as a scale factor) must be
    rejected while the switch is on, and the largest it still calls valid (9.9e-8 on
    every element) accepted."""
    xfab.CHECKS.activated = True
    skipped = 0
    for i in range(n):
        R = rotation()
        k = i % 3
        if k == 0:
            M = R.copy()
            M[rng.randint(3), rng.randint(3)] += 1e-3 * rng.choice([-1, 1])
        elif k == 1:
            E = rng.uniform(-1, 1, (3, 3))
            M = R + 1e-3 * E / np.abs(E).max()
        else:
            M = R * (1 + 1e-3 * rng.choice([-1, 1]))
        if classify_rotation(M) != "invalid":
            skipped += 1
            continue
        for name, call in [("u_to_euler", lambda: tools.u_to_euler(M)),
                           ("u_to_rod", lambda: tools.u_to_rod(M)),
                           ("u_to_ubi", lambda: tools.u_to_ubi(M, cell())),
                           ("Umis", lambda: symmetry.Umis(R, M, 1 + i % 7))]:
            try:
                call()
            except ValueError:
                continue
            fail("%s accepted a rotation perturbed by 1e-3 (kind %d)" % (name, k))
        V = R + 9.9e-8 * rng.choice([-1, 1], (3, 3))
        try:
            tools.u_to_euler(V), tools.u_to_rod(V), symmetry.Umis(V, R, 1 + i % 7)
        except ValueError as e:
            fail("rejected a rotation perturbed by 9.9e-8: %s" % e)
    return skipped


def main():
    assert xfab.CHECKS.activated is True, "checks must be on by default (do not run with -O)"
    ncalls = 0
    for h in range(40):
        ncalls += run_history(40)
    skipped = edge_of_quantifier(600)
    print("edge of the quantifier: 600 matrices perturbed by exactly 1e-3 (%d not clearly "
          "invalid by the demo's own measure, skipped)" % skipped)
    xfab.CHECKS.activated = True
    print("histories: 40 x 40 steps, valid calls compared on/off: %d" % ncalls)
    print("FINGERPRINT: " + fingerprint())
    if failures:
        print("FAILED: %d violations" % len(failures))
        return 1
    print("OK: property C20 holds on everything generated")
    return 0


if __name__ == "__main__":
    sys.exit(main())
