#!/usr/bin/env python3
"""add_finding.py id property status commit 'what failed' 'mechanism'   (development helper; never used at run time)"""
import json, sys
fid, prop, status, commit, what, mech = sys.argv[1:7]
p = '/verif/known_findings.json'
d = json.load(open(p))
d['findings'] = [f for f in d['findings'] if f['id'] != fid]
e = {"id": fid, "property": prop, "status": status}
if status == "fixed":
    e["commit"] = commit
    e["line"] = "fixed: property=%s %s %s" % (prop, commit, what)
e["mechanism"] = mech
e["what_fails"] = what
d['findings'].append(e)
json.dump(d, open(p, 'w'), indent=1)
print(len(d['findings']), "findings")
