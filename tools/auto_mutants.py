#!/usr/bin/env python3
"""Machine-generated breaking edits (AST mutation operators) against the quick tiers.

For every function a property is anchored in, single-node mutants are generated from the syntax tree (operator swaps,
comparison boundary changes, constants +-1, sin<->cos, swapped dot() operands, dropped .T / transpose, and<->or,
break<->continue, dropped unary minus).  The node's source segment is replaced textually, the rest of the file stays as
it is.  Each mutant goes to a scratch worktree of /repo (never /repo itself): it must compile, the repository's own
suite decides whether it is one the tests already kill (those are not counted), and the quick tier of every property
anchored in the mutated function is run on the scratch tree (VERIF_REPO, evidence redirected through VERIF_OUT).

  caught      some anchored property's quick tier exits 1 with a VIOLATION line
  survived    every anchored quick tier exits 0       -> to be triaged by hand (equivalent mutant or a gap)
  inconclusive  a quick tier exits 2 and none exits 1

usage: tools/auto_mutants.py [--per-function N] [--jobs J] [--seed S] [--only Cxx,...] [--resume]
Results: notes/auto_mutants_result.json (one record per mutant, incl. the replaced text) - resumable.
"""
import ast
import json
import os
import random
import subprocess
import sys
import threading

VERIF = os.path.dirname(os.path.dirname(os.path.abspath(__file__)))
REPO = "/repo"
WTROOT = "/tmp/wt"
OUT = os.path.join(VERIF, "notes", "auto_mutants_result.json")

TL = ["xfab/tools.py", "xfab/laue.py"]
ANCHORS = {
    "C01": (TL, ["a_to_cell", "b_to_cell", "cell_invert", "cell_volume", "form_a_mat", "form_a_mat_inv", "form_b_mat", "sintl"]),
    "C02": (TL, ["u_to_ubi", "ub_to_u_b", "ubi_to_cell", "ubi_to_rod", "ubi_to_u", "ubi_to_u_b"]),
    "C03": (TL, ["_arctan2", "detect_tilt", "euler_to_u", "form_omega_mat", "form_omega_mat_general", "quart_to_omega", "rod_to_u",
                 "u_to_euler", "u_to_rod"]),
    "C04": (["xfab/sg.py"], ["sg.__init__"]),
    "C05": (TL, ["genhkl_all", "genhkl_base", "sysabs", "sysabs_unique"]),
    "C06": (TL, ["genhkl_all", "genhkl_base", "genhkl_unique", "sysabs", "sysabs_unique"]),
    "C07": (["xfab/structure.py"], ["StructureFactor", "Uij2betaij"]),
    "C08": (["xfab/structure.py"], ["StructureFactor", "Uij2betaij", "FormFactor"]),
    "C09": (TL, ["find_omega", "find_omega_general", "find_omega_quart", "find_omega_wedge", "tth", "tth2"]),
    "C10": (["xfab/detector.py"], ["det_coor", "det_coor2", "det_v", "detector_to_lab"]),
    "C11": (["xfab/detector.py"], ["detyz_to_eta_and_radpix", "detyz_to_xy", "eta_and_radpix_to_detyz", "image_flipping",
                                   "trans_orientation", "xy_to_detyz"]),
    "C12": (["xfab/symmetry.py"], ["Umis", "permutations", "rotations"]),
    "C13": (TL, ["b_to_epsilon", "b_to_epsilon_old", "epsilon_to_b", "epsilon_to_b_old", "ubi_to_u_and_eps"]),
    "C15": (["xfab/structure.py"], ["multiplicity"]),
    "C16": (["xfab/structure.py"], ["FormFactor"]),
    "C17": (["xfab/structure.py"], ["build_atomlist.CIFread", "build_atomlist.PDBread"]),
    "C18": (TL, ["reduce_cell"]),
    "C19": (["xfab/parameters.py"], ["parameters.addpar", "parameters.dumbtypecheck", "parameters.loadparameters",
                                     "parameters.saveparameters", "parameters.set_parameters", "parameters.set_variable_values",
                                     "parameters.get_variable_values", "parameters.set_varylist", "parameters.update_other",
                                     "parameters.update_yourself", "parameters.get", "parameters.set", "parameters.get_parameters",
                                     "parameters.__init__"]),
    "C20": (["xfab/checks.py"], ["_check_euler_angles", "_check_rotation_matrix", "_check_ubi_matrix", "_checkState.activated",
                                 "_checkState.__init__"]),
}
# C14 (tools and laue agree) is anchored in every function the two modules share: it is run as a second line only
SECOND_LINE = "C14"


def functions(tree):
    """qualified name -> FunctionDef"""
    out = {}

    def walk(node, prefix):
        for ch in ast.iter_child_nodes(node):
            if isinstance(ch, (ast.FunctionDef, ast.AsyncFunctionDef)):
                q = prefix + ch.name
                out.setdefault(q, []).append(ch)
                walk(ch, q + ".")
            elif isinstance(ch, ast.ClassDef):
                walk(ch, prefix + ch.name + ".")
            else:
                walk(ch, prefix)
    walk(tree, "")
    return out


def is_log_or_message(node, parents):
    for p in parents:
        if isinstance(p, ast.Call):
            f = p.func
            if isinstance(f, ast.Attribute) and isinstance(f.value, ast.Name) and f.value.id in ("logger", "logging", "warnings"):
                return True
            if isinstance(f, ast.Name) and f.id in ("print", "ValueError", "Exception", "TypeError", "RuntimeError", "_two_pi_deprecated"):
                return True
        if isinstance(p, ast.Raise):
            return True
        if isinstance(p, ast.Assert) and p.msg is not None and node_within(node, p.msg):
            return True
    return False


def node_within(node, other):
    return any(n is node for n in ast.walk(other))


SWAP_BIN = {ast.Add: ast.Sub, ast.Sub: ast.Add, ast.Mult: ast.Div, ast.Div: ast.Mult}
SWAP_CMP = {ast.Lt: ast.LtE, ast.LtE: ast.Lt, ast.Gt: ast.GtE, ast.GtE: ast.Gt, ast.Eq: ast.NotEq, ast.NotEq: ast.Eq}
TRIG = {"sin": "cos", "cos": "sin", "arcsin": "arccos", "arccos": "arcsin"}


def mutants_of(func):
    """yield (node, replacement source, operator name) for one function"""
    parents = []

    def rec(node):
        parents.append(node)
        for ch in ast.iter_child_nodes(node):
            yield from visit(ch)
            yield from rec(ch)
        parents.pop()

    def src(n):
        return ast.unparse(n)

    def visit(node):
        if not hasattr(node, "lineno"):
            return
        if isinstance(node, ast.Expr) and isinstance(node.value, ast.Constant) and isinstance(node.value.value, str):
            return
        if is_log_or_message(node, parents + [node]):
            return
        if isinstance(node, ast.BinOp) and type(node.op) in SWAP_BIN:
            if isinstance(node.left, ast.Constant) and isinstance(node.left.value, str):
                return
            new = ast.BinOp(left=node.left, op=SWAP_BIN[type(node.op)](), right=node.right)
            yield node, "(" + src(new) + ")", "binop:%s->%s" % (type(node.op).__name__, type(new.op).__name__)
        elif isinstance(node, ast.Compare) and len(node.ops) == 1 and type(node.ops[0]) in SWAP_CMP:
            new = ast.Compare(left=node.left, ops=[SWAP_CMP[type(node.ops[0])]()], comparators=node.comparators)
            yield node, "(" + src(new) + ")", "cmp:%s->%s" % (type(node.ops[0]).__name__, type(new.ops[0]).__name__)
        elif isinstance(node, ast.BoolOp):
            new = ast.BoolOp(op=ast.Or() if isinstance(node.op, ast.And) else ast.And(), values=node.values)
            yield node, "(" + src(new) + ")", "bool:and<->or"
        elif isinstance(node, ast.UnaryOp) and isinstance(node.op, ast.USub) and not isinstance(node.operand, ast.Constant):
            yield node, "(" + src(node.operand) + ")", "unary:minus dropped"
        elif isinstance(node, ast.Constant) and isinstance(node.value, (int, float)) and not isinstance(node.value, bool):
            v = node.value
            if isinstance(v, int):
                yield node, repr(v + 1), "const:%r->%r" % (v, v + 1)
                if v != 0:
                    yield node, repr(v - 1), "const:%r->%r" % (v, v - 1)
            else:
                yield node, repr(v * 2 if v else 1.0), "const:%r->%r" % (v, v * 2 if v else 1.0)
        elif isinstance(node, ast.Attribute) and node.attr in TRIG and isinstance(node.ctx, ast.Load):
            new = ast.Attribute(value=node.value, attr=TRIG[node.attr], ctx=ast.Load())
            yield node, src(new), "trig:%s->%s" % (node.attr, TRIG[node.attr])
        elif isinstance(node, ast.Attribute) and node.attr == "T" and isinstance(node.ctx, ast.Load):
            yield node, "(" + src(node.value) + ")", "transpose:.T dropped"
        elif isinstance(node, ast.Call):
            f = node.func
            name = f.attr if isinstance(f, ast.Attribute) else (f.id if isinstance(f, ast.Name) else None)
            if name == "dot" and len(node.args) == 2 and not node.keywords:
                new = ast.Call(func=f, args=[node.args[1], node.args[0]], keywords=[])
                yield node, src(new), "dot:operands swapped"
            elif name == "transpose" and len(node.args) == 1 and not node.keywords:
                yield node, "(" + src(node.args[0]) + ")", "transpose:call dropped"
            elif name in ("abs",) and len(node.args) == 1:
                yield node, "(" + src(node.args[0]) + ")", "abs dropped"
        elif isinstance(node, ast.Break):
            yield node, "continue", "break->continue"
        elif isinstance(node, ast.Continue):
            yield node, "break", "continue->break"

    yield from rec(func)


def splice(text, node, new):
    lines = text.split("\n")
    # ast offsets are utf-8 byte offsets
    def off(lineno, col):
        return len(lines[lineno - 1].encode()[:col].decode())
    l0, c0, l1, c1 = node.lineno, off(node.lineno, node.col_offset), node.end_lineno, off(node.end_lineno, node.end_col_offset)
    before = "\n".join(lines[:l0 - 1] + [lines[l0 - 1][:c0]])
    after = "\n".join([lines[l1 - 1][c1:]] + lines[l1:])
    old = "\n".join(lines[l0 - 1:l1])
    old = old[c0:len(old) - (len(lines[l1 - 1]) - c1)]
    if "\n" in old and "\n" not in new:
        pass
    return before + new + after, old


def generate(per_function, seed, only):
    rng = random.Random(seed)
    plan = []
    for path in sorted(set(f for fs, _ in ANCHORS.values() for f in fs)):
        text = open(os.path.join(REPO, path)).read()
        tree = ast.parse(text)
        funcs = functions(tree)
        for q, nodes in sorted(funcs.items()):
            props = sorted(p for p, (fs, names) in ANCHORS.items() if path in fs and q in names)
            if only:
                props = [p for p in props if p in only]
            if not props:
                continue
            cands = []
            for fn in nodes:
                for node, new, op in mutants_of(fn):
                    try:
                        mutated, old = splice(text, node, new)
                        compile(mutated, path, "exec")
                    except Exception:
                        continue
                    if mutated == text:
                        continue
                    cands.append({"file": path, "function": q, "line": node.lineno, "col": node.col_offset, "op": op,
                                  "old": old[:200], "new": new[:200], "props": props})
            rng.shuffle(cands)
            # stratify by operator family so that not all picks are constants
            picked, seen_ops = [], {}
            for c in cands:
                fam = c["op"].split(":")[0]
                if seen_ops.get(fam, 0) < max(1, per_function // 3):
                    picked.append(c)
                    seen_ops[fam] = seen_ops.get(fam, 0) + 1
                if len(picked) >= per_function:
                    break
            for c in cands:
                if len(picked) >= per_function:
                    break
                if c not in picked:
                    picked.append(c)
            for c in picked:
                c["id"] = "%s:%s:%d:%d:%s" % (os.path.basename(c["file"]), c["function"], c["line"], c["col"], c["op"])
            plan.extend(picked)
    return plan


def sh(cmd, **kw):
    return subprocess.run(cmd, shell=True, capture_output=True, text=True, **kw)


def apply(wt, m):
    path = os.path.join(REPO, m["file"])
    text = open(path).read()
    tree = ast.parse(text)
    for fn in functions(tree).get(m["function"], []):
        for node, new, op in mutants_of(fn):
            if node.lineno == m["line"] and node.col_offset == m["col"] and op == m["op"]:
                mutated, _ = splice(text, node, new)
                with open(os.path.join(wt, m["file"]), "w") as fh:
                    fh.write(mutated)
                return True
    return False


def run_one(wt, outdir, m):
    sh("git -C %s checkout -q -- ." % wt)
    if not apply(wt, m):
        return dict(m, status="not applied")
    try:
        r = sh("cd %s && /venv/bin/python -m pytest -q -x -p no:cacheprovider --timeout=900 2>&1 | tail -1" % wt, timeout=1800)
        suite = r.stdout.strip()
    except subprocess.TimeoutExpired:
        suite = "timeout"
    if "73 passed" not in suite:
        sh("git -C %s checkout -q -- ." % wt)
        return dict(m, status="killed by the repository suite", suite=suite[-80:])
    env = dict(os.environ, VERIF_REPO=wt, VERIF_OUT=outdir)
    res = {}
    status = "survived"
    for p in m["props"] + ([SECOND_LINE] if m["file"] in TL else []):
        if p == SECOND_LINE and status == "caught":
            break
        try:
            r = subprocess.run([os.path.join(VERIF, "vf"), p, "quick"], capture_output=True, text=True, env=env, timeout=3600)
            rc = r.returncode
            mons = sorted(set(l.split("replay=replays/")[1].split("-seed")[0].split("-", 1)[1] for l in r.stdout.splitlines()
                              if l.startswith("VIOLATION")))[:3]
        except subprocess.TimeoutExpired:
            rc, mons = 2, ["timeout"]
        res[p] = {"exit": rc, "monitors": mons}
        if rc == 1:
            status = "caught" if p != SECOND_LINE else "caught by C14 only"
        elif rc == 2 and status == "survived":
            status = "inconclusive"
    sh("git -C %s checkout -q -- ." % wt)
    return dict(m, status=status, suite=suite[-40:], checks=res)


def main():
    a = sys.argv[1:]
    def opt(name, default):
        return type(default)(a[a.index(name) + 1]) if name in a else default
    per_function, jobs, seed = opt("--per-function", 6), opt("--jobs", 3), opt("--seed", 0)
    only = set(opt("--only", "").split(",")) - {""}
    plan = generate(per_function, seed, only)
    done = {}
    if "--resume" in a and os.path.exists(OUT):
        done = {r["id"]: r for r in json.load(open(OUT))}
    if "--list" in a:
        for m in plan:
            print(m["id"], m["props"])
        print(len(plan), "mutants")
        return 0
    todo = [m for m in plan if m["id"] not in done]
    print("%d mutants planned, %d already done" % (len(plan), len(plan) - len(todo)), flush=True)
    lock = threading.Lock()
    it = iter(todo)

    def worker(k):
        wt = os.path.join(WTROOT, "am%d" % k)
        outdir = "/tmp/am_out%d" % k
        if not os.path.isdir(wt):
            sh("git -C %s worktree add -q --detach %s HEAD" % (REPO, wt))
        sh("git -C %s checkout -q --detach main && git -C %s checkout -q -- ." % (wt, wt))
        while True:
            with lock:
                m = next(it, None)
            if m is None:
                break
            r = run_one(wt, outdir, m)
            with lock:
                done[r["id"]] = r
                json.dump(sorted(done.values(), key=lambda x: x["id"]), open(OUT, "w"), indent=1)
                print("%-22s %s" % (r["status"], r["id"]), flush=True)
        sh("git -C %s worktree remove --force %s" % (REPO, wt))
        sh("rm -rf %s" % outdir)

    ts = [threading.Thread(target=worker, args=(k,)) for k in range(jobs)]
    for t in ts:
        t.start()
    for t in ts:
        t.join()
    from collections import Counter
    c = Counter(r["status"] for r in done.values())
    print(dict(c))
    return 0


if __name__ == "__main__":
    sys.exit(main())
