#!/bin/sh
# confirm_seed.sh <seed dir> [worktree]: confirm a candidate seeded change independently:
#  pristine: demo passes; with patch: suite 73 passed and demo fails.  Prints CONFIRMED / REJECTED.
D="$1"; WT="${2:-/tmp/wt/mine}"
cd "$WT" || exit 2
git checkout -q -- . ; git clean -fdq
PYTHONPATH="$WT" /venv/bin/python -B "$D/demo.py" >/tmp/confirm.$$.a 2>&1; A=$?
git apply "$D/patch.diff" || { echo "REJECTED patch does not apply"; exit 1; }
PYTHONPATH="$WT" /venv/bin/python -B -m pytest -q -p no:cacheprovider test 2>&1 | tail -1 > /tmp/confirm.$$.t
PYTHONPATH="$WT" /venv/bin/python -B "$D/demo.py" >/tmp/confirm.$$.b 2>&1; B=$?
git checkout -q -- . ; git clean -fdq
T="$(cat /tmp/confirm.$$.t)"
echo "pristine demo exit=$A ; patched demo exit=$B ; suite: $T"
tail -2 /tmp/confirm.$$.b
rm -f /tmp/confirm.$$.*
case "$T" in *"73 passed"*) ;; *) echo REJECTED suite; exit 1;; esac
[ "$A" = 0 ] && [ "$B" != 0 ] && echo CONFIRMED && exit 0
echo REJECTED; exit 1
