#!/usr/bin/env python3
"""Regenerate MANIFEST.json from vfw/manifest_data.py (keeps it schema-valid at all times)."""
import json, os, sys
HERE = os.path.dirname(os.path.dirname(os.path.abspath(__file__)))
sys.path.insert(0, HERE)
from vfw import manifest_data as md

checks, na = [], []
for pid in ["C%02d" % i for i in range(1, 21)]:
    built = os.path.exists(os.path.join(HERE, "vfw", "props", pid.lower() + ".py"))
    d = md.CHECKS.get(pid)
    if built and d and not d.get("not_applicable"):
        checks.append({
            "property_id": pid,
            "quick_cmd": "./vf %s quick" % pid,
            "thorough_cmd": "./vf %s thorough" % pid,
            "evidence_file": "evidence/%s.json" % pid,
            "replay_cmd_template": "./vf %s --replay {path}" % pid,
            "engine": "vfw",
            "level_claimed": {"category": "exploration", "text": d["text"], "design_ref": d["design_ref"]},
            "level_note": d["note"],
            "technique": d["technique"],
        })
    else:
        na.append({"property_id": pid, "reason": (d or {}).get("not_applicable") or "check not built yet (work in progress; see DESIGN.md section 3)"})
m = {
    "version": 1,
    "setup_cmd": "./vf setup",
    "hooks": md.HOOKS,
    "engines": [{"name": "vfw", "path": "vfw/", "serves_properties": [c["property_id"] for c in checks],
                 "kind_free_text": "runtime monitoring: icontract post-conditions / class invariants installed on the real functions of /repo's working tree, reference-model and history checkers, generated hostile workloads, sys.monitoring coverage observer"}],
    "checks": checks,
    "notes": md.NOTES,
    "not_applicable": na,
}
with open(os.path.join(HERE, "MANIFEST.json"), "w") as fh:
    json.dump(m, fh, indent=1)
    fh.write("\n")
print("MANIFEST.json: %d checks, %d not_applicable" % (len(checks), len(na)))
