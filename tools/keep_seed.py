#!/usr/bin/env python3
"""keep_seed.py <seed dir> ...: copy a confirmed seeded change to /verif/seeded/<id>/ and stamp meta.json"""
import json, os, shutil, subprocess, sys
for d in sys.argv[1:]:
    name = os.path.basename(d.rstrip("/"))
    r = subprocess.run(["/verif/tools/confirm_seed.sh", d, os.environ.get("SEED_WT", "/tmp/wt/mine")], capture_output=True, text=True)
    ok = "CONFIRMED" in r.stdout
    print(name, "CONFIRMED" if ok else "REJECTED")
    if not ok:
        continue
    dst = os.path.join("/verif/seeded", name)
    os.makedirs(dst, exist_ok=True)
    for f in ("patch.diff", "demo.py"):
        shutil.copy(os.path.join(d, f), os.path.join(dst, f))
    meta = json.load(open(os.path.join(d, "meta.json")))
    meta["source"] = "independent sub-agent given only the property text and a scratch worktree"
    meta["confirmed_by_builder"] = {
        "how": "tools/confirm_seed.sh in a scratch worktree of /repo: pristine tree -> demo exits 0; patch applied -> repository suite '73 passed' and demo exits non-zero",
        "output": r.stdout.strip().splitlines()[:1]}
    json.dump(meta, open(os.path.join(dst, "meta.json"), "w"), indent=1)
