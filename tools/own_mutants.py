#!/usr/bin/env python3
"""Acceptance of the machinery against the builder's own breaking edits (DESIGN.md 'must catch' lists).

For each mutant: apply the textual edit to a scratch worktree of /repo (never /repo itself), run the repository's own
suite (a mutant the suite kills is reported as such and not counted), run the property's quick check against the
scratch tree (VERIF_REPO) and expect exit 1 with a VIOLATION line.  Results go to notes/own_mutants_result.json.

usage: tools/own_mutants.py [Cxx ...]      (scratch worktree: /tmp/wt/mine, created if missing)
"""
import json
import os
import subprocess
import sys

WT = os.environ.get("SEED_WT", "/tmp/wt/mine")
VERIF = os.path.dirname(os.path.dirname(os.path.abspath(__file__)))

# (property, file, old, new, what)   -- 'old' must occur exactly once in the file unless count is given
M = [
 # ---- C01
 ("C01", "xfab/tools.py", "cgamstar = (calp*cbet-cgam)/(salp*sbet)        \n    \n    # Form B", "cgamstar = (calp*cgam-cbet)/(salp*sbet)        \n    \n    # Form B", "form_b_mat: cgamstar uses the cbetstar numerator"),
 ("C01", "xfab/laue.py", "[0,     bstar*sgamstar, -cstar*sbetstar*calp ]", "[0,     bstar*sgamstar,  cstar*sbetstar*calp ]", "laue.form_b_mat: missing minus in B[1,2]"),
 ("C01", "xfab/tools.py", "astar = b*c*salp/V\n    bstar = a*c*sbet/V", "astar = b*c*sbet/V\n    bstar = a*c*sbet/V", "cell_invert: salp <-> sbet"),
 ("C01", "xfab/tools.py", "2*h*l*(calp*cgam-cbet)/(a*c)", "2*h*l*(calp*cbet-cgam)/(a*c)", "sintl: wrong cross term"),
 ("C01", "xfab/laue.py", "alpha = degrees(np.arccos(g[1, 2]/b/c))\n    beta  = degrees(np.arccos(g[0, 2]/a/c))", "alpha = degrees(np.arccos(g[0, 2]/a/c))\n    beta  = degrees(np.arccos(g[1, 2]/b/c))", "laue.a_to_cell: alpha/beta swapped"),
 ("C01", "xfab/tools.py", "    V = a*b*c*angular                                             ", "    V = a*b*c*abs(angular - 1e-7)", "cell_volume: tiny bias"),
 # ---- C02
 ("C02", "xfab/tools.py", "    if B[1, 1] < 0:\n        B[1, 1] = -B[1, 1]\n        B[1, 2] = -B[1, 2]", "    if B[1, 1] < 0:\n        B[1, 1] = -B[1, 1]", "ub_to_u_b: B[1,2] not flipped"),
 ("C02", "xfab/laue.py", "        U[0, 2] = -U[0, 2]\n        U[1, 2] = -U[1, 2]\n        U[2, 2] = -U[2, 2]", "        U[0, 2] = -U[0, 2]\n        U[1, 2] = -U[1, 2]", "laue.ub_to_u_b: one entry of the third column not flipped"),
 ("C02", "xfab/tools.py", "    return n.array(a_to_cell(n.transpose(ubi)))", "    return n.array(a_to_cell(ubi))", "ubi_to_cell: rows/columns swapped"),
 ("C02", "xfab/laue.py", "    return np.linalg.inv(np.dot(U,b_mat))", "    return np.linalg.inv(np.dot(b_mat,U))", "laue.u_to_ubi: B.U instead of U.B"),
 # ---- C03
 ("C03", "xfab/tools.py", "U[1, 2] =  -n.cos(phi1)*n.sin(PHI)", "U[1, 2] =   n.cos(phi1)*n.sin(PHI)", "euler_to_u: sign of U[1,2]"),
 ("C03", "xfab/laue.py", "    return np.transpose(g)", "    return g", "laue.rod_to_u without transpose"),
 ("C03", "xfab/tools.py", "    whalf = w*n.pi/360. ", "    whalf = w*n.pi/180. ", "quart_to_omega: half-angle factor"),
 ("C03", "xfab/tools.py", "    r2 = (U[2, 0]-U[0, 2])*a", "    r2 = (U[0, 2]-U[2, 0])*a", "u_to_rod: sign of r2"),
 ("C03", "xfab/laue.py", "    R = np.dot(Rx, np.dot(Ry, Rz))", "    R = np.dot(Rz, np.dot(Ry, Rx))", "laue.detect_tilt: order of the product"),
 ("C03", "xfab/tools.py", "        phi1 = _arctan2(U[0, 1], U[0, 0])\n        phi2 = 0", "        phi1 = _arctan2(-U[0, 1], U[0, 0])\n        phi2 = 0", "u_to_euler: PHI=pi lock branch sign"),
 # ---- C04
 ("C04", "xfab/sglib.py", 'self.name = "P21/c"\n        self.crystal_system = "monoclinic"\n        self.Laue = "2/m"\n        self.nsymop = 4\n        self.nuniq = 4', 'self.name = "P21/c"\n        self.crystal_system = "monoclinic"\n        self.Laue = "2/m"\n        self.nsymop = 4\n        self.nuniq = 2', "Sg14: wrong nuniq"),
 ("C04", "xfab/sglib.py", 'self.name = "Pnma"\n        self.crystal_system = "orthorhombic"\n        self.Laue = "mmm"', 'self.name = "Pnma"\n        self.crystal_system = "orthorhombic"\n        self.Laue = "4/mmm"', "Sg62: wrong Laue class"),
 ("C04", "xfab/sg.py", '"p-31m" : "Sg162"', '"p-31m" : "Sg164"', "name dictionary: p-31m points to Sg164"),
 # ---- C05 / C06
 ("C05", "xfab/tools.py", "    if Laue_class == '6/m':\n        segm = n.array([[[ 0, 0,  0], [ 1, 0, 0], [ 1, 1, 0], [ 0, 0,  1]],\n                        [[ 1, 2,  0], [ 0, 1, 0], [ 1, 1, 0], [ 0, 0,  1]]])", "    if Laue_class == '6/m':\n        segm = n.array([[[ 0, 0,  0], [ 1, 0, 0], [ 1, 1, 0], [ 0, 0,  1]],\n                        [[ 1, 2,  0], [ 0, 1, 0], [ 1, 2, 0], [ 0, 0,  1]]])", "genhkl_base: segment table entry for 6/m"),
 ("C05", "xfab/tools.py", "    Rots = n.concatenate((spg.rot[:spg.nuniq],-spg.rot[:spg.nuniq]))", "    Rots = spg.rot[:spg.nuniq]", "genhkl_all: inversion dropped from Rots"),
 ("C05", "xfab/laue.py", "        if (abs(-h+k+l))%condition != 0:\n            sysabs_type = 6", "        if (abs(h+k+l))%condition != 0:\n            sysabs_type = 6", "laue.sysabs_unique: -H+K+L condition (R centring)"),
 ("C05", "xfab/tools.py", "            h = -(hkl[0]+hkl[1])\n            k = hkl[0]\n            l = hkl[2]", "            h = -(hkl[0]+hkl[1])\n            k = hkl[1]\n            l = hkl[2]", "sysabs: hexagonal index permutation"),
 ("C05", "xfab/tools.py", "    if Laue_class == '-1':\n        logger.debug('Laue class : -1 %s'%unit_cell)\n        segm = n.array([[[ 0, 0,  0], [ 1, 0, 0], [ 0, 1, 0], [ 0, 0,  1]],\n                        [[-1, 0,  1], [-1, 0, 0], [ 0, 1, 0], [ 0, 0,  1]],", "    if Laue_class == '-1':\n        logger.debug('Laue class : -1 %s'%unit_cell)\n        segm = n.array([[[ 0, 0,  0], [ 1, 0, 0], [ 0, 1, 0], [ 0, 0,  1]],\n                        [[-1, 0,  1], [-1, 0, 0], [ 0, 1, 0], [ 0, 0, -1]],", "genhkl_base: triclinic segment direction (must not hide behind the open finding)"),
 ("C06", "xfab/tools.py", "                            if  sintlH > sintlmin and sintlH <= sintlmax:\n                                H = n.concatenate((H, [HLAST]))\n                                stl = n.concatenate((stl, [sintlH]))\n                        else: \n                            nref = nref - 1\n                    HNEW = HLAST + segm[segn, 1, :]\n                    sintlH = sintl(unit_cell, HNEW)\n                    #if (sintlH >= sintlmin) and (sintlH <= sintlmax):\n                    if sintlH <= sintlmax*sintl_scale:", "                            if  sintlH >= sintlmin and sintlH <= sintlmax:\n                                H = n.concatenate((H, [HLAST]))\n                                stl = n.concatenate((stl, [sintlH]))\n                        else: \n                            nref = nref - 1\n                    HNEW = HLAST + segm[segn, 1, :]\n                    sintlH = sintl(unit_cell, HNEW)\n                    #if (sintlH >= sintlmin) and (sintlH <= sintlmax):\n                    if sintlH <= sintlmax*sintl_scale:", "genhkl_base: sintlmin inclusive"),
 ("C06", "xfab/laue.py", "    H =  H[np.argsort(H, 0)[:, 3], :] # sort hkl's according to stl\n    if output_stl == None:\n        H = H[: , :3]\n    return H\n\n\n\ndef genhkl(", "    if output_stl == None:\n        H = H[: , :3]\n    return H\n\n\n\ndef genhkl(", "laue.genhkl_base: sort removed"),
 ("C06", "xfab/tools.py", "        Hsub= n.concatenate((a[rows], \n                             n.array([[stl]*len(rows)]).transpose()),", "        Hsub= n.concatenate((a[rows], \n                             n.array([[stl*1.0000001]*len(rows)]).transpose()),", "genhkl_all: column 4 slightly off"),
 # ---- C07 / C08
 ("C07", "xfab/structure.py", "            r = n.dot(mysg.rot[j], atoms[i].pos) + mysg.trans[j]", "            r = n.dot(atoms[i].pos, mysg.rot[j]) + mysg.trans[j]", "StructureFactor: pos.R instead of R.pos"),
 ("C07", "xfab/structure.py", "            r = n.dot(mysg.rot[j], atoms[i].pos) + mysg.trans[j]", "            r = n.dot(mysg.rot[j], atoms[i].pos) - mysg.trans[j]", "StructureFactor: sign of the translation"),
 ("C08", "xfab/structure.py", "            Freal = Freal + expij*(c*(f+fp)-s*fpp)*site_pop", "            Freal = Freal + expij*(c*(f+fp)+s*fpp)*site_pop", "StructureFactor: fpp sign in the real part"),
 ("C08", "xfab/structure.py", "            expij = n.exp(-8*n.pi**2*U*stl**2)", "            expij = n.exp(-4*n.pi**2*U*stl**2)", "StructureFactor: 8 pi^2 -> 4 pi^2"),
 ("C08", "xfab/structure.py", "    U  = n.array([[adp[0], adp[5], adp[4]],\n                  [adp[5], adp[1], adp[3]], \n                  [adp[4], adp[3], adp[2]]])", "    U  = n.array([[adp[0], adp[3], adp[4]],\n                  [adp[3], adp[1], adp[5]], \n                  [adp[4], adp[5], adp[2]]])", "Uij2betaij: index order 23/13/12"),
 ("C08", "xfab/structure.py", "            site_pop = atoms[i].occ*atoms[i].symmulti/mysg.nsymop", "            site_pop = atoms[i].occ*atoms[i].symmulti/mysg.nuniq", "StructureFactor: multiplicity weighting"),
 # ---- C09
 ("C09", "xfab/tools.py", "    b = g_w[2]*normal[1] - g_w[1]*normal[2]", "    b = g_w[2]*normal[1] + g_w[1]*normal[2]", "find_omega_quart: sign in b"),
 ("C09", "xfab/laue.py", "            omega_mat = form_omega_mat_general(omega[i], w_x, w_y)\n            g_t = np.dot(omega_mat, g_w_n)\n            sineta = -2*g_t[1]/np.sin(twoth)", "            omega_mat = form_omega_mat_general(omega[i], w_x, w_y)\n            g_t = np.dot(omega_mat, g_w_n)\n            sineta = 2*g_t[1]/np.sin(twoth)", "laue.find_omega_general: eta sign"),
 ("C09", "xfab/tools.py", "    twotheta = 2.0*n.arcsin(length*wavelength/(4*n.pi))", "    twotheta = 2.0*n.arcsin(length*wavelength/(2*n.pi))", "tth2: factor"),
 ("C09", "xfab/tools.py", "        somega = (b*g_w[0] - a*g_w[1])/(a*a + b*b)", "        somega = (b*g_w[0] + a*g_w[1])/(a*a + b*b)", "find_omega_wedge: sign"),
 # ---- C10
 ("C10", "xfab/detector.py", "    dety = n.sum(R_tilt[:, 1]*Ltv)/y_size + dety_center\n    detz = n.sum(R_tilt[:, 2]*Ltv)/z_size + detz_center\n    return [dety, detz]\n\ndef det_coor2", "    dety = n.sum(R_tilt[:, 1]*Ltv)/z_size + dety_center\n    detz = n.sum(R_tilt[:, 2]*Ltv)/y_size + detz_center\n    return [dety, detz]\n\ndef det_coor2", "det_coor: pixel sizes swapped"),
 ("C10", "xfab/detector.py", "    Ltv = n.array([tx-distance, ty, tz])+ t*v\n    dety = n.sum(R_tilt[:, 1]*Ltv)/y_size + dety_center\n    detz = n.sum(R_tilt[:, 2]*Ltv)/z_size + detz_center\n    return [dety, detz]\n\ndef det_v", "    Ltv = n.array([tx-distance, ty, tz])+ t*v\n    dety = n.sum(R_tilt[1, :]*Ltv)/y_size + dety_center\n    detz = n.sum(R_tilt[:, 2]*Ltv)/z_size + detz_center\n    return [dety, detz]\n\ndef det_v", "det_coor2: row for column of the tilt"),
 # ---- C11
 ("C11", "xfab/detector.py", "        if o22 == -1:\n            if flipdir == 'forward':\n                img = n.flipud(img)\n            else: #inverse direction from (dety,detz) to imageformat\n                img = n.fliplr(img)", "        if o22 == -1:\n            if flipdir == 'forward':\n                img = n.fliplr(img)\n            else: #inverse direction from (dety,detz) to imageformat\n                img = n.flipud(img)", "trans_orientation: flips exchanged in the o22 branch (still undone by 'inverse')"),
 ("C11", "xfab/detector.py", "    if radpix < 1 - 1e-9:\n        cos_eta = 1", "    if radpix < 2:\n        cos_eta = 1", "detyz_to_eta_and_radpix: radius threshold 1 -> 2"),
 ("C11", "xfab/detector.py", "    omat = n.array([[o11, o12],\n                    [o21, o22]])\n    det_size = n.array([detz_size-1,\n                        dety_size-1])", "    omat = n.array([[o11, o12],\n                    [o21, o22]])\n    det_size = n.array([dety_size-1,\n                        detz_size-1])", "xy_to_detyz: det_size order"),
 # ---- C12
 ("C12", "xfab/symmetry.py", "        perm[17] = [[ 0,  0,  1], [ 1,  0,  0], [ 0,  1,  0]]", "        perm[17] = [[ 0,  0,  1], [ 1,  0,  0], [ 0, -1,  0]]", "cubic permutation entry"),
 ("C12", "xfab/symmetry.py", "    if crystal_system == 6: # Hexagonal\n        perm = permutations(crystal_system)\n        B = tools.form_b_mat([1.,1.,1.,90.,90.,120.])\n        Binv = np.linalg.inv(B)\n        rot = np.zeros((12, 3, 3))\n        for i in range(len(perm)):\n            rot[i] = np.dot(B,np.dot(np.linalg.inv(perm[i]),Binv))", "    if crystal_system == 6: # Hexagonal\n        perm = permutations(crystal_system)\n        B = tools.form_b_mat([1.,1.,1.,90.,90.,120.])\n        Binv = np.linalg.inv(B)\n        rot = np.zeros((12, 3, 3))\n        for i in range(len(perm)):\n            rot[i] = np.dot(B,np.dot(perm[i],Binv))", "rotations(6): inv(perm) -> perm"),
 ("C12", "xfab/symmetry.py", "    lengths = 0.5 * (rot * np.dot(umat_1.T, umat_2)).sum(axis=(1, 2)) - 0.5", "    lengths = 0.5 * (rot * np.dot(umat_1, umat_2.T)).sum(axis=(1, 2)) - 0.5", "Umis: U1.U2' instead of U1'.U2"),
 # ---- C13
 ("C13", "xfab/laue.py", "    Binv[0, 1] = (2*epsilon[1]-B0[0, 1]*Binv[1, 1])/B0[0, 0]", "    Binv[0, 1] = (epsilon[1]-B0[0, 1]*Binv[1, 1])/B0[0, 0]", "laue.epsilon_to_b: factor 2 on e12"),
 ("C13", "xfab/tools.py", "    eps = b_to_epsilon(B, unit_cell)\n\n    return (U,eps)", "    eps = b_to_epsilon_old(B, unit_cell)\n\n    return (U,eps)", "tools.ubi_to_u_and_eps: other strain definition (must not hide behind the open finding)"),
 ("C13", "xfab/tools.py", "    T = n.dot(B0,n.linalg.inv(B))\n    I = n.eye(3)", "    T = n.dot(n.linalg.inv(B),B0)\n    I = n.eye(3)", "b_to_epsilon: inv(B).B0"),
 # ---- C14 (one copy only)
 ("C14", "xfab/laue.py", "    calpstar = (cbet*cgam-calp)/(sbet*sgam)\n    cbetstar = (calp*cgam-cbet)/(salp*sgam)\n    cgamstar = (calp*cbet-cgam)/(salp*sbet)\n\n    alpstar", "    calpstar = (cbet*cgam-calp)/(sbet*sgam)\n    cbetstar = (calp*cgam-cbet)/(salp*sgam)\n    cgamstar = (calp*cbet-cgam)/(salp*sgam)\n\n    alpstar", "laue.cell_invert only"),
 ("C14", "xfab/tools.py", "    elif x<0 and y>=0:\n        return n.arctan(y/x) + n.pi", "    elif x<0 and y>0:\n        return n.arctan(y/x) + n.pi", "tools._arctan2 only: y == 0 branch"),
 ("C14", "xfab/laue.py", "        if syscond[8] != 0:\n            condition = syscond[8]\n            if (abs(h+l))%condition != 0:\n                sysabs_type = 9", "        if syscond[8] != 0:\n            condition = syscond[8]\n            if (abs(h-l))%condition != 0:\n                sysabs_type = 9", "laue.sysabs_unique only: HHL H+L"),
 # ---- C15
 ("C15", "xfab/structure.py", "            if n.sum(n.abs(t - n.round(t))) < 0.00001:", "            if n.sum(n.abs(t - n.round(t))) < 0.01:", "multiplicity: tolerance 1e-5 -> 1e-2"),
 ("C15", "xfab/structure.py", "        lp[i, :] = n.dot(mysg.rot[i], position) + mysg.trans[i]", "        lp[i, :] = n.dot(mysg.rot[i], position)", "multiplicity: translation dropped"),
 ("C15", "xfab/structure.py", "    for i in range(1, mysg.nsymop):\n        for j in range(multi):", "    for i in range(1, mysg.nuniq):\n        for j in range(multi):", "multiplicity: nuniq for nsymop"),
 # ---- C16
 ("C16", "xfab/atomlib.py", "0.247000, 11.396610, 64.812670, 1.19100],", "0.247000, 11.396610, -0.64812670, 1.19100],", "Cu: one width negative (f(0) unchanged, f grows at high s)"),
 ("C16", "xfab/structure.py", "    for i in range(4):\n        formfac = formfac + data[i]*n.exp(-data[i+4]*stl*stl) ", "    for i in range(3):\n        formfac = formfac + data[i]*n.exp(-data[i+4]*stl*stl) ", "FormFactor: three Gaussians"),
 # ---- C17
 ("C17", "xfab/structure.py", "                        self.remove_esd(cifblk['_atom_site_aniso_U_23'][anisonumber]),\n                        self.remove_esd(cifblk['_atom_site_aniso_U_13'][anisonumber]),", "                        self.remove_esd(cifblk['_atom_site_aniso_U_13'][anisonumber]),\n                        self.remove_esd(cifblk['_atom_site_aniso_U_23'][anisonumber]),", "CIFread: Uani order 13/23"),
 ("C17", "xfab/structure.py", "                adp = self.remove_esd(cifblk['_atom_site_B_iso_or_equiv'][i])/(8*n.pi**2)", "                adp = self.remove_esd(cifblk['_atom_site_B_iso_or_equiv'][i])/(8*n.pi)", "CIFread: Biso -> U factor"),
 ("C17", "xfab/structure.py", "            except:\n                occ = 1.0", "            except:\n                occ = 0.0", "CIFread: default occupancy"),
 ("C17", "xfab/structure.py", "                occ = float(text[i][54:60])", "                occ = float(text[i][54:59])", "PDBread: occupancy columns shifted by one"),
 # ---- C18
 ("C18", "xfab/tools.py", "    for i in n.arange(-uvw, uvw):\n        for j in n.arange(-uvw, uvw):\n            for k in n.arange(-uvw, uvw):", "    for i in n.arange(-1, 2):\n        for j in n.arange(-uvw, uvw):\n            for k in n.arange(-uvw, uvw):", "reduce_cell: search range along a shrunk to +-1"),
 ("C18", "xfab/laue.py", "        if dist >  0.00001:", "        if dist >  0.5:", "laue.reduce_cell: coplanarity tolerance"),
 # ---- C19
 ("C19", "xfab/parameters.py", '            f.write("%s %s\\n"%(key,str(self.parameters[key])))', '            f.write("%s %s\\n"%(key,"%g" % self.parameters[key] if isinstance(self.parameters[key], float) else str(self.parameters[key])))', "saveparameters: %g for floats"),
 ("C19", "xfab/parameters.py", "                    self.parameters[name] = value.lstrip().rstrip()", "                    self.parameters[name] = value.lstrip()", "dumbtypecheck: lstrip only"),
 ("C19", "xfab/parameters.py", "        if par.vary and par.name not in self.varylist:\n            self.varylist.append(par.name)", "        if par.vary:\n            self.varylist.append(par.name)", "addpar: varylist membership test dropped"),
 ("C19", "xfab/parameters.py", '                name=name.replace("-","_")', '                name=name.replace("-","_",1)', "loadparameters: only the first hyphen"),
 # ---- C20
 ("C20", "xfab/laue.py", "    U = np.asarray(U_matrix, float)\n    if CHECKS.activated: checks._check_rotation_matrix(U)\n\n    ttt = 1+U[0, 0]+U[1, 1]+U[2, 2]", "    U = np.asarray(U_matrix, float)\n\n    ttt = 1+U[0, 0]+U[1, 1]+U[2, 2]", "laue.u_to_rod: guard site deleted"),
 ("C20", "xfab/checks.py", "        return self._run_checks and __debug__", "        return (not self._run_checks) and __debug__", "activated inverted"),
 ("C20", "xfab/checks.py", "        if value is not True and value is not False:\n            raise ValueError(\"Please supply a boolean True or False\")\n        else:\n            self._run_checks = value", "        self._run_checks = value\n        if value is not True and value is not False:\n            raise ValueError(\"Please supply a boolean True or False\")", "setter assigns before validating"),
 ("C20", "xfab/checks.py", "    if not (0<=PHI<=np.pi*2):", "    if not (0<=PHI<np.pi*2):", "Euler range: <= -> <"),
 ("C20", "xfab/checks.py", "    if np.dot(ubi[2,:], np.cross(ubi[0,:],ubi[1,:]))<0:", "    if np.dot(ubi[2,:], np.cross(ubi[0,:],ubi[1,:]))>0:", "_check_ubi_matrix sign"),
 # ---- second batch: edits in code the repository suite does not reach
 ("C01", "xfab/laue.py", "    cbetstar = (calp*cgam-cbet)/(salp*sgam)\n    cgamstar = (calp*cbet-cgam)/(salp*sbet)\n\n    alpstar", "    cbetstar = (calp*cgam-cbet)/(salp*sgam)\n    cgamstar = (calp*cbet-cgam)/(sbet*salp*1.0000001)\n\n    alpstar", "laue.cell_invert: gamma* off by 1e-7 relative"),
 ("C01", "xfab/tools.py", "    A = form_a_mat(unit_cell)\n    Ainv = n.linalg.inv(A)\n    return Ainv", "    A = form_a_mat(unit_cell)\n    Ainv = n.linalg.inv(A.T)\n    return Ainv", "form_a_mat_inv: inverse of the transpose"),
 ("C02", "xfab/laue.py", "    return u_to_rod(ubi_to_u(ubi_matrix))", "    return -u_to_rod(ubi_to_u(ubi_matrix))", "laue.ubi_to_rod: sign"),
 ("C02", "xfab/tools.py", "    return ub_to_u_b(n.linalg.inv(ubi)*(2*n.pi))", "    return ub_to_u_b(n.linalg.inv(ubi.T)*(2*n.pi))", "ubi_to_u_b: transposed UBI"),
 ("C03", "xfab/laue.py", "    qua = np.dot(w_mat_x, np.dot(w_mat_y, np.array([0, 0, np.sin(whalf)]))) ", "    qua = np.dot(w_mat_y, np.dot(w_mat_x, np.array([0, 0, np.sin(whalf)]))) ", "laue.quart_to_omega: Ry.Rx for Rx.Ry"),
 ("C03", "xfab/tools.py", "    Om = n.dot(phi_x,n.dot(phi_y,Om))\n    return Om", "    Om = n.dot(phi_y,n.dot(phi_x,Om))\n    return Om", "form_omega_mat_general: Ry.Rx.Rz"),
 ("C05", "xfab/sglib.py", "        self.no = 62\n        self.name = \"Pnma\"\n        self.crystal_system = \"orthorhombic\"\n        self.Laue = \"mmm\"\n        self.nsymop = 8\n        self.nuniq = 8\n        self.cell_choice = \"standard\"\n        self.syscond = [0, 0, 0, 0, 0, 0, 0, 0, 0, 0, 0, 0,\n                        2,", "        self.no = 62\n        self.name = \"Pnma\"\n        self.crystal_system = \"orthorhombic\"\n        self.Laue = \"mmm\"\n        self.nsymop = 8\n        self.nuniq = 8\n        self.cell_choice = \"standard\"\n        self.syscond = [0, 0, 0, 0, 0, 0, 0, 0, 0, 0, 0, 0,\n                        0,", "Pnma: 0KL K+L=2N condition dropped"),
 ("C05", "xfab/tools.py", "    if Laue_class == 'm-3':\n        segm = n.array([[[ 0, 0,  0], [ 1, 0, 0], [ 1, 1, 0], [ 1, 1,  1]],\n                        [[ 1, 2,  0], [ 0, 1, 0], [ 1, 1, 0], [ 1, 1,  1]]])", "    if Laue_class == 'm-3':\n        segm = n.array([[[ 0, 0,  0], [ 1, 0, 0], [ 1, 1, 0], [ 1, 1,  1]]])", "genhkl_base: second segment of m-3 dropped"),
 ("C05", "xfab/laue.py", "    if sgname != None:\n        spg = sg.sg(sgname=sgname,cell_choice=cell_choice)\n    elif sgno != None:\n        spg = sg.sg(sgno=sgno,cell_choice=cell_choice)\n    else:\n        raise ValueError('No space group information given')\n    \n    H = genhkl_base(unit_cell, \n                      spg.syscond, \n                      sintlmin, sintlmax, \n                      crystal_system=spg.crystal_system, \n                      Laue_class = spg.Laue,", "    if sgname != None:\n        spg = sg.sg(sgname=sgname)\n    elif sgno != None:\n        spg = sg.sg(sgno=sgno,cell_choice=cell_choice)\n    else:\n        raise ValueError('No space group information given')\n    \n    H = genhkl_base(unit_cell, \n                      spg.syscond, \n                      sintlmin, sintlmax, \n                      crystal_system=spg.crystal_system, \n                      Laue_class = spg.Laue,", "laue.genhkl_all by name ignores cell_choice"),
 ("C06", "xfab/tools.py", "    if output_stl == False:\n        return H[:,:3]\n    else:\n        return H\n    \n\ndef genhkl_base", "    if output_stl == False:\n        return H[:-1,:3] if len(H) > 40 else H[:,:3]\n    else:\n        return H\n    \n\ndef genhkl_base", "genhkl_unique: output_stl=False drops the last row of long lists"),
 ("C07", "xfab/structure.py", "            exponent = 2*n.pi*n.dot(hkl, r)", "            exponent = 2*n.pi*n.dot(hkl, n.mod(r, 1.0) if noatoms > 2 else r)", "StructureFactor: positions wrapped (harmless) only for > 2 atoms -- control, must stay silent"),
 ("C08", "xfab/structure.py", "            betaij[i, j] = 2*n.pi**2*cellstar[i]*cellstar[j]*U[i, j]", "            betaij[i, j] = 2*n.pi**2*cellstar[i]*cellstar[i]*U[i, j]", "Uij2betaij: a*_i a*_i"),
 ("C08", "xfab/structure.py", "        if disper == None or disper[atoms[i].atomtype] == None :\n            fp = 0.0\n            fpp = 0.0", "        if disper == None or disper[atoms[i].atomtype] == None :\n            fp = 0.0", "StructureFactor: fpp not reset for atoms without dispersion"),
 ("C09", "xfab/laue.py", "    eta = np.array([np.arccos(coseta), -np.arccos(coseta)])", "    eta = np.array([np.arccos(coseta), 2*np.pi-np.arccos(coseta)])", "laue.find_omega_wedge: second eta in [0,2pi) (equivalent angle) -- control, must stay silent"),
 ("C09", "xfab/tools.py", "    normal = n.dot(w_mat_x, n.dot(w_mat_y, n.array([0, 0, 1])))\n\n    a = g_w[0]*(1-normal[0]**2)", "    normal = n.dot(w_mat_y, n.dot(w_mat_x, n.array([0, 0, 1])))\n\n    a = g_w[0]*(1-normal[0]**2)", "find_omega_quart: axis from Ry.Rx"),
 ("C10", "xfab/detector.py", "    lab = n.array([[L], [0], [0]]) + n.dot(R_tilt, n.array([[0],", "    lab = n.array([[L], [0], [0]]) + n.dot(R_tilt.T, n.array([[0],", "detector_to_lab: transposed tilt"),
 ("C11", "xfab/detector.py", "    radcoor = radpix*n.array([-n.sin(etarad),n.cos(etarad)])", "    radcoor = radpix*n.array([n.sin(etarad),n.cos(etarad)])", "eta_and_radpix_to_detyz: eta sense"),
 ("C11", "xfab/detector.py", "        if o12 == -1:\n            if flipdir == 'forward':\n                img = n.flipud(img)\n            else:\n                img = n.fliplr(img)", "        if o12 == -1:\n            if flipdir == 'forward':\n                img = n.flipud(img)\n            else:\n                img = n.flipud(img)", "image_flipping: inverse of the o12 branch"),
 ("C12", "xfab/symmetry.py", "        perm[4]  = [[ 1,  0, 0], [-1, -1, 0], [ 0, 0, -1]]\n        perm[5]  = [[-1, -1, 0], [ 0,  1, 0], [ 0, 0, -1]]\n\n    if crystal_system == 6", "        perm[4]  = [[ 1,  0, 0], [-1, -1, 0], [ 0, 0, -1]]\n        perm[5]  = [[-1, -1, 0], [ 0,  1, 0], [ 0, 0,  1]]\n\n    if crystal_system == 6", "trigonal permutation 5: l sign"),
 ("C13", "xfab/laue.py", "    A[0, 1] = (2*epsilon[1]-A[0, 0]*A0inv[0, 1])/A0inv[1, 1] ", "    A[0, 1] = (2*epsilon[1]-A[1, 1]*A0inv[0, 1])/A0inv[1, 1] ", "laue.epsilon_to_b_old: wrong diagonal element"),
 ("C14", "xfab/laue.py", "    if Laue_class == '-31m':\n        logger.debug('Laue class : -31m (hex) %s'%unit_cell)\n        if unit_cell[4]==unit_cell[5]:", "    if Laue_class == '-31m' and sintlmax < 0.5:\n        logger.debug('Laue class : -31m (hex) %s'%unit_cell)\n        if unit_cell[4]==unit_cell[5]:", "laue.genhkl_base only: -31m table missing for large shells"),
 ("C15", "xfab/structure.py", "    if sgname != None:\n        mysg = sg.sg(sgname=sgname, cell_choice=cell_choice)\n    elif sgno !=None:\n        mysg = sg.sg(sgno=sgno, cell_choice=cell_choice)\n    else:\n        raise ValueError('No space group information provided')\n\n    lp", "    if sgname != None:\n        mysg = sg.sg(sgname=sgname, cell_choice=cell_choice)\n    elif sgno !=None:\n        mysg = sg.sg(sgno=sgno)\n    else:\n        raise ValueError('No space group information provided')\n\n    lp", "multiplicity by number ignores cell_choice"),
 ("C17", "xfab/structure.py", "                label = sub(\"\\s+\", \"\", text[i][12:16])", "                label = sub(\"\\s+\", \"\", text[i][13:16])", "PDBread: label columns"),
 ("C17", "xfab/structure.py", "            elif '_atom_site_symetry_multiplicity' in cifblk:\n                multi = self.remove_esd(cifblk['_atom_site_symetry_multiplicity'][i])", "            elif '_atom_site_symetry_multiplicity' in cifblk:\n                multi = self.remove_esd(cifblk['_atom_site_symetry_multiplicity'][0])", "CIFread: old SHELXL multiplicity key read from row 0"),
 ("C17", "xfab/structure.py", "            value = float(a[:a.find('(')])", "            value = float(a[:a.find('(')-1])", "remove_esd: drops the last digit before the parenthesis"),
 ("C18", "xfab/tools.py", "    red_a_mat[0] = n.dot(a_mat, res[1, :3])", "    red_a_mat[0] = n.dot(a_mat, res[2, :3])", "reduce_cell: first vector is the third entry of the sorted list"),
 ("C19", "xfab/parameters.py", "        for name, value in zip(self.varylist,values):\n            self.parameters[name]=value", "        for name, value in zip(sorted(self.varylist),values):\n            self.parameters[name]=value", "set_variable_values: names sorted"),
 ("C19", "xfab/parameters.py", "        for k,v in list(self.parameters.items()):\n            if hasattr(other,k):\n                var = getattr(other,k)\n                logger.debug(\"setting: pars[%s] from %s to %s\"%(k,v,var))\n                self.parameters[k]=var", "        for k,v in list(self.parameters.items()):\n            if hasattr(other,k) and getattr(other,k):\n                var = getattr(other,k)\n                logger.debug(\"setting: pars[%s] from %s to %s\"%(k,v,var))\n                self.parameters[k]=var", "update_yourself: falsy values (0, 0.0, '') not copied"),
 ("C20", "xfab/symmetry.py", "        checks._check_rotation_matrix(umat_1)\n        checks._check_rotation_matrix(umat_2)", "        checks._check_rotation_matrix(umat_1)", "Umis: second matrix not checked"),
 ("C20", "xfab/tools.py", "    if CHECKS.activated: checks._check_euler_angles(phi1, PHI, phi2)", "    if CHECKS.activated and PHI > 0: checks._check_euler_angles(phi1, PHI, phi2)", "euler_to_u: angles unchecked when PHI <= 0"),
]


def sh(cmd, **kw):
    return subprocess.run(cmd, shell=True, capture_output=True, text=True, **kw)


def main():
    start = 0
    args = []
    for a in sys.argv[1:]:
        if a.endswith("-") and a[:-1].isdigit():
            start = int(a[:-1])
        else:
            args.append(a)
    want = set(args)
    if not os.path.isdir(WT):
        sh("git -C /repo worktree add -q --detach %s HEAD" % WT)
    sh("git -C %s checkout -q -- . && git -C %s checkout -q --detach main" % (WT, WT))
    results = []
    for i, (prop, path, old, new, what) in enumerate(M):
        if (want and prop not in want) or i < start:
            continue
        f = os.path.join(WT, path)
        src = open(f).read()
        n = src.count(old)
        rec = {"id": "%s-m%02d" % (prop, i), "property": prop, "file": path, "what": what}
        if n != 1:
            rec["status"] = "NOT-APPLICABLE (pattern occurs %d times)" % n
            results.append(rec)
            print(rec["id"], rec["status"], what)
            continue
        open(f, "w").write(src.replace(old, new))
        try:
            t = sh("cd %s && PYTHONPATH=%s /venv/bin/python -B -m pytest -q -x -p no:cacheprovider test 2>&1 | tail -1" % (WT, WT), timeout=900)
            suite = t.stdout.strip()
            rec["suite"] = suite
            env = dict(os.environ, VERIF_REPO=WT, VERIF_OUT=os.environ.get("VERIF_OUT", "/tmp/seeded_out"))
            r = subprocess.run([os.path.join(VERIF, "vf"), prop, "quick"], capture_output=True, text=True, env=env, timeout=1800)
            viol = [l for l in r.stdout.splitlines() if l.startswith("VIOLATION")]
            rec["check_exit"] = r.returncode
            rec["violation_lines"] = len(viol)
            rec["monitors"] = sorted(set(l.split("replay=replays/")[1].split("-seed")[0] for l in viol))[:6]
            if "control" in what:
                # behaviour-preserving edit: the check must stay silent
                rec["status"] = "CONTROL silent (as it must be)" if r.returncode == 0 else "CONTROL FIRED (false alarm)"
            elif "passed" in suite and "failed" not in suite:
                rec["status"] = "CAUGHT" if (r.returncode == 1 and viol) else "MISSED"
            else:
                rec["status"] = "killed by the repository suite (not counted); check " + ("also fires" if viol else "silent")
        finally:
            open(f, "w").write(src)
        results.append(rec)
        print(rec["id"], rec["status"], "|", what, "|", rec.get("suite", ""))
        sys.stdout.flush()
    sh("git -C %s checkout -q -- ." % WT)
    sh("git -C %s checkout -q -- evidence; rm -f %s/replays/*.json" % (VERIF, VERIF))
    out = os.path.join(VERIF, "notes", "own_mutants_result.json")
    prev = []
    if (want or start) and os.path.exists(out):
        done = set(r["id"] for r in results)
        prev = [r for r in json.load(open(out)) if r["id"] not in done]
    json.dump(prev + results, open(out, "w"), indent=1)
    c = sum(1 for r in results if r["status"] == "CAUGHT")
    m = sum(1 for r in results if r["status"] == "MISSED")
    print("caught %d, missed %d, other %d" % (c, m, len(results) - c - m))


if __name__ == "__main__":
    main()
