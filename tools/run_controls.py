#!/usr/bin/env python3
"""Negative controls: property-preserving refactorings (controls/<id>/patch.diff, demo.py, meta.json) on which the
property's check has to stay silent.

For each control: confirm on a scratch worktree of /repo (never /repo itself) that the pristine demo exits 0, that with
the patch the repository suite gives '73 passed' and the demo (an independent test of the property) still exits 0, and
that the FINGERPRINT line differs (the change is observable); then run the property's quick tier (and with --thorough
the thorough tier) against the patched tree.  exit 0 expected; exit 1 is a false alarm of the check (or a control that
does break the property - to be read), exit 2 inconclusive.  Results: notes/controls_result.json.

usage: tools/run_controls.py [--thorough] [--all-props] [id ...]
"""
import json
import os
import subprocess
import sys

VERIF = os.path.dirname(os.path.dirname(os.path.abspath(__file__)))
WT = os.environ.get("SEED_WT", "/tmp/wt/ctrl")
OUTDIR = os.environ.get("VERIF_OUT", "/tmp/ctrl_out")


def sh(cmd, **kw):
    return subprocess.run(cmd, shell=True, capture_output=True, text=True, **kw)


def fingerprint(out):
    for l in out.splitlines():
        if l.startswith("FINGERPRINT"):
            return l.strip()
    return None


def main():
    a = sys.argv[1:]
    thorough = "--thorough" in a
    allprops = "--all-props" in a
    want = set(x for x in a if not x.startswith("--"))
    if not os.path.isdir(WT):
        sh("git -C /repo worktree add -q --detach %s HEAD" % WT)
    sh("git -C %s checkout -q --detach main; git -C %s checkout -q -- .; git -C %s clean -fdq" % (WT, WT, WT))
    path = os.environ.get("CONTROLS_RESULT") or os.path.join(VERIF, "notes", "controls_result.json")
    results = {r["id"]: r for r in json.load(open(path))} if os.path.exists(path) else {}
    root = os.path.join(VERIF, "controls")
    for cid in sorted(os.listdir(root)):
        d = os.path.join(root, cid)
        if not os.path.isdir(d) or (want and cid not in want):
            continue
        meta = json.load(open(os.path.join(d, "meta.json")))
        prop = meta.get("property", cid[:3])
        rec = {"id": cid, "property": prop, "summary": meta.get("summary", "")[:300],
               "observable_difference": meta.get("observable_difference", "")[:300]}
        env = dict(os.environ, PYTHONPATH=WT)
        r0 = subprocess.run(["/venv/bin/python", "-B", os.path.join(d, "demo.py")], capture_output=True, text=True, env=env, timeout=3600)
        ap = sh("git -C %s apply %s" % (WT, os.path.join(d, "patch.diff")))
        if ap.returncode:
            rec["status"] = "patch does not apply"
            results[cid] = rec
            continue
        suite = sh("cd %s && PYTHONPATH=%s /venv/bin/python -B -m pytest -q -p no:cacheprovider test 2>&1 | tail -1" % (WT, WT)).stdout.strip()
        r1 = subprocess.run(["/venv/bin/python", "-B", os.path.join(d, "demo.py")], capture_output=True, text=True, env=env, timeout=3600)
        rec["confirm"] = {"pristine_demo_exit": r0.returncode, "patched_demo_exit": r1.returncode, "suite": suite[-60:],
                          "fingerprint_differs": fingerprint(r0.stdout) != fingerprint(r1.stdout) and fingerprint(r1.stdout) is not None}
        ok = r0.returncode == 0 and r1.returncode == 0 and "73 passed" in suite
        if not ok:
            rec["status"] = "not a valid control (demo or suite fails)"
        else:
            props = ["C%02d" % i for i in range(1, 21)] if allprops else [prop]
            rec["checks"] = {}
            worst = 0
            for p in props:
                for tier in (("quick", "thorough") if thorough else ("quick",)):
                    r = subprocess.run([os.path.join(VERIF, "vf"), p, tier], capture_output=True, text=True,
                                       env=dict(os.environ, VERIF_REPO=WT, VERIF_OUT=OUTDIR), timeout=14400)
                    lines = [l[:700] for l in r.stdout.splitlines() if l.startswith(("VIOLATION", "INCONCLUSIVE", "  monitor="))]
                    rec["checks"]["%s %s" % (p, tier)] = {"exit": r.returncode, "lines": lines[:6]}
                    worst = max(worst, r.returncode if r.returncode in (1, 2) else (3 if r.returncode else 0))
            rec["status"] = {0: "silent", 1: "ALARM", 2: "inconclusive", 3: "crash"}[worst]
        sh("git -C %s checkout -q -- .; git -C %s clean -fdq" % (WT, WT))
        results[cid] = rec
        json.dump(sorted(results.values(), key=lambda x: x["id"]), open(path, "w"), indent=1)
        print("%-8s %-14s %s" % (cid, rec["status"], rec.get("confirm", "")), flush=True)
    return 0


if __name__ == "__main__":
    sys.exit(main())
