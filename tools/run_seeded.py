#!/usr/bin/env python3
"""Run every kept seeded change (seeded/<id>/patch.diff) against its property's check on a scratch worktree of /repo
(never /repo itself): quick tier first, thorough tier if quick is silent.  Writes notes/seeded_result.json and prints
a markdown table for DESIGN.md section 7.

usage: tools/run_seeded.py [id ...]
"""
import json
import os
import subprocess
import sys

WT = os.environ.get("SEED_WT", "/tmp/wt/mine")
VERIF = os.path.dirname(os.path.dirname(os.path.abspath(__file__)))


def sh(cmd, **kw):
    return subprocess.run(cmd, shell=True, capture_output=True, text=True, **kw)


def run_check(prop, tier):
    env = dict(os.environ, VERIF_REPO=WT, VERIF_OUT=os.environ.get("VERIF_OUT", "/tmp/seeded_out"))
    r = subprocess.run([os.path.join(VERIF, "vf"), prop, tier], capture_output=True, text=True, env=env, timeout=7200)
    viol = [l for l in r.stdout.splitlines() if l.startswith("VIOLATION")]
    mons = sorted(set(l.split("replay=replays/")[1].split("-seed")[0].split("-", 1)[1] for l in viol))
    return r.returncode, mons


def main():
    want = set(sys.argv[1:])
    if not os.path.isdir(WT):
        sh("git -C /repo worktree add -q --detach %s HEAD" % WT)
    sh("git -C %s checkout -q -- . && git -C %s checkout -q --detach main" % (WT, WT))
    out_path = os.path.join(VERIF, "notes", "seeded_result.json")
    results = {}
    if os.path.exists(out_path):
        results = {r["id"]: r for r in json.load(open(out_path))}
    for sid in sorted(os.listdir(os.path.join(VERIF, "seeded"))):
        d = os.path.join(VERIF, "seeded", sid)
        if not os.path.isdir(d) or (want and sid not in want):
            continue
        meta = json.load(open(os.path.join(d, "meta.json")))
        prop = meta.get("property", sid.split("_")[0])
        a = sh("git -C %s apply %s" % (WT, os.path.join(d, "patch.diff")))
        rec = {"id": sid, "property": prop, "summary": meta.get("summary", "")[:300], "needs": meta.get("needs", "")[:300]}
        if a.returncode != 0:
            # seeds were written against earlier trees; a fix: commit may since have touched the same lines
            rec["status"] = "patch no longer applies to the current tree"
        else:
            try:
                rc, mons = run_check(prop, "quick")
                rec["quick"] = {"exit": rc, "monitors": mons[:6]}
                if rc == 1 and mons:
                    rec["status"] = "caught by quick"
                else:
                    rc, mons = run_check(prop, "thorough")
                    rec["thorough"] = {"exit": rc, "monitors": mons[:6]}
                    rec["status"] = "caught by thorough only" if (rc == 1 and mons) else "MISSED"
            finally:
                sh("git -C %s checkout -q -- . && git -C %s clean -fdq" % (WT, WT))
        results[sid] = rec
        print(sid, rec["status"], rec.get("quick", {}).get("monitors", [])[:2])
        sys.stdout.flush()
    json.dump([results[k] for k in sorted(results)], open(out_path, "w"), indent=1)
    sh("git -C %s checkout -q -- evidence; rm -f %s/replays/*.json" % (VERIF, VERIF))
    print("\n| seeded change | property | what it does / what it needs | result | monitors that fired |")
    print("|---|---|---|---|---|")
    for k in sorted(results):
        r = results[k]
        mons = (r.get("quick", {}).get("monitors") or r.get("thorough", {}).get("monitors") or [])[:3]
        print("| %s | %s | %s | %s | %s |" % (k, r["property"], (r["summary"][:160] + " — needs: " + r["needs"][:140]).replace("|", "/").replace("\n", " "),
                                        r["status"], "; ".join(m.replace("_", " ")[:50] for m in mons)))


if __name__ == "__main__":
    main()
