#!/venv/bin/python
"""Run the repository's own test suite with the property contracts switched on.

A contract that fires here is either too strict (fix the monitor) or a defect the tests do not assert
(read the witness).  Diagnostic tool, not a registered check: prints per-monitor evaluation / violation
counts for the contracts of C01, C02, C03, C09, C10, C13, C15, C16 and the C04 class invariant.
"""
import os
import sys

HERE = os.path.dirname(os.path.dirname(os.path.abspath(__file__)))
sys.path.insert(0, HERE)
os.environ.setdefault("PYTHONHASHSEED", "0")

from vfw import boot, contracts, findings  # noqa: E402
from vfw.main import Ctx  # noqa: E402


def main():
    backend = boot.ensure_deps()
    contracts.set_backend(backend)
    xfab = boot.import_subject()
    import warnings
    warnings.simplefilter("ignore")
    from vfw.props import c01, c02, c03, c04, c09, c10, c13, c15, c16
    from vfw import oracle
    from xfab import tools, laue
    ctx = Ctx("C13", "quick", 0, 0, 1)       # C13: so that its open finding is honoured where it applies
    ctx.mon.open_findings = set(f["id"] for f in findings.load() if f["status"] == "open")
    ctx.xfab = xfab
    for mod, k in ((tools, oracle.TWO_PI), (laue, 1.0)):
        c01.install(ctx, mod, k)
        c02.install(ctx, mod, k)
        c13.install(ctx, mod, k)
        c03.install(ctx, mod)
        c09.install(ctx, mod)
    c10.setup(ctx)
    c16.setup(ctx)
    ctx.mon.begin("repository test suite", {})
    import pytest
    rc = pytest.main(["-q", "-p", "no:cacheprovider", os.path.join(boot.REPO, "test")])
    ctx.mon.end()
    print("\npytest exit code:", rc)
    tot = 0
    for m, st in sorted(ctx.mon.stats.items()):
        tot += st[0]
        print("  %-58s eval=%-7d viol=%-5d known=%d" % (m, st[0], st[1], st[2]))
    print("contract evaluations under the repository's own tests:", tot)
    for ev in ctx.mon.events[:12]:
        print("EVENT", ev["monitor"], "observed=", str(ev["observed"])[:200], "expected=", str(ev["expected"])[:200], "detail=", str(ev["detail"])[:200])
    return 0


if __name__ == "__main__":
    sys.exit(main())
