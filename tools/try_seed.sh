#!/bin/sh
# try_seed.sh <patch> <Cxx> [tier]: apply a patch to the scratch worktree, run the check against it, undo
P="$(realpath "$1")"; ID="$2"; TIER="${3:-quick}"; WT="${SEED_WT:-/tmp/wt/mine}"
git -C $WT checkout -q -- . && git -C $WT apply "$P" || exit 9
VERIF_REPO=$WT /verif/vf $ID $TIER > /tmp/try.$$.log 2>&1; rc=$?
git -C $WT checkout -q -- .
grep -E "viol=[1-9]|^VIOLATION|^HELD|^INCONCLUSIVE|^KNOWN" /tmp/try.$$.log | cut -c1-220 | head -${LINES_MAX:-12}
echo "exit=$rc"; rm -f /tmp/try.$$.log
git -C /verif checkout -q -- evidence 2>/dev/null; rm -f /verif/replays/*.json
