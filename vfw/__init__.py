"""Runtime-monitoring framework for FABLE-3DXRD/xfab (see /verif/DESIGN.md)."""
