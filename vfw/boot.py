"""Locate the working tree under test, install the offline dependencies, import xfab.

Nothing here depends on xfab being importable: a failure is reported to the
caller, which turns it into an INCONCLUSIVE verdict.
"""
import fcntl
import os
import subprocess
import sys

VERIF = os.path.dirname(os.path.dirname(os.path.abspath(__file__)))
REPO = os.environ.get("VERIF_REPO", "/repo")
DEPS = os.path.join(VERIF, ".deps")
WORK = os.path.join(VERIF, ".work")
# where evidence/ and replays/ go: /verif, unless the acceptance tooling (tools/auto_mutants.py runs several scratch trees at
# once) redirects it; registered commands never set this
OUT = os.environ.get("VERIF_OUT") or VERIF
WHEELS = "/opt/veriftools/wheels"

sys.dont_write_bytecode = True


def ensure_deps(verbose=False):
    """icontract beside the repository's interpreter, from the offline wheelhouse.

    Restored checkouts lack the git-ignored .deps directory, so this runs
    lazily from every check, serialised by a file lock.  Returns the name of
    the contract backend that will be used ('icontract' or 'shim').
    """
    os.makedirs(WORK, exist_ok=True)
    marker = os.path.join(DEPS, "icontract", "__init__.py")
    if not os.path.exists(marker):
        lock = open(os.path.join(WORK, "deps.lock"), "w")
        fcntl.flock(lock, fcntl.LOCK_EX)
        try:
            if not os.path.exists(marker):
                cmd = ["/venv/bin/python", "-m", "pip", "install", "--quiet", "--no-index",
                       "--disable-pip-version-check", "--find-links", WHEELS,
                       "--target", DEPS, "icontract"]
                env = dict(os.environ, PIP_NO_INDEX="1")
                r = subprocess.run(cmd, env=env, capture_output=True, text=True, timeout=600)
                if verbose or r.returncode != 0:
                    sys.stderr.write(r.stdout + r.stderr)
        finally:
            fcntl.flock(lock, fcntl.LOCK_UN)
            lock.close()
    if os.path.exists(marker):
        if DEPS not in sys.path:
            sys.path.append(DEPS)
        try:
            import icontract  # noqa: F401
            return "icontract"
        except Exception as exc:  # pragma: no cover
            sys.stderr.write("icontract import failed: %r\n" % (exc,))
    return "shim"


def import_subject():
    """Import xfab from the working tree under test and prove where it came from."""
    if sys.path[0] != REPO:
        sys.path.insert(0, REPO)
    for name in [m for m in sys.modules if m == "xfab" or m.startswith("xfab.")]:
        del sys.modules[name]
    import logging
    import xfab
    logging.getLogger("xfab").setLevel(logging.CRITICAL)   # the subject logs every malformed line / missing key it is fed
    where = os.path.realpath(xfab.__file__)
    if not where.startswith(os.path.realpath(REPO) + os.sep):
        raise ImportError("xfab imported from %s, not from %s" % (where, REPO))
    return xfab


def repo_state():
    """HEAD and dirty flag of the tree under test, for the evidence file."""
    try:
        head = subprocess.run(["git", "-C", REPO, "rev-parse", "--short", "HEAD"],
                              capture_output=True, text=True, timeout=30).stdout.strip()
        dirty = subprocess.run(["git", "-C", REPO, "status", "--porcelain", "--untracked-files=no"],
                               capture_output=True, text=True, timeout=30).stdout.strip()
        return {"head": head, "dirty": bool(dirty)}
    except Exception:
        return {"head": "?", "dirty": None}
