"""Contracts on the real functions of the tree under test.

`ensure(module, name, condition)` replaces `module.name` by the same function
decorated with an icontract post-condition, so that *internal* callers
(u_to_ubi -> form_b_mat, genhkl_base -> sintl/sysabs, StructureFactor ->
sg.sg/FormFactor/sintl) are monitored as well as the top-level call.

Conditions are named functions whose parameter names are a subset of the
decorated function's parameters plus `result`.  They *record* into the Mon
object and always return True - a monitor must not change the behaviour of the
code it watches.  enabled=True is passed explicitly: icontract's default is
`__debug__`, which would silently remove the monitors under `python -O`.

If icontract cannot be installed from the wheelhouse a 25-line shim with the
same calling convention is used; the evidence names the backend.
"""
import functools
import inspect

BACKEND = None
_installed = []     # (module, name, original)


class ContractBroken(Exception):
    """never raised in practice: conditions record and return True"""


def set_backend(name):
    global BACKEND
    BACKEND = name


def _shim_ensure(cond):
    want = list(inspect.signature(cond).parameters)

    def deco(func):
        sig = inspect.signature(func)

        @functools.wraps(func)
        def wrapper(*args, **kwargs):
            result = func(*args, **kwargs)
            bound = sig.bind(*args, **kwargs)
            bound.apply_defaults()
            kw = {}
            for p in want:
                if p == "result":
                    kw[p] = result
                else:
                    kw[p] = bound.arguments[p]
            cond(**kw)
            return result
        return wrapper
    return deco


def _guard(cond, counter):
    """wrap a recording condition so that it always returns True and so that a
    bug in the condition itself is recorded instead of propagating"""
    @functools.wraps(cond)
    def safe(*args, **kwargs):
        counter[0] += 1
        try:
            cond(*args, **kwargs)
        except Exception as exc:  # a monitor bug must not masquerade as behaviour
            counter[1].append(repr(exc))
        return True
    safe.__signature__ = inspect.signature(cond)
    return safe


def ensure(module, name, cond):
    """decorate module.name with post-condition `cond`; returns [evaluations, monitor_errors]"""
    orig = getattr(module, name)
    counter = [0, []]
    safe = _guard(cond, counter)
    if BACKEND == "icontract":
        import icontract
        wrapped = icontract.ensure(safe, error=ContractBroken, enabled=True)(orig)
    else:
        wrapped = _shim_ensure(safe)(orig)
    setattr(module, name, wrapped)
    _installed.append((module, name, orig))
    return counter


def invariant(module, name, cond):
    """class invariant on module.name (a class); cond(self) records and returns True"""
    orig = getattr(module, name)
    counter = [0, []]
    safe = _guard(cond, counter)
    if BACKEND == "icontract":
        import icontract
        wrapped = icontract.invariant(safe, error=ContractBroken, enabled=True)(orig)
    else:
        init = orig.__init__

        @functools.wraps(init)
        def __init__(self, *a, **k):
            init(self, *a, **k)
            safe(self)
        wrapped = type(orig.__name__, (orig,), {"__init__": __init__, "__module__": orig.__module__})
    setattr(module, name, wrapped)
    _installed.append((module, name, orig))
    return counter


def spy(module, name, before=None, after=None):
    """plain recording wrapper (used for traces: the ordered list of sintl /
    sysabs calls of the row-walk, the argument reduce_cell hands to a_to_cell,
    the _check_* invocations)"""
    orig = getattr(module, name)

    @functools.wraps(orig)
    def wrapper(*args, **kwargs):
        if before is not None:
            before(args, kwargs)
        try:
            result = orig(*args, **kwargs)
        except BaseException as exc:
            if after is not None:
                after(args, kwargs, None, exc)
            raise
        if after is not None:
            after(args, kwargs, result, None)
        return result
    setattr(module, name, wrapper)
    _installed.append((module, name, orig))
    return orig


def uninstall_all():
    while _installed:
        module, name, orig = _installed.pop()
        setattr(module, name, orig)
