"""known_findings.json: committed, never written at run time.

An *open* finding is honoured only when a mechanism classifier written for it
(in the property module) recognises the failure; anything else is a VIOLATION
even for a property that has open findings.  *fixed* entries suppress nothing.
"""
import json
import os

from vfw import boot


def load():
    path = os.path.join(boot.VERIF, "known_findings.json")
    if not os.path.exists(path):
        return []
    with open(path) as fh:
        return json.load(fh)["findings"]


def open_ids(prop):
    return [f["id"] for f in load() if f["property"] == prop and f["status"] == "open"]


def describe(fid):
    for f in load():
        if f["id"] == fid:
            return f
    return None
