"""Input generators.  Every random choice comes from a numpy Generator handed in
by the caller (derived from VERIF_SEED, property, shard).  Never imports xfab."""
import math

import numpy as np

from vfw import oracle

CELL_STRATA = ["generic", "near_orth", "oblique", "one90", "two_equal", "anisotropic", "very_oblique", "symmetric"]


def cell(rng, stratum=None, min_gram=0.02):
    """valid cell with Gram determinant (angular part) >= min_gram"""
    if stratum is None:
        stratum = CELL_STRATA[int(rng.integers(len(CELL_STRATA)))]
    for _ in range(10000):
        abc = np.exp(rng.uniform(math.log(1.0), math.log(50.0), 3))
        if stratum == "near_orth":
            ang = 90 + rng.uniform(-0.5, 0.5, 3)
        elif stratum == "oblique":
            ang = rng.uniform(5, 175, 3)
            if not (np.any(ang < 40) or np.any(ang > 140)):
                continue
        elif stratum == "very_oblique":
            # all three far from 90: e.g. rhombohedral-like acute or one obtuse two acute
            base = rng.choice([35.0, 50.0, 65.0, 110.0, 115.0])
            ang = base + rng.uniform(-8, 8, 3)
        elif stratum == "symmetric":
            # exact ties: the metric symmetries of the seven lattice types (equal axes, equal angles, exact 90 / 120)
            a, b, c_ = (float(x) for x in abc)
            kind = int(rng.integers(7))
            al = float(rng.choice([rng.uniform(40, 115), 60.0, 70.0, 109.47122063449069, 100.0]))
            return [[a, a, a, 90.0, 90.0, 90.0], [a, a, c_, 90.0, 90.0, 90.0], [a, b, c_, 90.0, 90.0, 90.0],
                    [a, a, c_, 90.0, 90.0, 120.0], [a, a, a, al, al, al], [a, b, c_, 90.0, float(rng.uniform(60, 135)), 90.0],
                    [a, b, b, 90.0, 90.0, 90.0]][kind], stratum
        elif stratum == "one90":
            ang = rng.uniform(5, 175, 3)
            ang[int(rng.integers(3))] = 90.0
        elif stratum == "two_equal":
            ang = rng.uniform(5, 175, 3)
            i, j = rng.choice(3, 2, replace=False)
            ang[j] = ang[i]
        elif stratum == "anisotropic":
            ang = rng.uniform(5, 175, 3)
            abc = np.array([rng.uniform(1, 2), rng.uniform(1, 50), rng.uniform(40, 50)])
            abc = abc[rng.permutation(3)]
        else:
            ang = rng.uniform(5, 175, 3)
        c = [float(abc[0]), float(abc[1]), float(abc[2]), float(ang[0]), float(ang[1]), float(ang[2])]
        if oracle.gram_det_angular(c) >= min_gram:
            return c, stratum
    raise RuntimeError("cell generator exhausted")


def hkl(rng, box=30):
    while True:
        h = rng.integers(-box, box + 1, 3)
        if np.any(h != 0):
            return [int(h[0]), int(h[1]), int(h[2])]


def as_form(x, k):
    """the same numbers in another container: nested list / nested tuple / float ndarray / integer ndarray (when integral).
    Callers pass what they have; every property is about the values, not the container."""
    a = np.asarray(x)
    k = k % 4
    if k == 0:
        return a.astype(float).tolist()
    if k == 1:
        def tup(v):
            return tuple(tup(w) for w in v) if isinstance(v, list) else v
        return tup(a.astype(float).tolist())
    if k == 2:
        return a.astype(float)
    if np.all(a == np.rint(a)):
        return a.astype(np.int64)
    return a.astype(float)


NEIGHBOURS = [[i, j, k] for i in (-1, 0, 1) for j in (-1, 0, 1) for k in (-1, 0, 1) if (i, j, k) != (0, 0, 0)]


def cube_rotations():
    """the 24 proper axis-aligned rotations"""
    out = []
    import itertools
    for perm in itertools.permutations(range(3)):
        for signs in itertools.product((1, -1), repeat=3):
            M = np.zeros((3, 3))
            for i in range(3):
                M[i, perm[i]] = signs[i]
            if round(np.linalg.det(M)) == 1:
                out.append(M)
    return out


_CUBE = None

ROT_STRATA = ["uniform", "axis_aligned", "tiny_angle", "near_180", "gimbal_0_exact", "gimbal_pi_exact",
              "gimbal_0_near", "gimbal_pi_near", "product"]


def rotation(rng, stratum=None):
    """proper rotation matrix; returns (U, stratum, info)"""
    global _CUBE
    if _CUBE is None:
        _CUBE = cube_rotations()
    if stratum is None:
        stratum = ROT_STRATA[int(rng.integers(len(ROT_STRATA)))]
    info = {}
    if stratum == "uniform":
        U = oracle.quat_to_mat(rng.normal(size=4))
    elif stratum == "axis_aligned":
        U = _CUBE[int(rng.integers(24))].copy()
    elif stratum == "tiny_angle":
        ang = 10 ** rng.uniform(-12, -3)
        U = oracle.axis_angle(rng.normal(size=3), ang)
        info["angle"] = ang
    elif stratum == "near_180":
        ang = math.pi - 10 ** rng.uniform(-5, -1)
        U = oracle.axis_angle(rng.normal(size=3), ang)
        info["angle"] = ang
    elif stratum.startswith("gimbal"):
        phi1, phi2 = rng.uniform(0, 2 * math.pi, 2)
        if stratum.endswith("exact"):
            d = 0.0
        else:
            d = 10 ** rng.uniform(-12, -3)
        PHI = d if "_0_" in stratum else math.pi - d
        U = oracle.euler(phi1, PHI, phi2)
        info = {"phi1": float(phi1), "PHI": float(PHI), "phi2": float(phi2), "delta": float(d)}
    elif stratum == "product":
        # products of rotations: entries off by an ulp, U33 possibly 1+2e-16
        U = np.eye(3)
        for _ in range(int(rng.integers(2, 6))):
            U = U @ oracle.quat_to_mat(rng.normal(size=4))
        if rng.random() < 0.5:
            U = U @ U.T      # identity up to rounding
            if rng.random() < 0.5:
                U = oracle.Rz(rng.uniform(0, 2 * math.pi)) @ U
    else:
        raise ValueError(stratum)
    return U, stratum, info


# ---- cells conforming to a crystal system / setting ------------------------
def conforming_cell(rng, system, setting="standard", variant=None):
    """cell whose metric conforms to the crystal system (monoclinic: unique axis b).
    variant 'orth' gives an orthogonal metric where the system allows a choice."""
    a, b, c = (float(x) for x in np.exp(rng.uniform(math.log(3.0), math.log(12.0), 3)))
    if system == "triclinic":
        if variant == "orth":
            return [a, b, c, 90.0, 90.0, 90.0]
        for _ in range(1000):
            ang = rng.uniform(60, 120, 3)
            cc = [a, b, c, float(ang[0]), float(ang[1]), float(ang[2])]
            if oracle.gram_det_angular(cc) > 0.2:
                return cc
    if system == "monoclinic":
        beta = 90.0 if variant == "orth" else float(rng.uniform(60, 135))
        return [a, b, c, 90.0, beta, 90.0]
    if system == "orthorhombic":
        return [a, b, c, 90.0, 90.0, 90.0]
    if system == "tetragonal":
        return [a, a, c, 90.0, 90.0, 90.0]
    if system in ("trigonal", "hexagonal"):
        if setting == "rhombohedral":
            al = float(variant) if isinstance(variant, (int, float)) else float(rng.uniform(50, 115))
            return [a, a, a, al, al, al]
        return [a, a, c, 90.0, 90.0, 120.0]
    if system == "cubic":
        return [a, a, a, 90.0, 90.0, 90.0]
    raise ValueError(system)
