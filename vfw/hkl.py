"""Engine shared by C05 and C06: brute-force reflection oracle, shell placement, trace of the row-walk,
frozen as-found visit sequence (used only to recognise the open row-walk finding)."""
import math

import numpy as np

from vfw import contracts, gen, oracle, sgexact as sx

R_GROUPS = (146, 148, 155, 160, 161, 166, 167)


def settings():
    out = []
    for no in range(1, 231):
        out.append((no, "standard"))
        if no in R_GROUPS:
            out.append((no, "rhombohedral"))
    return out


# ---------------------------------------------------------------------------------------------- cells
def cell_for(rng, system, setting, variant):
    """variant: 'generic' | 'orth' (orthogonal metric where the system leaves a choice) | special rhombohedral angles"""
    if system in ("trigonal", "hexagonal") and setting == "rhombohedral":
        if variant == "orth":
            al = float(rng.choice([60.0, 90.0, 109.47122063449069]))
        elif variant == "pseudo":
            # just acute of cubic: where the 1.1 look-ahead factor of the -3 walk decides whether a row is reached
            al = float(rng.uniform(75, 89.9))
        elif variant == "long":
            al = float(rng.uniform(90.1, 112))          # obtuse: the rows of the walk are far from radial
        else:
            al = float(rng.uniform(50, 115))
        a = float(rng.uniform(4, 9))
        return [a, a, a, al, al, al]
    c = gen.conforming_cell(rng, system, setting, "orth" if variant in ("orth", "pseudo", "long") else None)
    if variant == "long" and system in ("triclinic", "monoclinic", "orthorhombic", "tetragonal", "trigonal", "hexagonal") and setting != "rhombohedral":
        # one very long axis: indices beyond 50 / 100 / 128 appear inside ordinary shells
        c[0] = float(rng.uniform(3, 4))
        if system in ("triclinic", "monoclinic", "orthorhombic"):
            c[1] = float(rng.uniform(3, 4))
        else:
            c[1] = c[0]
        c[2] = float(rng.uniform(130, 320))
    if variant == "pseudo":
        # pseudo-symmetric metric: free axes equal to within 1e-6..1e-5, so that inequivalent reflections have
        # sintl values closer than 1e-6 (ordering, column 4 and boundary semantics are exercised on near-ties)
        a = c[0]
        if system in ("triclinic", "monoclinic", "orthorhombic"):
            c[1] = a * (1 + float(rng.choice([-1, 1])) * 10 ** rng.uniform(-6, -5))
            c[2] = a * (1 + float(rng.choice([-1, 1])) * 10 ** rng.uniform(-6, -5))
        elif system == "tetragonal":
            c[2] = a * (1 + float(rng.choice([-1, 1])) * 10 ** rng.uniform(-6, -5))
        elif system in ("trigonal", "hexagonal") and setting != "rhombohedral":
            c[2] = a * math.sqrt(8.0 / 3.0) * (1 + float(rng.choice([-1, 1])) * 10 ** rng.uniform(-6, -5))
    return c


def rhomb_to_hex(cell):
    a, al = cell[0], math.radians(cell[3])
    ah = 2 * a * math.sin(al / 2)
    ch = a * math.sqrt(3 * (1 + 2 * math.cos(al)))
    return [ah, ah, ch, 90.0, 90.0, 120.0]


def obverse(h):
    """(h,k,l)_hex from (h,k,l)_rhomb, standard obverse setting"""
    return (h[0] - h[1], h[1] - h[2], h[0] + h[1] + h[2])


# ---------------------------------------------------------------------------------------------- oracle
def lattice_points(cell, smax):
    """all integer h != 0 with stl <= smax (a little beyond), and their stl"""
    G = oracle.metric(cell)
    Gs = np.linalg.inv(G)
    lim = [int(math.floor(2 * smax * math.sqrt(G[i, i]) * (1 + 1e-9))) + 1 for i in range(3)]
    r = [np.arange(-l, l + 1) for l in lim]
    H = np.array(np.meshgrid(r[0], r[1], r[2], indexing="ij")).reshape(3, -1).T
    H = H[np.any(H != 0, axis=1)]
    s = 0.5 * np.sqrt(np.einsum("ij,jk,ik->i", H, Gs, H))
    return H, s


def choose_shell(rng, cell, target, want_min, avoid_scale=None):
    """(smin, smax) placed in the middle of gaps (>= 2e-6 relative) between distinct lattice radii"""
    V = oracle.volume(cell)
    s0 = 0.5 * (3 * target / (4 * math.pi * V)) ** (1 / 3.0)
    H, s = lattice_points(cell, 1.35 * s0 + 0.02)
    radii = np.unique(np.round(s, 12))
    radii = radii[radii > 0]

    def gap_near(x, lo=0):
        idx = int(np.searchsorted(radii, x))
        for d in range(0, len(radii)):
            for i in (idx + d, idx - d):
                if lo <= i < len(radii) - 1 and (radii[i + 1] - radii[i]) >= 2e-6 * radii[i]:
                    mid = 0.5 * (radii[i] + radii[i + 1])
                    if avoid_scale is not None:
                        # the walk also compares with avoid_scale*smax: keep that away from every radius too
                        j = int(np.searchsorted(radii, avoid_scale * mid))
                        near = [radii[k] for k in (j - 1, j) if 0 <= k < len(radii)]
                        if any(abs(avoid_scale * mid - q) < 2e-6 * q for q in near) or avoid_scale * mid > radii[-1]:
                            continue
                    return i, mid
        return None, None

    i, smax = gap_near(s0)
    if smax is None:
        return None
    smin = 0.0
    if want_min:
        j, m = gap_near(float(rng.uniform(0.3, 0.75)) * smax)
        if m is not None and m < smax:
            smin = m
    return smin, smax


class Oracle(object):
    """allowed reflections and Laue families inside the shell, from the group's own operations"""
    def __init__(self, ops, cell, smin, smax):
        H, s = lattice_points(cell, smax)
        inside = (s > smin) & (s <= smax)
        self.H = H[inside]
        self.s = s[inside]
        self.near_bound = bool(np.any(np.abs(s - smax) < 1e-9 * smax) or (smin > 0 and np.any(np.abs(s - smin) < 1e-9 * smin)))
        ext = np.zeros(len(self.H), bool)
        for R, t in ops:
            Rm = np.array(R)
            fixed = np.all(self.H @ Rm == self.H, axis=1)
            ph = (self.H @ np.array(t)) % sx.DEN != 0
            ext |= fixed & ph
        self.extinct = ext
        rots = sx.point_rotations(ops)
        pm = [np.array(R) for R in rots] + [-np.array(R) for R in rots]
        # canonical representative of each Laue orbit: lexicographically largest image
        off = int(np.max(np.abs(self.H))) + 1 if len(self.H) else 1
        M = 2 * off + 1
        keys = np.full(len(self.H), -1, dtype=np.int64)
        for R in pm:
            HR = self.H @ R
            k = ((HR[:, 0] + off) * M + (HR[:, 1] + off)) * M + (HR[:, 2] + off)
            keys = np.maximum(keys, k)
        self.key = keys
        self.pm = pm
        self.allowed = set(map(tuple, self.H[~ext].tolist()))
        self.all_in_shell = set(map(tuple, self.H.tolist()))
        fam = {}
        for h, k, e in zip(self.H.tolist(), keys.tolist(), ext.tolist()):
            fam.setdefault(k, []).append((tuple(h), e))
        self.families = {}          # key -> frozenset of members, allowed families only
        self.mixed = []
        for k, members in fam.items():
            flags = set(e for _, e in members)
            if len(flags) > 1:
                self.mixed.append(members)
            if not members[0][1]:
                self.families[k] = frozenset(h for h, _ in members)
        self.member_key = {h: k for k, f in self.families.items() for h in f}
        self.n_extinct = int(ext.sum())


# ---------------------------------------------------------------------------------------------- trace
class Trace(object):
    """ordered record of the sintl / sysabs calls genhkl_base makes: this *is* the Le Page - Gabe row-walk"""
    def __init__(self):
        self.on = False
        self.visited = []      # H handed to sysabs (deduplicated consecutive repeats)
        self.accepted = set()
        self.rejected = {}
        self.nsintl = 0

    def reset(self):
        self.visited = []
        self.accepted = set()
        self.rejected = {}
        self.nsintl = 0

    def install(self, module):
        def after_sysabs(args, kwargs, result, exc):
            if not self.on:
                return
            h = tuple(int(x) for x in args[0])
            if not self.visited or self.visited[-1] != h:
                self.visited.append(h)
            if result == 0:
                self.accepted.add(h)
            elif result is not None:
                self.rejected[h] = int(result)

        def after_sintl(args, kwargs, result, exc):
            if self.on:
                self.nsintl += 1
        contracts.spy(module, "sysabs", after=after_sysabs)
        contracts.spy(module, "sintl", after=after_sintl)


# ---------------------------------------------------------------------------------------------- frozen as-found walk
_SEGM = {
    "-1": [[[0, 0, 0], [1, 0, 0], [0, 1, 0], [0, 0, 1]], [[-1, 0, 1], [-1, 0, 0], [0, 1, 0], [0, 0, 1]],
           [[-1, 1, 0], [-1, 0, 0], [0, 1, 0], [0, 0, -1]], [[0, 1, -1], [1, 0, 0], [0, 1, 0], [0, 0, -1]]],
    "2/m": [[[0, 0, 0], [1, 0, 0], [0, 1, 0], [0, 0, 1]], [[-1, 0, 1], [-1, 0, 0], [0, 1, 0], [0, 0, 1]]],
    "-3m/rh": [[[0, 0, 0], [1, 0, 0], [1, 0, -1], [1, 1, 1]], [[1, 1, 0], [1, 0, -1], [0, 0, -1], [1, 1, 1]]],
    "-3/rh": [[[0, 0, 0], [1, 0, 0], [1, 0, -1], [1, 1, 1]], [[1, 1, 0], [1, 0, -1], [0, 0, -1], [1, 1, 1]],
              [[0, -1, -2], [1, 0, 0], [1, 0, -1], [-1, -1, -1]], [[1, 0, -2], [1, 0, -1], [0, 0, -1], [-1, -1, -1]]],
}
FINDING_CLASSES = {("-1", False), ("2/m", False), ("-3", True), ("-3m", True)}


def frozen_visits(cell, laue, rhomb, smax, ties_out_except=None):
    """visit sequence of the row-walk exactly as found on the pinned tree (loop control only: it contains no
    extinction logic).  Used solely to recognise the open finding 'row-walk early exit'; never an oracle.
    ties_out_except: a set of hkl; lattice points whose sintl equals the bound to 1e-12 and that are not in the set are
    taken as outside (the subject's own sintl may put them one ulp above the bound, which ends the row or layer)."""
    key = laue + "/rh" if rhomb else laue
    segm = _SEGM.get(key)
    if segm is None:
        return None
    scale = 1.1 if (laue == "-3" and rhomb) else 1.0
    Gs = oracle.recip_metric(cell)

    def stl(h):
        v = np.asarray(h, float)
        v = 0.5 * math.sqrt(max(0.0, float(v @ Gs @ v)))
        if ties_out_except is not None and abs(v - smax * scale) <= 1e-12 * smax * scale and tuple(int(x) for x in h) not in ties_out_except:
            return float("inf")
        return v
    visited = set()
    first = True
    for seg in segm:
        seg = [np.array(v) for v in seg]
        HLAST = seg[0]
        HSAVE = seg[0]
        HSAVE1 = seg[0]
        ltest = 0
        guard = 0
        while ltest == 0:
            ktest = 0
            while ktest == 0:
                htest = 0
                while htest == 0:
                    guard += 1
                    if guard > 2000000:
                        return None
                    if first:
                        first = False
                    else:
                        visited.add(tuple(int(x) for x in HLAST))
                    HNEW = HLAST + seg[1]
                    if stl(HNEW) <= smax * scale:
                        HLAST = HNEW
                    else:
                        htest = 1
                HSAVE = HSAVE + seg[2]
                HLAST = HSAVE
                if stl(HLAST) > smax * scale:
                    ktest = 1
            HSAVE1 = HSAVE1 + seg[3]
            HSAVE = HSAVE1
            HLAST = HSAVE1
            if stl(HLAST) > smax * scale:
                ltest = 1
    return visited
