"""./vf <Cxx> <quick|thorough>  |  ./vf <Cxx> --replay <file>  |  ./vf setup

Exit 0: every deciding monitor reached its floor and recorded no unexplained event.
Exit 1: `VIOLATION property=<id> replay=<path>` printed for each unexplained event class.
Exit 2: `INCONCLUSIVE property=<id> reason=...` (import failure, monitor never reached, watchdog).
"""
import importlib
import json
import os
import subprocess
import sys
import time
import traceback

HERE = os.path.dirname(os.path.abspath(__file__))
sys.path.insert(0, os.path.dirname(HERE))

from vfw import boot, contracts, findings, observe  # noqa: E402
from vfw.mon import Mon, jsonable  # noqa: E402

import numpy as np  # noqa: E402

PROPS = ["C%02d" % i for i in range(1, 21)]


class Inconclusive(Exception):
    pass


class Ctx(object):
    def __init__(self, prop, tier, seed, shard, nshards):
        self.prop = prop
        self.pnum = int(prop[1:])
        self.tier = tier
        self.seed = seed
        self.shard = shard
        self.nshards = nshards
        self.mon = Mon(prop, findings.open_ids(prop))
        self.backend = None
        self.t0 = time.time()
        self.budget = None
        self.counters = {}     # contract name -> [evaluations, errors]
        self.replaying = False
        self.held_lists = []
        self.depth = 0          # nesting of instrumented subject functions (0 = called by the harness)
        self.case_results = []  # (label, object, snapshot) of every holdable result returned during the running case

    def rng(self, *keys):
        return np.random.default_rng([self.seed, self.pnum, self.shard] + [int(k) for k in keys])

    def thorough(self):
        return self.tier == "thorough"

    def n(self, quick, thorough):
        """cases for this shard"""
        return quick if self.tier == "quick" else thorough

    def mine(self, i):
        """exhaustive enumerations are split over the shards by index"""
        return i % self.nshards == self.shard

    def hold(self, module, name, label=None):
        """record the results of module.name (no post-condition): they must be unchanged at the end of the case and are
        then scribbled over, so that an output aliasing a cache or a module-level table corrupts the next call visibly"""
        label = label or "%s.%s" % (getattr(module, "__name__", str(module)).split(".")[-1], name)

        def before(args, kwargs):
            self.depth += 1

        def after(args, kwargs, result, exc):
            self.depth -= 1
            if exc is None and self.depth == 0 and _holdable(result) and len(self.case_results) < 400:
                self.case_results.append((label, result, _snap_result(result)))
        contracts.spy(module, name, before=before, after=after)

    def probe_alias(self, fn, *args, **kwargs):
        """call, overwrite what was returned, call again with the same arguments: the second answer must not have been
        affected by what the caller did to the first (an output that aliases a memo or a module-level table shows here);
        returns the second result, which the contracts have judged like any other"""
        first = fn(*args, **kwargs)
        snap = _snap_result(first) if _holdable(first) else None
        # the harness itself is about to overwrite this object: it leaves the stability monitors
        self.case_results[:] = [e for e in self.case_results if e[1] is not first]
        for h in self.held_lists:
            h[:] = [e for e in h if e[0] is not first]
        _scribble(first)
        second = fn(*args, **kwargs)
        if snap is not None:
            same = _same_result(second, snap)
            self.mon.check("alias:%s answers the same after the caller overwrote the previous result" % getattr(fn, "__name__", "call"),
                           same, observed=None if same else _snap_result(second), expected=None if same else snap)
        return second

    def hold_object(self, label, obj, attrs):
        """same for array attributes of an object handed out by the subject (e.g. rot/trans/syscond of an sg.sg instance)"""
        for a in attrs:
            v = getattr(obj, a, None)
            if isinstance(v, np.ndarray) and len(self.case_results) < 400:
                self.case_results.append(("%s.%s" % (label, a), v, v.copy()))

    def end_case(self):
        mon = self.mon
        for label, obj, snap in self.case_results:
            same = _same_result(obj, snap)
            mon.check("stable:%s until the end of the case" % label, same, observed=None if same else _snap_result(obj),
                      expected=None if same else snap,
                      detail=None if same else "a result changed after it had been returned (another call wrote into it)")
        for label, obj, snap in self.case_results:
            _scribble(obj)
        del self.case_results[:]
        for h in self.held_lists:
            del h[:]
        self.depth = 0

    def out_of_time(self):
        return self.budget is not None and time.time() - self.t0 > self.budget

    def ensure(self, module, name, cond, label=None, pure=True):
        """post-condition on module.name; with pure=True the array/list arguments are
        snapshotted before the call and must be unchanged after it (a caller's B, U or
        cell must keep satisfying the property after being passed on)"""
        label = label or "%s.%s" % (module.__name__.split(".")[-1], name)
        if pure:
            mon = self.mon
            stack = []

            def before(args, kwargs):
                self.depth += 1
                stack.append([(i, a, _snap(a)) for i, a in list(enumerate(args)) + list(kwargs.items())
                              if isinstance(a, (np.ndarray, list))])

            held = []      # (result object, snapshot) of the previous call: a result must not change when the function is called again
            self.held_lists.append(held)

            def after(args, kwargs, result, exc):
                self.depth -= 1
                for i, a, s in stack.pop():
                    same = _same(a, s)
                    mon.check("pure:%s" % label, same, observed=None if same else a, expected=None if same else s,
                              detail=None if same else "argument %r was modified in place by the call" % (i,))
                if held:
                    prev, snap = held.pop()
                    same = _same_result(prev, snap)
                    mon.check("stable:%s" % label, same, observed=None if same else _snap_result(prev), expected=None if same else snap,
                              detail=None if same else "a result returned earlier changed when the function was called again")
                # only results handed to the harness are held: a subject function may do what it likes with an array it
                # obtained from another subject function (rotations() transposes what permutations() gave it)
                if exc is None and self.depth == 0 and _holdable(result):
                    snap = _snap_result(result)
                    held.append((result, snap))
                    if len(self.case_results) < 400:
                        self.case_results.append((label, result, snap))
            contracts.spy(module, name, before, after)
        c = contracts.ensure(module, name, cond)
        self.counters[label] = c
        return c


def _scribble(r):
    """overwrite a returned array in place: whoever still shares memory with it will show"""
    try:
        if isinstance(r, np.ndarray):
            if r.flags.writeable and r.size:
                if r.dtype.kind == "f":
                    r[...] = -7.25e7        # finite garbage: a subject that reuses it keeps terminating and is judged by the oracles
                elif r.dtype.kind in "iu":
                    r[...] = 77
        elif isinstance(r, (list, tuple)):
            for v in r:
                if isinstance(v, np.ndarray):
                    _scribble(v)
    except Exception:
        pass


def _snap(a):
    return a.copy() if isinstance(a, np.ndarray) else jsonable(a)


def _holdable(r):
    if isinstance(r, np.ndarray):
        return r.size <= 20000
    if isinstance(r, (list, tuple)):
        return len(r) <= 64 and all(isinstance(v, (np.ndarray, list, tuple, float, int, np.floating, np.integer)) for v in r)
    return False


def _snap_result(r):
    if isinstance(r, np.ndarray):
        return r.copy()
    return [v.copy() if isinstance(v, np.ndarray) else jsonable(v) for v in r]


def _same_result(r, s):
    try:
        if isinstance(r, np.ndarray):
            return r.shape == s.shape and bool(np.array_equal(r, s, equal_nan=True))
        if len(r) != len(s):
            return False
        for v, w in zip(r, s):
            if isinstance(v, np.ndarray):
                if not (v.shape == w.shape and np.array_equal(v, w, equal_nan=True)):
                    return False
            elif jsonable(v) != w:
                return False
        return True
    except Exception:
        return True


def _same(a, s):
    try:
        if isinstance(a, np.ndarray):
            return a.shape == s.shape and bool(np.array_equal(a, s, equal_nan=True))
        return jsonable(a) == s
    except Exception:
        return True


def _cross(configs):
    """which generator stratum was run in which process-global environment (and which pairs never met)"""
    table, envs = {}, set()
    for k, v in configs.items():
        if k.startswith("cross:"):
            env, stratum = k[6:].split("|", 1)
            table.setdefault(stratum, {})[env] = v
            envs.add(env)
    never = sorted("%s never ran under %s" % (st, e) for st, row in table.items() for e in envs if e not in row and sum(row.values()) >= 40)
    return {"strata": len(table), "environments": sorted(envs), "cases": {st: dict(sorted(r.items())) for st, r in sorted(table.items())},
            "pairs_never_met (strata with >= 40 cases)": never}


def _enter_env(ctx, mod, n, force=None):
    """process-global state a caller may legitimately have set; every property must hold in each of them:
    checks switched off, numpy floating-point errors raised instead of warned, the library's logger at DEBUG"""
    toggles = getattr(mod, "ENV_TOGGLES", ("checks_off", "fp_raise", "log_debug"))
    if force is not None:
        name = force if force in ("checks_off", "fp_raise", "log_debug") else None
    else:
        # a multiplicative hash of the case number, not the number itself: workloads cycle through their strata with small
        # periods, and n % 7 met only some of them when the period shared a factor with 7
        k = (((n + 1) * 0x9E3779B1 + ctx.shard * 0x85EBCA6B) & 0xFFFFFFFF) >> 16      # workers must not run in step either
        name = {1: "checks_off", 3: "fp_raise", 5: "log_debug"}.get(k % 7)
    if name is None or name not in toggles:
        ctx.mon.config("environment:default")
        return None
    ctx.mon.config("environment:" + name)
    if name == "checks_off":
        prev = ctx.xfab.CHECKS.activated
        ctx.xfab.CHECKS.activated = False
        return (name, prev)
    if name == "fp_raise":
        prev = np.geterr()
        np.seterr(invalid="raise", divide="raise", over="raise")
        return (name, prev)
    import logging
    lg = logging.getLogger("xfab")
    prev = (lg.level, lg.propagate, list(lg.handlers))
    lg.setLevel(logging.DEBUG)
    lg.propagate = False
    if not any(isinstance(h, logging.NullHandler) for h in lg.handlers):
        lg.addHandler(logging.NullHandler())
    muted = []
    for child in ("xfab.tools", "xfab.laue", "xfab.structure", "xfab.symmetry", "xfab.parameters", "xfab.detector", "xfab.sg"):
        cl = logging.getLogger(child)
        cl.setLevel(logging.NOTSET)
        for h in cl.handlers:                       # the records are produced, nothing is printed
            muted.append((h, h.level))
            h.setLevel(logging.CRITICAL + 10)
    return (name, prev + (muted,))


def _leave_env(ctx, env):
    if not env:
        return
    name, prev = env
    if name == "checks_off":
        ctx.xfab.CHECKS.activated = True if prev else False
    elif name == "fp_raise":
        np.seterr(**prev)
    else:
        import logging
        lg = logging.getLogger("xfab")
        lg.setLevel(prev[0])
        lg.propagate = prev[1]
        for h, lvl in prev[3]:
            h.setLevel(lvl)


def load_prop(prop):
    return importlib.import_module("vfw.props.%s" % prop.lower())


def run_shard(prop, tier, seed, shard, nshards, replay=None):
    """run the workload of one shard in this process; returns the Mon dump"""
    ctx = Ctx(prop, tier, seed, shard, nshards)
    ctx.backend = boot.ensure_deps()
    contracts.set_backend(ctx.backend)
    try:
        ctx.xfab = boot.import_subject()
        mod = load_prop(prop)
        ctx.budget = getattr(mod, "BUDGET", {"quick": 150, "thorough": 1500})[tier]
        observe.FPTrap(ctx.mon).install()
        mod.setup(ctx)
    except (ImportError, AttributeError, SyntaxError) as exc:
        raise Inconclusive("setup failed: %s: %s" % (type(exc).__name__, exc))
    mon = ctx.mon
    if replay is not None:
        ctx.replaying = True
        cases = [(replay["kind"], replay["params"])]
    else:
        cases = mod.workload(ctx)
    stopped_early = False
    ncase = 0
    for kind, params in cases:
        if replay is None and ctx.out_of_time():
            stopped_early = True
            break
        mon.begin(kind, params)
        env = _enter_env(ctx, mod, ncase, force=None if replay is None else (replay.get("env") or "default"))
        mon.case_env = env[0] if env else "default"
        if replay is None:
            stratum = next((params[k] for k in ("stratum", "strata", "variant", "kind", "class", "cls", "tilts", "dirs", "adp", "disp")
                            if isinstance(params.get(k), str)), kind)
            mon.config("cross:%s|%s" % (mon.case_env, stratum))
        ncase += 1
        try:
            mod.CASES[kind](ctx, params)
        except Exception as exc:
            mon.check("case-runs-without-unexpected-exception", False,
                      detail=traceback.format_exc(limit=6) + (" [environment: %s]" % env[0] if env else ""), observed=repr(exc))
        finally:
            _leave_env(ctx, env)
        try:
            ctx.end_case()
        except Exception as exc:
            ctx.counters.setdefault("end_case", [0, []])[1].append(repr(exc))
        mon.end()
    if hasattr(mod, "finish") and replay is None:
        mod.finish(ctx)
    out = mon.dump()
    out["coverage"] = observe.coverage()
    out["contracts"] = {k: {"evaluations": c[0], "monitor_errors": c[1][:3]} for k, c in ctx.counters.items()}
    out["backend"] = ctx.backend
    out["stopped_early"] = stopped_early
    out["wall_s"] = time.time() - ctx.t0
    contracts.uninstall_all()
    return out


def run_workers(prop, tier, seed, nshards, timeout):
    os.makedirs(boot.WORK, exist_ok=True)
    procs = []
    for i in range(nshards):
        out = os.path.join(boot.WORK, "%s-%s-%d-%d-%d.json" % (prop, tier, seed, os.getpid(), i))
        cmd = [sys.executable, "-B", os.path.abspath(__file__), prop, tier, "--worker", str(i), str(nshards), out]
        procs.append((i, out, subprocess.Popen(cmd, stdout=subprocess.PIPE, stderr=subprocess.STDOUT, text=True)))
    dumps, problems = [], []
    deadline = time.time() + timeout
    for i, out, p in procs:
        try:
            log, _ = p.communicate(timeout=max(1.0, deadline - time.time()))
        except subprocess.TimeoutExpired:
            p.kill()
            log, _ = p.communicate()
            problems.append("worker %d hit the wall-clock watchdog (%ds)" % (i, timeout))
            continue
        if p.returncode != 0 or not os.path.exists(out):
            problems.append("worker %d exited %s: %s" % (i, p.returncode, (log or "")[-800:]))
            continue
        with open(out) as fh:
            dumps.append(json.load(fh))
        os.unlink(out)
    return dumps, problems


def verdict(prop, tier, seed, dumps, problems, wall, nshards):
    mod_meta = {}
    try:
        mod = load_prop(prop)
        for k in ("RULE", "FLOORS", "ASSUMPTIONS", "EXHAUSTIVE", "TITLE", "DECIDING"):
            mod_meta[k] = getattr(mod, k, None)
    except Exception as exc:  # the property module itself must import even if xfab does not
        problems.append("property module import failed: %r" % (exc,))
    mon = Mon(prop, findings.open_ids(prop))
    cov, contracts_seen, backend, stopped = {}, {}, None, False
    for d in dumps:
        mon.merge(d)
        observe.merge_coverage(cov, d.get("coverage", {}))
        for k, c in d.get("contracts", {}).items():
            cur = contracts_seen.setdefault(k, {"evaluations": 0, "monitor_errors": []})
            cur["evaluations"] += c["evaluations"]
            cur["monitor_errors"] = (cur["monitor_errors"] + c["monitor_errors"])[:3]
        backend = d.get("backend", backend)
        stopped = stopped or d.get("stopped_early", False)

    # a bug inside a monitor is a harness failure, never evidence for or against the subject
    for k, c in contracts_seen.items():
        if c["monitor_errors"]:
            problems.append("monitor %s raised internally: %s" % (k, c["monitor_errors"][0]))
    floors = mod_meta.get("FLOORS") or {}
    waived = mon.extra.get("floors_waived", [])      # monitors on functions the tree under test does not have (see C03, C14)
    for m, floor in floors.items():
        if m in waived:
            continue
        got = mon.stats.get(m, [0])[0]
        if got < floor:
            problems.append("deciding monitor %s evaluated %d times (< floor %d)" % (m, got, floor))
    if not dumps:
        problems.append("no worker produced a result")

    lines = []
    status = 0
    replays = []
    if mon.nviol:
        status = 1
        os.makedirs(os.path.join(boot.OUT, "replays"), exist_ok=True)
        seen = set()
        for ev in mon.events:
            if ev["monitor"] in seen:
                continue
            seen.add(ev["monitor"])
            rel = os.path.join("replays", "%s-%s-seed%d-%s.json" % (
                prop, "".join(ch if ch.isalnum() else "_" for ch in ev["monitor"])[:60], seed, tier))
            with open(os.path.join(boot.OUT, rel), "w") as fh:
                json.dump({"property": prop, "tier": tier, "seed": seed, "event": ev}, fh, indent=1)
            replays.append(rel)
            lines.append("VIOLATION property=%s replay=%s" % (prop, rel))
            lines.append("  monitor=%s observed=%s expected=%s residual=%s detail=%s" % (
                ev["monitor"], _s(ev["observed"]), _s(ev["expected"]), _s(ev["residual"]), _s(ev["detail"], 600)))
    if status == 0 and problems:
        status = 2
        lines.append("INCONCLUSIVE property=%s reason=%s" % (prop, "; ".join(problems)[:1500]))
    for fid in findings.open_ids(prop):
        f = findings.describe(fid)
        n = mon.known.get(fid, {}).get("count", 0)
        if n:
            lines.append("KNOWN-FINDING: property=%s %s %s (observed %d times in this run)" % (prop, fid, f["what_fails"], n))
        else:
            lines.append("  listed finding %s was not observed in this run" % fid)

    total_oracle = sum(st[0] for st in mon.stats.values())
    coverage = {
        "evaluations": mon.ncases,
        "distinct_nontrivial": len(mon.nontrivial),
        "rule": mod_meta.get("RULE") or "",
        "samples": mon.samples[:12],
        "oracle_evaluations": total_oracle,
        "monitors": {m: {"evaluations": st[0], "violations": st[1], "known_finding_hits": st[2],
                         "max_residual_on_passing": st[3]} for m, st in sorted(mon.stats.items())},
        "tolerance_used": {k: round(v, 6) for k, v in sorted(mon.headroom.items()) if v > 1e-3},
        "contracts_on_real_functions": contracts_seen,
        "contract_backend": backend,
        "case_kinds": mon._kind_seen,
        "configurations": dict(sorted((k, v) for k, v in mon.configs.items() if not k.startswith("cross:"))),
        "environment_x_stratum": _cross(mon.configs),
        "functions_reached": dict(sorted(mon.reached.items())),
        "branches": cov,
        "fp_events": mon.fp_events,
        "known_findings_observed": {f: k["count"] for f, k in mon.known.items()},
        "violation_events": mon.events[:10],
        "problems": problems,
        "workers": nshards,
        "stopped_on_time_budget": stopped,
        "exhaustive": bool(mod_meta.get("EXHAUSTIVE")),
        "subject": boot.repo_state(),
        "verdict": {0: "held on what was observed", 1: "violated", 2: "inconclusive"}[status],
    }
    coverage.update(jsonable(mon.extra))
    ev = {"property_id": prop, "tier": tier, "seed": seed, "level": "exploration",
          "coverage": coverage, "assumptions": mod_meta.get("ASSUMPTIONS") or [],
          "wall_s": round(wall, 3), "violations": mon.nviol}
    os.makedirs(os.path.join(boot.OUT, "evidence"), exist_ok=True)
    with open(os.path.join(boot.OUT, "evidence", "%s.json" % prop), "w") as fh:
        json.dump(ev, fh, indent=1, sort_keys=False)
        fh.write("\n")

    print("[%s %s seed=%d] cases=%d oracle_evaluations=%d distinct_nontrivial=%d workers=%d wall=%.1fs backend=%s" % (
        prop, tier, seed, mon.ncases, total_oracle, len(mon.nontrivial), nshards, wall, backend))
    for m, st in sorted(mon.stats.items()):
        print("  monitor %-46s eval=%-8d viol=%-5d known=%-5d maxres=%.3g" % (m, st[0], st[1], st[2], st[3]))
    for line in lines:
        print(line)
    if status == 0:
        print("HELD property=%s on everything observed" % prop)
    return status


def _s(x, n=300):
    s = json.dumps(x) if not isinstance(x, str) else x
    return s if len(s) <= n else s[:n] + "..."


def main(argv):
    if len(argv) >= 1 and argv[0] == "setup":
        backend = boot.ensure_deps(verbose=True)
        print("contract backend:", backend)
        try:
            x = boot.import_subject()
            print("subject:", x.__file__)
        except Exception as exc:
            print("subject import failed:", exc)
            return 2
        return 0
    if len(argv) < 2 or argv[0] not in PROPS:
        print(__doc__)
        return 64
    prop = argv[0]
    seed = int(os.environ.get("VERIF_SEED", "0") or 0)

    if argv[1] == "--replay":
        with open(argv[2] if os.path.isabs(argv[2]) else os.path.join(boot.VERIF, argv[2])) as fh:
            rp = json.load(fh)
        case = rp["event"]["case"]
        if case is None:
            print("replay file has no case")
            return 64
        try:
            d = run_shard(prop, rp.get("tier", "quick"), rp.get("seed", 0), 0, 1, replay=case)
        except Inconclusive as exc:
            print("INCONCLUSIVE property=%s reason=%s" % (prop, exc))
            return 2
        print("replayed case %s" % json.dumps(case)[:2000])
        for ev in d["events"]:
            print("VIOLATION property=%s replay=%s" % (prop, argv[2]))
            print("  monitor=%s observed=%s expected=%s residual=%s detail=%s" % (
                ev["monitor"], _s(ev["observed"]), _s(ev["expected"]), _s(ev["residual"]), _s(ev["detail"], 600)))
        for f, k in d["known"].items():
            print("KNOWN-FINDING: property=%s %s (replayed case)" % (prop, f))
        if not d["events"]:
            print("replayed case raised no unexplained monitor event on the current tree")
        return 1 if d["events"] else 0

    tier = argv[1]
    if tier not in ("quick", "thorough"):
        print(__doc__)
        return 64

    if len(argv) >= 6 and argv[2] == "--worker":
        shard, nshards, out = int(argv[3]), int(argv[4]), argv[5]
        try:
            d = run_shard(prop, tier, seed, shard, nshards)
        except Inconclusive as exc:
            print("INCONCLUSIVE", exc)
            return 2
        with open(out, "w") as fh:
            json.dump(d, fh)
        return 0

    t0 = time.time()
    try:
        mod = load_prop(prop)
        workers = getattr(mod, "WORKERS", {"quick": 1, "thorough": 16})[tier]
        limit = getattr(mod, "WATCHDOG", {"quick": 600, "thorough": 3600})[tier]
    except Exception as exc:
        print("INCONCLUSIVE property=%s reason=property module failed to import: %r" % (prop, exc))
        return 2
    workers = max(1, min(workers, os.cpu_count() or 1))
    problems = []
    if workers == 1:
        try:
            dumps = [run_shard(prop, tier, seed, 0, 1)]
        except Inconclusive as exc:
            dumps, problems = [], [str(exc)]
    else:
        boot.ensure_deps()
        dumps, problems = run_workers(prop, tier, seed, workers, limit)
    return verdict(prop, tier, seed, dumps, problems, time.time() - t0, workers)


if __name__ == "__main__":
    try:
        rc = main(sys.argv[1:])
    except Exception:     # a crash of the harness itself is never a verdict about the subject
        traceback.print_exc()
        print("INCONCLUSIVE property=%s reason=harness crashed (traceback above)" % (sys.argv[1] if len(sys.argv) > 1 else "?"))
        rc = 2
    sys.exit(rc)
