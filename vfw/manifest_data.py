"""Text of MANIFEST.json, per property (tools/gen_manifest.py writes the file)."""

HOOKS = {
    "guard": "XFAB_VERIF",
    "enable": "no source hooks are needed: ./vf sets XFAB_VERIF=1 for its own processes only and installs every monitor from the harness by rebinding module attributes of the freshly imported working tree (PYTHONPATH=/repo, python -B); pure Python, so 'rebuild' is a fresh interpreter importing /repo's current sources",
    "baseline_off_cmd": "cd /repo && /venv/bin/python -m pytest -ra -q -p no:cacheprovider --timeout=900 --continue-on-collection-errors test",
    "source_commits": [],
    "add_only": True,
}

NOTES = ("All checks: ./vf <id> quick|thorough; VERIF_SEED selects the random stream; exit 0 held / 1 VIOLATION / 2 INCONCLUSIVE "
         "(deciding monitor never reached, import failure, watchdog). Known findings: known_findings.json (mechanism classifiers in the property modules). "
         "Compiler sanitizers, race detectors and fault injection do not apply: the subject has no native code, threads or I/O protocol (DESIGN.md section 1).")

_TB = "CPython 3.12, numpy linalg/trig (shared with the oracles), icontract dispatch; reach = the executions produced (sampled inputs per stratum), not the universally quantified statement"

CHECKS = {
 "C01": {
  "technique": "runtime contracts (icontract post-conditions) on the 8 real functions of both modules vs an independent metric-tensor oracle, under generated cell/hkl workloads incl. internal callers",
  "text": "Every call of form_a_mat/form_b_mat/cell_volume/cell_invert/a_to_cell/b_to_cell/sintl/form_a_mat_inv made by the workloads (direct calls and the calls issued internally by u_to_ubi, ubi_to_cell, epsilon_to_b_old, genhkl_all, StructureFactor) is checked against G built from the six parameters (A'A=G, B'B=k^2 G^-1, Cholesky uniqueness, sqrt det G, |h|_G*/2) to 1e-9 relative; round trips are driven by the workload. Held on K sampled cells over 7 strata, not a proof over the continuum.",
  "design_ref": "DESIGN.md section 3 C01",
  "note": _TB,
 },
 "C02": {
  "technique": "runtime contracts on u_to_ubi/ubi_to_u/ubi_to_cell/ubi_to_u_b/ub_to_u_b/ubi_to_rod (both modules) + purity monitor + generated (U, cell) and UB=Q.T workloads with the generating (Q,T) as oracle",
  "text": "Post-conditions on every call: UBI.U.B_oracle = k.I, UBI.UBI' = G, ubi.U upper triangular with positive diagonal (uniqueness of the split), U orthonormal det +1 to 1e-9, U.B = UB; the workload hands one array from function to function (so in-place edits of the caller's UBI are seen) and compares with the generated U, cell, Q, T; cond(UB) up to 5e5 incl. a stratum built to span 4-5.6 decades. Held on K sampled inputs.",
  "design_ref": "DESIGN.md section 3 C02",
  "note": _TB,
 },
 "C03": {
  "technique": "runtime contracts on the 6 rotation constructors and on u_to_euler/u_to_rod (both modules) vs harness-written Rx,Ry,Rz / Cayley-form Rodrigues oracle, workloads stratified around gimbal lock and 180 deg",
  "text": "Every constructed matrix must equal the documented composition to 1e-12 and be orthonormal/det +1; every u_to_euler/u_to_rod return must be in range/finite and rebuild its input within 1e-6; an exception on a proper rotation is a violation. 13 strata for the inverses (exact lock, PHI or pi-PHI log-uniform 1e-12..1e-3 from Euler triples and from axis-angle products, noisy z-rotations, axis-aligned, near 180 deg down to 1.1e-5 deg). Reported the u_to_euler defect of the pinned tree (repaired by a fix: commit). Held on K sampled inputs.",
  "design_ref": "DESIGN.md section 3 C03, section 4 row 1",
  "note": _TB,
 },
 "C04": {
  "technique": "class invariant (icontract.invariant) on every live xfab.sg.sg instance with exact integer group arithmetic + exhaustive request sweep (237 tables, all names x spelling variants, shuffled and reversed order)",
  "text": "Exhaustive over the finite space the property quantifies over: each of the 237 tables is checked exactly (identity, closure, inverses, no duplicates mod 1, nsymop, nuniq prefix, centring count, rotations+-inversion equal to the Laue group of the stated class in the stated setting, R'GR=G on a basis of conforming metrics), each request by number/name is checked against what the request implies (setting, centring, crystal system and Laue class by ITA number) and against the by-number table, in both request orders within one process.",
  "design_ref": "DESIGN.md section 3 C04",
  "note": "integer arithmetic is exact; translations snapped to k/24 within 2e-6; ITA number ranges for crystal system / Laue class are harness knowledge; standard settings only",
 },
}
