"""Text of MANIFEST.json, per property (tools/gen_manifest.py writes the file)."""

HOOKS = {
    "guard": "XFAB_VERIF",
    "enable": "no source hooks are needed: ./vf sets XFAB_VERIF=1 for its own processes only and installs every monitor from the harness by rebinding module attributes of the freshly imported working tree (PYTHONPATH=/repo, python -B); pure Python, so 'rebuild' is a fresh interpreter importing /repo's current sources",
    "baseline_off_cmd": "cd /repo && /venv/bin/python -m pytest -ra -q -p no:cacheprovider --timeout=900 --continue-on-collection-errors test",
    "source_commits": [],
    "add_only": True,
}

NOTES = ("All checks: ./vf <id> quick|thorough; VERIF_SEED selects the random stream; exit 0 held / 1 VIOLATION / 2 INCONCLUSIVE "
         "(deciding monitor never reached, import failure, watchdog). Known findings: known_findings.json (mechanism classifiers in the property modules). "
         "Compiler sanitizers, race detectors and fault injection do not apply: the subject has no native code, threads or I/O protocol (DESIGN.md section 1).")

_TB = "CPython 3.12, numpy linalg/trig (shared with the oracles), icontract dispatch; reach = the executions produced (sampled inputs per stratum), not the universally quantified statement"

CHECKS = {
 "C01": {
  "technique": "runtime contracts (icontract post-conditions) on the 8 real functions of both modules vs an independent metric-tensor oracle, under generated cell/hkl workloads incl. internal callers",
  "text": "Every call of form_a_mat/form_b_mat/cell_volume/cell_invert/a_to_cell/b_to_cell/sintl/form_a_mat_inv made by the workloads (direct calls and the calls issued internally by u_to_ubi, ubi_to_cell, epsilon_to_b_old, genhkl_all, StructureFactor) is checked against G built from the six parameters (A'A=G, B'B=k^2 G^-1, Cholesky uniqueness, sqrt det G, |h|_G*/2) to 1e-9 relative; round trips are driven by the workload. Held on K sampled cells over 7 strata, not a proof over the continuum.",
  "design_ref": "DESIGN.md section 3 C01",
  "note": _TB,
 },
 "C02": {
  "technique": "runtime contracts on u_to_ubi/ubi_to_u/ubi_to_cell/ubi_to_u_b/ub_to_u_b/ubi_to_rod (both modules) + purity monitor + generated (U, cell) and UB=Q.T workloads with the generating (Q,T) as oracle",
  "text": "Post-conditions on every call: UBI.U.B_oracle = k.I, UBI.UBI' = G, ubi.U upper triangular with positive diagonal (uniqueness of the split), U orthonormal det +1 to 1e-9, U.B = UB; the workload hands one array from function to function (so in-place edits of the caller's UBI are seen) and compares with the generated U, cell, Q, T; cond(UB) up to 5e5 incl. a stratum built to span 4-5.6 decades. Held on K sampled inputs.",
  "design_ref": "DESIGN.md section 3 C02",
  "note": _TB,
 },
 "C03": {
  "technique": "runtime contracts on the 6 rotation constructors and on u_to_euler/u_to_rod (both modules) vs harness-written Rx,Ry,Rz / Cayley-form Rodrigues oracle, workloads stratified around gimbal lock and 180 deg",
  "text": "Every constructed matrix must equal the documented composition to 1e-12 and be orthonormal/det +1; every u_to_euler/u_to_rod return must be in range/finite and rebuild its input within 1e-6; an exception on a proper rotation is a violation. 13 strata for the inverses (exact lock, PHI or pi-PHI log-uniform 1e-12..1e-3 from Euler triples and from axis-angle products, noisy z-rotations, axis-aligned, near 180 deg down to 1.1e-5 deg). Reported the u_to_euler defect of the pinned tree (repaired by a fix: commit). Held on K sampled inputs.",
  "design_ref": "DESIGN.md section 3 C03, section 4 row 1",
  "note": _TB,
 },
 "C04": {
  "technique": "class invariant (icontract.invariant) on every live xfab.sg.sg instance with exact integer group arithmetic + exhaustive request sweep (237 tables, all names x spelling variants, shuffled and reversed order)",
  "text": "Exhaustive over the finite space the property quantifies over: each of the 237 tables is checked exactly (identity, closure, inverses, no duplicates mod 1, nsymop, nuniq prefix, centring count, rotations+-inversion equal to the Laue group of the stated class in the stated setting, R'GR=G on a basis of conforming metrics), each request by number/name is checked against what the request implies (setting, centring, crystal system and Laue class by ITA number) and against the by-number table, in both request orders within one process.",
  "design_ref": "DESIGN.md section 3 C04",
  "note": "integer arithmetic is exact; translations snapped to k/24 within 2e-6; ITA number ranges for crystal system / Laue class are harness knowledge; standard settings only",
 },
 "C09": {
  "technique": "runtime contracts on the four omega solvers and tth/tth2 (both modules): every returned (omega, eta) substituted into the documented rotation; solution count from the quadratic's discriminant built in the harness",
  "text": "Each returned omega must lie in (-pi,pi] and rotate g (scaled to sin theta) so that x=-sin^2(theta) (1e-9 sin theta) and (y,z) match eta (1e-8 sin theta) under Rz / Rx(chi)Ry(wedge)Rz / P Rz P' / Ry(-wedge)Rz; the number of solutions must be 2 or 0 according to the sign of the discriminant (|d| > 1e-6 (a^2+b^2)); solvers must agree where tilts coincide; tth = 2 asin(lambda sintl) = tth2(U.B.hkl). Strata: tilts {both 0, one, both}, directions {sphere, near axis, next to tangency, equatorial}. Reported the find_omega_general defect of the pinned tree (repaired by a fix: commit). Held on K sampled inputs.",
  "design_ref": "DESIGN.md section 3 C09, section 4 row 7",
  "note": _TB,
 },
 "C10": {
  "technique": "runtime contracts on det_coor/det_coor2/det_v/detector_to_lab vs a ray/plane intersection written in the harness + workload relations (det_coor = det_coor2, back-mapped point on the ray and in the detector plane)",
  "text": "Every call is re-derived geometrically: pixel = intersection of the ray t+s.v with the tilted detector plane, lab point = (L,0,0)+R(0,py(y-y0),pz(z-z0)); the workload additionally requires det_coor=det_coor2 (1e-9) and that detector_to_lab of that pixel lies on the ray with s>0. Strata over single-axis tilts, zero/axial/generic grain offsets, independent pixel sizes. Held on K sampled geometries.",
  "design_ref": "DESIGN.md section 3 C10",
  "note": _TB,
 },
 "C11": {
  "technique": "exhaustive enumeration at run time (81 matrices x 6 functions; 8 orientations x 64 small shapes x every uniquely labelled pixel) + random large non-square shapes and eta/radius round trips; post-conditions on the real functions (result is a rearrangement; pixel map stays inside the detector)",
  "text": "The finite part of the quantifier is enumerated completely on every run: acceptance/rejection of all 81 matrices, exact flip/inverse identity for both image functions, xy_to_detyz(x,y) equal to the index where trans_orientation stores img[x,y], and both compositions of the pixel maps equal to the identity for every pixel of every shape 1..8 x 1..8; large shapes (to 4096x3000) and real coordinates are sampled. Reported the detyz_to_xy defect of the pinned tree (repaired by a fix: commit).",
  "design_ref": "DESIGN.md section 3 C11, section 4 row 8",
  "note": "exact integer comparison for images and indices; trusted: numpy flips/transpose; sampled part for large shapes",
 },
 "C12": {
  "technique": "group invariants on the arrays returned by permutations()/rotations()/ROTATIONS (exhaustive over 7 systems and all operator pairs) + post-condition on every Umis call + metamorphic invariances of the angle multiset",
  "text": "Orders 1,2,4,8,6,12,24, integrality/det +1, orthonormality, closure over all ordered pairs, rot[i].B.perm[i]=B on 20 conforming cells per system with B from the harness and from tools.form_b_mat, ROTATIONS equal to rotations(); every Umis result is checked (index column, finite angles in [0,180], cosine of the angle of U1'U2 rot[k]' to 1e-9) and the sorted cosine multiset must be invariant under symmetry-equivalent replacement of either argument, a common rotation and a swap, incl. half-turn products where the clip matters.",
  "design_ref": "DESIGN.md section 3 C12",
  "note": _TB,
 },
 "C16": {
  "technique": "invariant on the live atomlib.formfactor table (exhaustive, through the real FormFactor on a 20001-point grid) + post-condition on every FormFactor call",
  "text": "All entries: nine finite numbers, |f(0)-Z| <= 0.1 with Z from a periodic-table list in the harness, f>0 and non-increasing on [0,2] (analytically when all a_i b_i >= 0, else grid + derivative sign), scalar and array evaluation agree; every FormFactor call is recomputed from the live table to 1e-12. Reported that 83 of 94 entries violated f(0)=Z on the pinned tree (repaired by a data-only fix: commit).",
  "design_ref": "DESIGN.md section 3 C16, section 4 row 11",
  "note": "atomic numbers and the 0.1 e tolerance are harness knowledge; the analytic fit itself (ITC C 6.1.1.4) is trusted to be a fit of f",
 },
 "C19": {
  "technique": "history + executable model: random API call sequences against a 40-line dictionary model, full observable state compared after every step; save/load through real files",
  "text": "After every step of sequences of addpar/set/set_parameters/set_varylist/set_variable_values/update_other/update_yourself/save/load (same object, fresh object, hand-written files with numeric-looking strings, hyphenated names, malformed lines) get, get_parameters, varylist, get_variable_values and get_variable_list must equal the model; floats compared by bit pattern, ints/strings by type and value; save->load into a fresh object must reproduce the mapping. Held on K sampled histories of length <= 30.",
  "design_ref": "DESIGN.md section 3 C19",
  "note": "the model encodes the documented coercion; ints beyond 10^300 and strings with blanks are outside the generator; name collisions a-b / a_b are not judged",
 },
 "C20": {
  "technique": "history monitor over switch assignments interleaved with guarded calls; wrappers on the three checks._check_* functions attribute a rejection to a check (how the checking is organised is observed, not judged); last-valid-value model of the switch; python -O sub-run",
  "text": "For random histories the switch must follow the model (invalid values raise ValueError and change nothing); while on, every constructed-invalid input (orientation matrix with defect >= 1e-3 or reflected - for Umis also both operands invalid with a proper product -, Euler angle outside by >= 1e-3, left-handed UBI) must raise ValueError and every valid input (exact, float32-rounded, perturbed < 1e-7, end-point angles, list/tuple/float32 containers) must be accepted; while off no input check may reject, an invalid input must not raise ValueError, and valid inputs must return the same results as with the checks on. A left-handed U.B handed to ub_to_u_b is observed, not judged (the statement names no invalid class for that function). Reported the float32 rejection of the pinned tree (repaired by a fix: commit).",
  "design_ref": "DESIGN.md section 3 C20, section 4 row 14",
  "note": "inputs between 1e-7 and 1e-3 are deliberately not generated (don't-care band of the property)",
 },
 "C05": {
  "technique": "history monitor on genhkl_all: recorded trace of the sintl/sysabs calls (the Le Page-Gabe row-walk) + brute-force lattice enumeration with the extinction rule taken from the group's own (R,t) operations (exact integers), all 237 settings per run",
  "text": "For every setting, on conforming cells (incl. orthogonal-metric triclinic/monoclinic and special rhombohedral angles) and shells placed mid-gap between lattice radii, the multiset of rows returned by genhkl_all must equal the oracle set (none missing, extra, repeated), be identical by name and by number and under different numpy.random seeds, and for the 7 R groups agree between settings under the obverse transformation. A discrepancy is explained from the trace: only 'no member of the family was ever visited' in Laue -1, 2/m and rhombohedral -3/-3m that the frozen as-found visit sequence reproduces is the open finding C05-rowwalk-early-exit; anything else is a VIOLATION. Reported the syscond table defects and the cubic hkk defect of the pinned tree (repaired by two fix: commits).",
  "design_ref": "DESIGN.md section 3 C05/C06, section 4 rows 2-5",
  "note": "oracle trusts the (R,t) tables, which are under the C04 invariant in the same run; shell bounds >= 1e-6 from any lattice radius; reach = sampled cells/shells per setting (237 settings every run)",
 },
 "C06": {
  "technique": "same engine as C05 viewed per Laue family: orbits of the brute-force allowed set under the live table's rotations and inversion; column/ordering/boundary checks on the function's own numbers",
  "text": "genhkl_unique must hold exactly one row of every allowed Laue family and nothing else; genhkl_all must be exactly the union of the families of those rows; both outputs sorted by column 4, column 4 equal to |h|_G*/2 (1e-9), integer indices, rows inside (sintlmin, sintlmax]; output_stl=False must give the same rows; sintlmax = sintl of a returned row keeps it and sintlmin = that value drops it (judged when the subject's own sintl gives one number for all lattice points of that length; otherwise the bound is within 1e-9 of another lattice value, outside the quantifier); called by number + cell_choice, by name, by plain name + cell_choice and positionally. Missing families are excused only by the open finding C06-rowwalk-early-exit under the same three conditions as C05.",
  "design_ref": "DESIGN.md section 3 C05/C06, section 4 row 5",
  "note": "as C05",
 },
 "C07": {
  "technique": "metamorphic post-condition on StructureFactor: the same call replayed with hR for the group's operations read from the live (C04-guarded) table, with -h, and on exactly-extinct h",
  "text": "For every dictionary name (all 230 groups, R..h/R..r), general-position atoms with Uiso / positive-definite Uani / no ADP and random occupancies: |F(hR) - F(h) exp(-2 pi i h.t)| <= tol, |F(-h) - conj F(h)| <= tol, F = 0 on reflections the operator rule extinguishes; tol scaled by the total scattering power and the 6-digit thirds of the tables. Reported the R.beta.R defect of the pinned tree (repaired by a fix: commit). Held on K sampled (group, atoms, h).",
  "design_ref": "DESIGN.md section 3 C07, section 4 row 6",
  "note": _TB,
 },
 "C08": {
  "technique": "post-condition on StructureFactor vs an explicit P1 sum written in the harness (own reciprocal metric, own Gaussian sum over the live table, own beta tensor, exact orbit bookkeeping with Fractions) + derived metamorphic checks",
  "text": "F must equal sum over the distinct images of each atom of occ (f+f'+if'') T exp(2 pi i h.r) for general and special positions (exact multiplicity as symmulti, site-symmetrised tensors), Uiso/Uani/none, dispersion absent/full/partly None, hkl incl. 000, oblique cells; and be unchanged by lattice shifts, linear in occupancy, identical for Uiso and the equivalent tensor, and equal to the occupancy-weighted form-factor sum at 000 with zero displacement.",
  "design_ref": "DESIGN.md section 3 C08",
  "note": _TB,
 },
 "C13": {
  "technique": "runtime contracts on epsilon_to_b / b_to_epsilon / ubi_to_u_and_eps (both modules) vs the harness' own T = B0.inv(B) algebra + round trips of both pairs; mechanism classifier for the open 2 pi finding",
  "text": "b_to_epsilon must equal sym(B0 inv(B)) - I with B0 from the harness' metric, epsilon_to_b must equal inv(T(eps)) B0, both pairs (new and _old) must be mutual inverses in both directions, zero strain must give B0, and ubi_to_u_and_eps on the module's own UBI of (U, strained B) must return (U, eps) incl. exact two-fold rotations. xfab.tools returns 2pi(eps+I)-I: open finding C13-tools-ubi-eps-2pi (pinned by an existing test), recognised only by that formula with a correct U in tools.",
  "design_ref": "DESIGN.md section 3 C13, section 4 row 9",
  "note": _TB,
 },
 "C14": {
  "technique": "differential monitor: every function defined in both modules (enumerated at run time, 41) is issued the same generated input in tools and laue; results compared after the documented 2 pi factor; genhkl* under a common numpy seed, as lists of hkl rows in canonical order with sin(theta)/lambda equal to rounding (1e-12)",
  "text": "41 functions (those still present in both modules) x generated inputs of C01-C03, C05, C06, C09, C13, incl. containers updated in place and fine lattice-parameter scans (steps of 4e-7 .. 6e-6): tools' result must equal factor x laue's (factor 2 pi for B-valued results, 1 otherwise; B-like arguments and g-vectors scaled on the way in), exceptions must coincide; a function with fewer than 20 pairs makes the run inconclusive. The strain part of ubi_to_u_and_eps differs: open finding C14-ubi-eps-2pi (same defect as C13).",
  "design_ref": "DESIGN.md section 3 C14, section 4 row 9",
  "note": _TB,
 },
 "C15": {
  "technique": "post-condition on every multiplicity call vs the exact rational orbit count (Fractions over the operations of the live, C04-guarded table); complete 12^3 grid x 237 settings in the thorough tier",
  "text": "multiplicity(position, group) must equal |{R p + t mod 1}| for every setting by number+setting and by name, on the rational grid of the property (thorough: complete, 410k calls), the x,x,z / x,2x,z / x,-x,z / 0,0,z / 1/3,2/3,z families with generic x, positions given as floats, shifted by lattice vectors, as list/tuple/array. Reported the transposed-rotation / one-sided-modulo defect of the pinned tree (91 settings; repaired by a fix: commit).",
  "design_ref": "DESIGN.md section 3 C15, section 4 row 10",
  "note": "exact arithmetic; float coordinates identified with the rational they were generated from (|diff| <= 1e-15); tables trusted via the C04 invariant",
 },
 "C17": {
  "technique": "post-conditions on build_atomlist.CIFread / PDBread over generated files; the oracle is the generator's own record of what it wrote",
  "text": "Generated CIFs (any of the 237 tabulated symbols with blanks, esds, 1-12 atoms, Uiso/Uani/Biso/Bani/absent per atom, permuted aniso loop, occupancy and multiplicity columns present/absent in both spellings, atom-type loop full/without dispersion/absent, global block before/after) and PDBs (75 symbols in PDB spacing incl. all chiral groups, fixed columns, SCALE with translation, HETATM, ANISOU noise): every field of the resulting atom list must equal the record; computed multiplicities must equal the orbit count; PDB symbols must be blank-free, be the file's tokens with or without place-holder 1s and resolve to the stated group. Reported the PDB '1'-dropping defect of the pinned tree (repaired by a fix: commit).",
  "design_ref": "DESIGN.md section 3 C17, section 4 row 12",
  "note": "PyCifRW is trusted to parse what the generator writes; approximately special positions (images between 1e-7 and 1e-3 apart) are not judged for multiplicity",
 },
 "C18": {
  "technique": "post-condition on reduce_cell (output only); oracles: exhaustive successive minima and integer unimodular equivalence search; mechanism classifier for the open transposition finding working from the returned cell alone; a spy on the module's a_to_cell records the chosen lattice vectors as an auxiliary observation",
  "text": "Volume must be preserved; the returned metric must be N'GN for an integer unimodular N with edges equal to the successive minima (exhaustive box enumeration). For non-axis-aligned reduced bases the pinned tree returns R'R instead of RR' (R = row-stacked chosen vectors): open finding C18-transposed-basis (pinned by an existing test), recognised only when the returned metric equals sum v_i v_i' for lattice vectors v_i that realise the successive minima and form a basis (so a wrong choice of vectors is a VIOLATION); on orthogonal inputs, and on a tree where the finding is repaired, the whole property is required. If the implementation calls a_to_cell, its argument (vectors as rows or as columns) is checked as well; default range left out / passed by position / by keyword.",
  "design_ref": "DESIGN.md section 3 C18, section 4 row 13",
  "note": "cases whose successive minima are not reachable within |u|,|v|,|w| <= 2 are skipped (the property's range condition)",
 },
}
