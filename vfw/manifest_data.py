"""Text of MANIFEST.json, per property (tools/gen_manifest.py writes the file)."""

HOOKS = {
    "guard": "XFAB_VERIF",
    "enable": "no source hooks are needed: ./vf sets XFAB_VERIF=1 for its own processes only and installs every monitor from the harness by rebinding module attributes of the freshly imported working tree (PYTHONPATH=/repo, python -B); pure Python, so 'rebuild' is a fresh interpreter importing /repo's current sources",
    "baseline_off_cmd": "cd /repo && /venv/bin/python -m pytest -ra -q -p no:cacheprovider --timeout=900 --continue-on-collection-errors test",
    "source_commits": [],
    "add_only": True,
}

NOTES = ("All checks: ./vf <id> quick|thorough; VERIF_SEED selects the random stream; exit 0 held / 1 VIOLATION / 2 INCONCLUSIVE "
         "(deciding monitor never reached, import failure, watchdog). Known findings: known_findings.json (mechanism classifiers in the property modules). "
         "Compiler sanitizers, race detectors and fault injection do not apply: the subject has no native code, threads or I/O protocol (DESIGN.md section 1).")

_TB = "CPython 3.12, numpy linalg/trig (shared with the oracles), icontract dispatch; reach = the executions produced (sampled inputs per stratum), not the universally quantified statement"

CHECKS = {
 "C01": {
  "technique": "runtime contracts (icontract post-conditions) on the 8 real functions of both modules vs an independent metric-tensor oracle, under generated cell/hkl workloads incl. internal callers",
  "text": "Every call of form_a_mat/form_b_mat/cell_volume/cell_invert/a_to_cell/b_to_cell/sintl/form_a_mat_inv made by the workloads (direct calls and the calls issued internally by u_to_ubi, ubi_to_cell, epsilon_to_b_old, genhkl_all, StructureFactor) is checked against G built from the six parameters (A'A=G, B'B=k^2 G^-1, Cholesky uniqueness, sqrt det G, |h|_G*/2) to 1e-9 relative; round trips are driven by the workload. Held on K sampled cells over 7 strata, not a proof over the continuum.",
  "design_ref": "DESIGN.md section 3 C01",
  "note": _TB,
 },
}
