"""Monitor state: counters, violation events, known-finding events, coverage bookkeeping.

A monitor never raises through the code under test.  It records what it saw;
the verdict is taken from the record after the workload has finished, so one
defect does not mask the rest.
"""
import hashlib
import json
import math

import numpy as np

MAX_EVENTS = 60          # violation events kept with full detail (all are counted)
MAX_PER_MONITOR = 8
MAX_SAMPLES_PER_KIND = 2


def jsonable(x, depth=0):
    """Exact, JSON-serialisable image of a value (floats survive via repr)."""
    if depth > 6:
        return repr(x)
    if x is None or isinstance(x, (bool, str)):
        return x
    if isinstance(x, (int, np.integer)):
        return int(x)
    if isinstance(x, (float, np.floating)):
        x = float(x)
        if math.isnan(x):
            return "nan"
        if math.isinf(x):
            return "inf" if x > 0 else "-inf"
        return x
    if isinstance(x, complex):
        return {"re": jsonable(x.real), "im": jsonable(x.imag)}
    if isinstance(x, np.ndarray):
        return jsonable(x.tolist(), depth + 1)
    if isinstance(x, (list, tuple)):
        return [jsonable(v, depth + 1) for v in x]
    if isinstance(x, dict):
        return {str(k): jsonable(v, depth + 1) for k, v in x.items()}
    if isinstance(x, BaseException):
        return "%s: %s" % (type(x).__name__, x)
    return repr(x)


def short(x, n=400):
    s = json.dumps(jsonable(x))
    return s if len(s) <= n else s[:n] + "...(%d chars)" % len(s)


def key_of(*parts):
    """Hash of a case key; floats are rounded to 1e-9 relative so that
    'distinct' means distinct as an input, not distinct in the last bit."""
    def norm(p):
        if isinstance(p, (float, np.floating)):
            return "%.9e" % float(p)
        if isinstance(p, (list, tuple, np.ndarray)):
            return "[" + ",".join(norm(q) for q in (p.tolist() if isinstance(p, np.ndarray) else p)) + "]"
        return str(p)
    h = hashlib.blake2b(("|".join(norm(p) for p in parts)).encode(), digest_size=6)
    return int.from_bytes(h.digest(), "big")


class Mon(object):
    def __init__(self, prop, open_findings=()):
        self.prop = prop
        self.open_findings = set(open_findings)
        self.stats = {}          # monitor -> [evaluations, violations, known, max_residual]
        self.events = []         # violation events (bounded)
        self.nviol = 0
        self.known = {}          # finding id -> {"count": n, "first": event}
        self.nontrivial = set()  # hashed keys of distinct non-trivial cases
        self.configs = {}        # configuration class -> count
        self.samples = []        # written-out cases
        self._kind_seen = {}
        self.case = None         # (kind, params) of the case being executed
        self.case_obs = None
        self.ncases = 0
        self.fp_events = {}
        self.reached = {}        # qualified function -> calls
        self.extra = {}          # free-form, merged by update/sum
        self.headroom = {}       # monitor -> largest (error / tolerance) among passing comparisons

    # ---- case bookkeeping -------------------------------------------------
    def begin(self, kind, params):
        self.case = (kind, params)
        self.ncases += 1
        n = self._kind_seen.get(kind, 0)
        self._kind_seen[kind] = n + 1
        self.case_obs = [] if n < MAX_SAMPLES_PER_KIND else None

    def end(self):
        if self.case_obs is not None and self.case is not None:
            self.samples.append({"kind": self.case[0], "params": jsonable(self.case[1]),
                                 "monitor_observations": self.case_obs[:12]})
        self.case = None
        self.case_obs = None

    def note(self, text):
        """attach a free observation to the sample of the current case"""
        if self.case_obs is not None and len(self.case_obs) < 12:
            self.case_obs.append(text)

    # ---- counting ---------------------------------------------------------
    def config(self, name, n=1):
        self.configs[name] = self.configs.get(name, 0) + n

    def nontriv(self, *parts):
        self.nontrivial.add(key_of(*parts))

    def reach(self, fn, n=1):
        self.reached[fn] = self.reached.get(fn, 0) + n

    # ---- the oracle entry point ---------------------------------------------
    def check(self, monitor, ok, residual=None, observed=None, expected=None,
              finding=None, detail=None, tol=None):
        """Record one oracle evaluation by `monitor`.

        ok       -- verdict of the oracle for this evaluation
        residual -- size of the discrepancy (for max_residual in the evidence)
        finding  -- id of a known finding whose *mechanism classifier* recognised
                    this failure; only honoured if that finding is listed as open
        """
        st = self.stats.get(monitor)
        if st is None:
            st = self.stats[monitor] = [0, 0, 0, 0.0]
        st[0] += 1
        if tol is not None and ok and residual is not None and tol > 0:
            r = float(residual) / float(tol)
            if r > self.headroom.get(monitor, 0.0):
                self.headroom[monitor] = r
        if residual is not None:
            r = float(residual)
            if r != r:
                r = float("inf")
            if r > st[3] and ok:
                st[3] = r
        if ok:
            if self.case_obs is not None and len(self.case_obs) < 12:
                self.case_obs.append("%s ok%s" % (monitor, "" if residual is None else " residual=%.3g" % residual))
            return True
        ev = {"monitor": monitor,
              "case": None if self.case is None else {"kind": self.case[0], "params": jsonable(self.case[1]),
                                                          "env": getattr(self, "case_env", None)},
              "observed": jsonable(observed), "expected": jsonable(expected),
              "residual": jsonable(residual), "detail": jsonable(detail)}
        if finding is not None and finding in self.open_findings:
            st[2] += 1
            k = self.known.setdefault(finding, {"count": 0, "first": ev})
            k["count"] += 1
            if self.case_obs is not None and len(self.case_obs) < 12:
                self.case_obs.append("%s KNOWN %s" % (monitor, finding))
            return False
        if finding is not None:
            ev["unlisted_finding"] = finding
        st[1] += 1
        self.nviol += 1
        if len(self.events) < MAX_EVENTS and sum(1 for e in self.events if e["monitor"] == monitor) < MAX_PER_MONITOR:
            self.events.append(ev)
        if self.case_obs is not None and len(self.case_obs) < 12:
            self.case_obs.append("%s VIOLATED" % monitor)
        return False

    def close(self, monitor, a, b, rtol=1e-9, atol=0.0, **kw):
        """check that arrays a and b agree: |a-b| <= atol + rtol*scale(b)"""
        try:
            a_ = np.asarray(a, dtype=float)
            b_ = np.asarray(b, dtype=float)
            if a_.shape != b_.shape:
                return self.check(monitor, False, residual=float("inf"), observed=a, expected=b,
                                  detail="shape %s vs %s" % (a_.shape, b_.shape), **kw)
            scale = float(np.max(np.abs(b_))) if b_.size else 0.0
            diff = np.abs(a_ - b_)
            err = float(np.max(diff)) if diff.size else 0.0
            if not np.all(np.isfinite(a_)):
                err = float("inf")
            tol = atol + rtol * scale
            if tol > 0 and err <= tol:
                r = err / tol
                if r > self.headroom.get(monitor, 0.0):
                    self.headroom[monitor] = r
            return self.check(monitor, err <= tol, residual=err,
                              observed=None if err <= tol else a_, expected=None if err <= tol else b_, **kw)
        except Exception as exc:
            return self.check(monitor, False, residual=float("inf"), observed=repr(a)[:300], expected=repr(b)[:300],
                              detail="comparison failed: %r" % (exc,), **kw)

    # ---- (de)serialisation for worker processes -----------------------------
    def dump(self):
        return {"prop": self.prop, "stats": self.stats, "events": self.events, "nviol": self.nviol,
                "known": self.known, "nontrivial": sorted(self.nontrivial), "configs": self.configs,
                "samples": self.samples, "ncases": self.ncases, "fp_events": self.fp_events,
                "reached": self.reached, "extra": jsonable(self.extra), "kind_seen": self._kind_seen,
                "headroom": self.headroom}

    def merge(self, d):
        for m, st in d["stats"].items():
            cur = self.stats.setdefault(m, [0, 0, 0, 0.0])
            cur[0] += st[0]
            cur[1] += st[1]
            cur[2] += st[2]
            cur[3] = max(cur[3], st[3])
        for ev in d["events"]:
            if len(self.events) < MAX_EVENTS and sum(1 for e in self.events if e["monitor"] == ev["monitor"]) < MAX_PER_MONITOR:
                self.events.append(ev)
        self.nviol += d["nviol"]
        for f, k in d["known"].items():
            cur = self.known.setdefault(f, {"count": 0, "first": k["first"]})
            cur["count"] += k["count"]
        self.nontrivial.update(d["nontrivial"])
        for c, n in d["configs"].items():
            self.configs[c] = self.configs.get(c, 0) + n
        seen = {}
        for s in self.samples:
            seen[s["kind"]] = seen.get(s["kind"], 0) + 1
        for s in d["samples"]:
            if seen.get(s["kind"], 0) < MAX_SAMPLES_PER_KIND:
                self.samples.append(s)
                seen[s["kind"]] = seen.get(s["kind"], 0) + 1
        self.ncases += d["ncases"]
        for c, n in d["fp_events"].items():
            self.fp_events[c] = self.fp_events.get(c, 0) + n
        for c, n in d["reached"].items():
            self.reached[c] = self.reached.get(c, 0) + n
        for k, r in d.get("headroom", {}).items():
            if r > self.headroom.get(k, 0.0):
                self.headroom[k] = r
        for k, n in d.get("kind_seen", {}).items():
            self._kind_seen[k] = self._kind_seen.get(k, 0) + n
        for k, v in d.get("extra", {}).items():
            if isinstance(v, (int, float)) and not isinstance(v, bool):
                self.extra[k] = self.extra.get(k, 0) + v
            elif isinstance(v, dict):
                cur = self.extra.setdefault(k, {})
                for kk, vv in v.items():
                    if isinstance(vv, (int, float)) and not isinstance(vv, bool):
                        cur[kk] = cur.get(kk, 0) + vv
                    else:
                        cur.setdefault(kk, vv)
            elif isinstance(v, list):
                cur = self.extra.setdefault(k, [])
                for item in v:
                    if item not in cur:
                        cur.append(item)
            else:
                self.extra.setdefault(k, v)
