"""Event sources that are not verdicts on their own: line coverage of the
anchored functions (sys.monitoring, local events, each location disabled after
its first hit => near-zero cost), numpy floating-point traps, warnings."""
import sys
import dis

import numpy as np

_TOOL = 3
_cov = {}        # (qualname) -> set(lines hit)
_all = {}        # (qualname) -> set(all statement lines)
_active = False


def _on_line(code, line):
    s = _cov.get(code)
    if s is not None:
        s.add(line)
    return sys.monitoring.DISABLE


def watch(label, func):
    """record which lines of `func` the monitored executions reach"""
    global _active
    func = getattr(func, "__wrapped__", func)
    code = getattr(func, "__code__", None)
    if code is None or not hasattr(sys, "monitoring"):
        return
    if not _active:
        try:
            sys.monitoring.use_tool_id(_TOOL, "vfw-coverage")
        except ValueError:
            return
        sys.monitoring.register_callback(_TOOL, sys.monitoring.events.LINE, _on_line)
        _active = True
    _cov[code] = set()
    lines = set(l for _, l in dis.findlinestarts(code) if l is not None)
    lines.discard(code.co_firstlineno)
    _all[code] = (label, lines)
    sys.monitoring.set_local_events(_TOOL, code, sys.monitoring.events.LINE)


def coverage():
    out = {}
    for code, hit in _cov.items():
        label, lines = _all[code]
        hit = hit & lines if lines else hit
        out[label] = {"lines_reached": len(hit), "lines_total": len(lines),
                      "missing": sorted(lines - hit)[:40]}
    return out


def merge_coverage(a, b):
    """union of two coverage reports (by line numbers in 'missing')"""
    for label, cb in b.items():
        ca = a.get(label)
        if ca is None:
            a[label] = cb
            continue
        miss = sorted(set(ca["missing"]) & set(cb["missing"]))
        total = max(ca["lines_total"], cb["lines_total"])
        # 'missing' is truncated at 40 entries; the union is exact when neither was truncated
        reached = total - len(miss) if max(len(ca["missing"]), len(cb["missing"])) < 40 else max(ca["lines_reached"], cb["lines_reached"])
        a[label] = {"lines_reached": reached, "lines_total": total, "missing": miss}
    return a


class FPTrap(object):
    """numpy invalid/overflow/divide events counted per running case kind"""
    def __init__(self, mon):
        self.mon = mon

    def __call__(self, err, flag):
        kind = self.mon.case[0] if self.mon.case else "-"
        k = "%s:%s" % (kind, err)
        self.mon.fp_events[k] = self.mon.fp_events.get(k, 0) + 1

    def install(self):
        np.seterrcall(self)
        np.seterr(divide="call", over="call", invalid="call", under="ignore")
