"""Independent reference computations.  This module never imports xfab."""
import math

import numpy as np

TWO_PI = 2.0 * math.pi


# ---- unit cells -----------------------------------------------------------
def gram_det_angular(cell):
    ca, cb, cg = (math.cos(math.radians(x)) for x in cell[3:6])
    return 1 - ca * ca - cb * cb - cg * cg + 2 * ca * cb * cg


def metric(cell):
    """direct metric tensor G from (a,b,c,alpha,beta,gamma) - textbook formula"""
    a, b, c = (float(x) for x in cell[:3])
    ca, cb, cg = (math.cos(math.radians(float(x))) for x in cell[3:6])
    return np.array([[a * a, a * b * cg, a * c * cb],
                     [a * b * cg, b * b, b * c * ca],
                     [a * c * cb, b * c * ca, c * c]])


def recip_metric(cell):
    return np.linalg.inv(metric(cell))


def volume(cell):
    return math.sqrt(np.linalg.det(metric(cell)))


def cell_from_metric(G):
    a, b, c = math.sqrt(G[0, 0]), math.sqrt(G[1, 1]), math.sqrt(G[2, 2])
    clip = lambda x: max(-1.0, min(1.0, x))
    return [a, b, c,
            math.degrees(math.acos(clip(G[1, 2] / b / c))),
            math.degrees(math.acos(clip(G[0, 2] / a / c))),
            math.degrees(math.acos(clip(G[0, 1] / a / b)))]


def stl(cell, hkl):
    """sin(theta)/lambda = |h|_{G*} / 2"""
    h = np.asarray(hkl, float)
    return 0.5 * math.sqrt(max(0.0, float(h @ recip_metric(cell) @ h)))


def upper_triangular_factor(M):
    """the unique upper-triangular T with positive diagonal and T'T = M (Cholesky)"""
    return np.linalg.cholesky(M).T


# ---- rotations ----------------------------------------------------------------
def Rx(t):
    c, s = math.cos(t), math.sin(t)
    return np.array([[1, 0, 0], [0, c, -s], [0, s, c]], float)


def Ry(t):
    c, s = math.cos(t), math.sin(t)
    return np.array([[c, 0, s], [0, 1, 0], [-s, 0, c]], float)


def Rz(t):
    c, s = math.cos(t), math.sin(t)
    return np.array([[c, -s, 0], [s, c, 0], [0, 0, 1]], float)


def euler(phi1, PHI, phi2):
    return Rz(phi1) @ Rx(PHI) @ Rz(phi2)


def quat_to_mat(q):
    w, x, y, z = q / np.linalg.norm(q)
    return np.array([[1 - 2 * (y * y + z * z), 2 * (x * y - z * w), 2 * (x * z + y * w)],
                     [2 * (x * y + z * w), 1 - 2 * (x * x + z * z), 2 * (y * z - x * w)],
                     [2 * (x * z - y * w), 2 * (y * z + x * w), 1 - 2 * (x * x + y * y)]])


def axis_angle(axis, angle):
    """active right-handed rotation about `axis` by `angle` (Rodrigues' formula)"""
    k = np.asarray(axis, float)
    k = k / np.linalg.norm(k)
    K = np.array([[0, -k[2], k[1]], [k[2], 0, -k[0]], [-k[1], k[0], 0]])
    return np.eye(3) + math.sin(angle) * K + (1 - math.cos(angle)) * (K @ K)


def rod_matrix(r):
    """the library's passive Rodrigues convention: transpose of the active
    rotation about r by 2*atan|r|"""
    r = np.asarray(r, float)
    nr = float(np.linalg.norm(r))
    if nr == 0.0:
        return np.eye(3)
    return axis_angle(r / nr, 2.0 * math.atan(nr)).T


def rod_matrix_rational(r):
    """same thing from the Cayley form, numerically safe for tiny and huge |r|:
    active R = ((1-r.r) I + 2 r r' + 2 [r]x) / (1 + r.r)"""
    r = np.asarray(r, float)
    r2 = float(r @ r)
    K = np.array([[0, -r[2], r[1]], [r[2], 0, -r[0]], [-r[1], r[0], 0]])
    R = ((1 - r2) * np.eye(3) + 2 * np.outer(r, r) + 2 * K) / (1 + r2)
    return R.T


def rotation_angle_deg(R):
    c = (np.trace(R) - 1.0) / 2.0
    return math.degrees(math.acos(max(-1.0, min(1.0, c))))


def ortho_defect(U):
    U = np.asarray(U, float)
    return float(max(np.max(np.abs(U.T @ U - np.eye(3))), abs(np.linalg.det(U) - 1.0)))
