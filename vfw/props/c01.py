"""C01 - cell parameters, A/B matrices, volume and sin(theta)/lambda share one metric."""
import math

import numpy as np

from vfw import gen, oracle, observe

ID = "C01"
RULE = ("cells from 7 strata (generic, near-orthogonal, oblique, very oblique, one 90 deg angle, two equal "
        "angles, anisotropic axes) with angular Gram determinant >= 0.02, hkl uniform in [-30,30]^3 plus the 26 "
        "neighbours of 0, both modules; a case is non-trivial when its cell has an angle more than 5 deg from 90; "
        "distinct = distinct cell (rounded to 1e-9)")
ASSUMPTIONS = ["numpy.linalg (inv, cholesky, det) is trusted; the oracle builds G from the six parameters with the textbook formula",
               "reach is the sampled cells; the identity over the 6-dimensional continuum is not proved"]
FUNCS = ["form_a_mat", "form_b_mat", "cell_volume", "cell_invert", "a_to_cell", "b_to_cell", "sintl", "form_a_mat_inv"]
FLOORS = {}
for _m in ("tools", "laue"):
    for _f in FUNCS:
        FLOORS["post:%s.%s" % (_m, _f)] = 50
WORKERS = {"quick": 1, "thorough": 16}
RTOL = 1e-9


def _cells_equal(mon, name, got, want, **kw):
    got = np.asarray(got, float)
    want = np.asarray(want, float)
    ok = got.shape == (6,) and bool(np.all(np.isfinite(got)))
    res = float("inf")
    if ok:
        rl = float(np.max(np.abs(got[:3] - want[:3]) / np.abs(want[:3])))
        ra = float(np.max(np.abs(got[3:] - want[3:])))
        res = max(rl, ra)
        ok = rl <= RTOL and ra <= 1e-7
    return mon.check(name, ok, residual=res, observed=None if ok else got, expected=None if ok else want, **kw)


def install(ctx, module, k):
    """post-conditions on the eight functions of one module; k = 2*pi for tools, 1 for laue"""
    mon = ctx.mon
    m = module.__name__.split(".")[-1]

    def in_domain(cell):
        try:
            c = [float(x) for x in cell]
            return len(c) == 6 and min(c[:3]) > 0 and oracle.gram_det_angular(c) >= 0.02 - 1e-12
        except Exception:
            return False

    def upper_pos(name, M, scale):
        M = np.asarray(M, float)
        low = max(abs(M[1, 0]), abs(M[2, 0]), abs(M[2, 1]))
        mon.check(name, bool(low <= 1e-12 * scale and M[0, 0] > 0 and M[1, 1] > 0 and M[2, 2] > 0),
                  residual=low, observed=M, expected="upper triangular, positive diagonal")

    def post_form_a_mat(unit_cell, result):
        if not in_domain(unit_cell):
            mon.config("out-of-domain:%s.form_a_mat" % m)
            return
        G = oracle.metric(unit_cell)
        A = np.asarray(result, float)
        upper_pos("post:%s.form_a_mat" % m, A, math.sqrt(np.max(G)))
        mon.close("post:%s.form_a_mat" % m, A.T @ A, G, rtol=RTOL)
        mon.close("post:%s.form_a_mat" % m, A, oracle.upper_triangular_factor(G), rtol=RTOL)
        mon.close("post:%s.form_a_mat" % m, np.linalg.det(A), oracle.volume(unit_cell), rtol=RTOL)

    def post_form_b_mat(unit_cell, result):
        if not in_domain(unit_cell):
            mon.config("out-of-domain:%s.form_b_mat" % m)
            return
        Gs = oracle.recip_metric(unit_cell) * k * k
        B = np.asarray(result, float)
        upper_pos("post:%s.form_b_mat" % m, B, math.sqrt(np.max(Gs)))
        mon.close("post:%s.form_b_mat" % m, B.T @ B, Gs, rtol=RTOL)
        mon.close("post:%s.form_b_mat" % m, B, oracle.upper_triangular_factor(Gs), rtol=RTOL)

    def post_cell_volume(unit_cell, result):
        if not in_domain(unit_cell):
            mon.config("out-of-domain:%s.cell_volume" % m)
            return
        mon.close("post:%s.cell_volume" % m, result, oracle.volume(unit_cell), rtol=RTOL)

    def post_cell_invert(unit_cell, result):
        if not in_domain(unit_cell):
            mon.config("out-of-domain:%s.cell_invert" % m)
            return
        want = oracle.cell_from_metric(oracle.recip_metric(unit_cell))
        _cells_equal(mon, "post:%s.cell_invert" % m, result, want)

    def post_a_to_cell(A_matrix, result):
        A = np.asarray(A_matrix, float)
        want = A.T @ A
        if not np.all(np.isfinite(want)) or np.linalg.cond(want) > 1e8:
            mon.config("out-of-domain:%s.a_to_cell" % m)
            return
        r = np.asarray(result, float)
        if not (r.shape == (6,) and np.all(np.isfinite(r))):
            mon.check("post:%s.a_to_cell" % m, False, observed=result, expected="six finite numbers")
            return
        mon.close("post:%s.a_to_cell" % m, oracle.metric(r), want, rtol=RTOL)

    def post_b_to_cell(B_matrix, result):
        B = np.asarray(B_matrix, float) / k
        Gs = B.T @ B
        if not np.all(np.isfinite(Gs)) or np.linalg.cond(Gs) > 1e8:
            mon.config("out-of-domain:%s.b_to_cell" % m)
            return
        r = np.asarray(result, float)
        if not (r.shape == (6,) and np.all(np.isfinite(r))):
            mon.check("post:%s.b_to_cell" % m, False, observed=result, expected="six finite numbers")
            return
        mon.close("post:%s.b_to_cell" % m, oracle.metric(r), np.linalg.inv(Gs), rtol=1e-8)

    def post_sintl(unit_cell, hkl, result):
        if not in_domain(unit_cell):
            mon.config("out-of-domain:%s.sintl" % m)
            return
        want = oracle.stl(unit_cell, hkl)
        mon.close("post:%s.sintl" % m, result, want, rtol=RTOL, atol=1e-13)

    def post_form_a_mat_inv(unit_cell, result):
        if not in_domain(unit_cell):
            mon.config("out-of-domain:%s.form_a_mat_inv" % m)
            return
        A = oracle.upper_triangular_factor(oracle.metric(unit_cell))
        mon.close("post:%s.form_a_mat_inv" % m, np.asarray(result, float) @ A, np.eye(3), rtol=0, atol=1e-8)
        mon.close("post:%s.form_a_mat_inv" % m, A @ np.asarray(result, float), np.eye(3), rtol=0, atol=1e-8)

    for name, cond in (("form_a_mat", post_form_a_mat), ("form_b_mat", post_form_b_mat),
                       ("cell_volume", post_cell_volume), ("cell_invert", post_cell_invert),
                       ("a_to_cell", post_a_to_cell), ("b_to_cell", post_b_to_cell),
                       ("sintl", post_sintl), ("form_a_mat_inv", post_form_a_mat_inv)):
        observe.watch("%s.%s" % (m, name), getattr(module, name))
        ctx.ensure(module, name, cond)


def setup(ctx):
    from xfab import tools, laue
    ctx.T, ctx.L = tools, laue
    install(ctx, tools, oracle.TWO_PI)
    install(ctx, laue, 1.0)


def workload(ctx):
    rng = ctx.rng(1)
    n = ctx.n(2500, 30000)
    prev = []
    for i in range(n):
        c, stratum = gen.cell(rng, gen.CELL_STRATA[i % len(gen.CELL_STRATA)])
        r = rng.random()
        if prev and r < 0.25:
            # histories: a refinement scan (the previous cell changed by 1e-8..1e-3 relative in one or all parameters) ...
            base = prev[-1]
            d = 10 ** rng.uniform(-8, -3) * rng.choice([-1, 1])
            if rng.random() < 0.5:
                c = [x * (1 + d) for x in base]
            else:
                j = int(rng.integers(6))
                c = [x * (1 + d) if n_ == j else x for n_, x in enumerate(base)]
            stratum = "scan"
        elif len(prev) > 1 and r < 0.35:
            c, stratum = list(prev[-2]), "revisit"          # ... and A-B-A alternation
        if oracle.gram_det_angular(c) < 0.02 or max(c[3:]) >= 175 or min(c[3:]) <= 5:
            c, stratum = gen.cell(rng, "generic")
        prev = (prev + [c])[-3:]
        hkls = [gen.hkl(rng) for _ in range(4)] + [gen.NEIGHBOURS[int(rng.integers(26))]]
        yield "cell", {"cell": [float(x) for x in c], "stratum": stratum, "hkls": hkls}
    rng = ctx.rng(2)
    for i in range(ctx.n(60, 400)):
        c, stratum = gen.cell(rng, gen.CELL_STRATA[i % len(gen.CELL_STRATA)])
        yield "embedded", {"cell": c, "stratum": stratum, "q": [float(x) for x in rng.normal(size=4)],
                           "eps": [float(x) for x in rng.uniform(-0.05, 0.05, 6)]}
    groups = [1, 2, 5, 14, 62, 88, 139, 148, 152, 167, 176, 194, 205, 225, 227]
    rng = ctx.rng(3)
    for i, no in enumerate(groups):
        if ctx.mine(i):
            yield "embedded_genhkl", {"sgno": no, "s": [float(x) for x in rng.uniform(0, 1, 4)]}


def case_cell(ctx, p):
    mon = ctx.mon
    c = p["cell"]
    mon.config("stratum:" + p["stratum"])
    if max(abs(a - 90.0) for a in c[3:]) > 5.0:
        mon.nontriv(c)
    fk = int(round(c[0] * 1e6)) % 4
    for mod, k, m in ((ctx.T, oracle.TWO_PI, "tools"), (ctx.L, 1.0, "laue")):
        cf = gen.as_form(c, fk)            # list / tuple / float array of the same six numbers
        mon.config("argument form:%s" % type(cf).__name__)
        if fk == 0:
            A = ctx.probe_alias(mod.form_a_mat, cf)
            B = ctx.probe_alias(mod.form_b_mat, cf)
            ctx.probe_alias(mod.form_a_mat_inv, cf)
            ctx.probe_alias(mod.cell_invert, cf)
        else:
            A = mod.form_a_mat(cf)
            B = mod.form_b_mat(cf)
        V = mod.cell_volume(cf)
        mon.close("workload:%s.detA=volume" % m, np.linalg.det(A), V, rtol=RTOL)
        _cells_equal(mon, "workload:%s.a_to_cell(form_a_mat)" % m, mod.a_to_cell(A), c)
        _cells_equal(mon, "workload:%s.b_to_cell(form_b_mat)" % m, mod.b_to_cell(B), c)
        _cells_equal(mon, "workload:%s.cell_invert^2" % m, mod.cell_invert(mod.cell_invert(cf)), c)
        Ai = mod.form_a_mat_inv(cf)
        mon.close("workload:%s.form_a_mat_inv*form_a_mat" % m, Ai @ A, np.eye(3), rtol=0, atol=1e-8)
        for n_h, h in enumerate(p["hkls"]):
            s = mod.sintl(cf, gen.as_form(h, fk + n_h))
            mon.close("workload:%s.sintl=|B.h|/2k" % m, s, np.linalg.norm(B @ np.asarray(h, float)) / (2 * k),
                      rtol=RTOL, atol=1e-13)
            # argument forms users pass: lists, tuples, integer and float arrays
            s2 = mod.sintl(np.array(c), np.array(h, dtype=float))
            mon.close("workload:%s.sintl-array-args" % m, s2, s, rtol=1e-12, atol=1e-15)
        # a refinement loop: the caller's own list / array is updated in place and handed in again (the contracts judge every
        # call against the values the object holds at that moment)
        fresh = [c[0] * 1.0625, c[1] * 0.9375, c[2]] + list(c[3:])     # numbers the module has not seen: its first sight of them is the held object
        for held in (list(fresh), np.array(fresh, float)):
            h0 = p["hkls"][0]
            mod.sintl(held, h0)
            mod.form_b_mat(held)
            mod.cell_volume(held)
            held[0] = held[0] * 1.0731
            held[2] = held[2] * 0.9127
            mod.sintl(held, h0)
            mod.form_b_mat(held)
            mod.cell_volume(held)
            mod.form_a_mat(held)
            mod.cell_invert(held)


def case_embedded(ctx, p):
    """drive the internal callers so that the contracts see the calls real use makes"""
    c = p["cell"]
    U = oracle.quat_to_mat(np.array(p["q"]))
    for mod in (ctx.T, ctx.L):
        ubi = mod.u_to_ubi(U, c)               # -> form_b_mat -> cell_volume
        mod.ubi_to_cell(ubi)                   # -> a_to_cell
        mod.ubi_to_u(ubi)                      # -> a_to_cell, form_b_mat
        mod.tth(c, [1, 2, -1], 0.1)            # -> sintl
        B = mod.epsilon_to_b_old(p["eps"], c)  # -> form_a_mat_inv, a_to_cell, form_b_mat
        mod.b_to_epsilon_old(B, c)             # -> b_to_cell -> cell_invert, form_a_mat
        mod.b_to_epsilon(B, c)
        mod.epsilon_to_b(p["eps"], c)


def case_embedded_genhkl(ctx, p):
    from xfab import sg, structure
    spg = sg.sg(sgno=p["sgno"])
    rng = np.random.default_rng(int(p["s"][0] * 1e9))
    c = gen.conforming_cell(rng, spg.crystal_system)
    for mod in (ctx.T, ctx.L):
        mod.genhkl_all(c, 0.0, 0.45, sgno=p["sgno"])          # -> sintl for every visited lattice point
    at = structure.atom_entry(label="X", atomtype="FE", pos=[0.1, 0.2, 0.3], adp_type="Uani",
                              adp=[0.02, 0.03, 0.025, 0.001, 0.002, -0.001], occ=1.0, symmulti=spg.nsymop)
    structure.StructureFactor([1, 2, 3], c, spg.name, [at])  # -> tools.sintl, tools.cell_invert
    ctx.mon.config("embedded-genhkl:sg%d" % p["sgno"])


CASES = {"cell": case_cell, "embedded": case_embedded, "embedded_genhkl": case_embedded_genhkl}
