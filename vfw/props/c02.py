"""C02 - U, B and UBI convert into each other without loss."""
import math

import numpy as np

from vfw import gen, oracle, observe

ID = "C02"
RULE = ("(U, cell) pairs: U from 9 rotation strata (uniform SO(3), 24 axis-aligned, tiny angle, near 180 deg, exact and "
        "near gimbal lock at PHI=0/pi, products of rotations), cells from the 7 strata of C01; UB = Q.T with Q uniform and T "
        "upper triangular, diagonal log-uniform 1e-3..1e3, cond < 5e5; non-trivial = U not axis-aligned or cell angle > 5 deg "
        "from 90; distinct = distinct (U, cell) or distinct UB")
ASSUMPTIONS = ["numpy.linalg is trusted (inv, cholesky, det, cond)",
               "uniqueness oracle for the U/B split: ubi.U must be upper triangular with positive diagonal (QR uniqueness)",
               "ubi_to_rod is compared only for rotation angle <= 179.9 deg (C03 owns the behaviour next to 180 deg)"]
FUNCS = ["u_to_ubi", "ubi_to_u", "ubi_to_cell", "ubi_to_u_b", "ub_to_u_b", "ubi_to_rod"]
FLOORS = {}
for _m in ("tools", "laue"):
    for _f in FUNCS:
        FLOORS["post:%s.%s" % (_m, _f)] = 100
ATOL = 1e-8


def _upper_pos(M, scale):
    low = max(abs(M[1, 0]), abs(M[2, 0]), abs(M[2, 1]))
    return low <= 1e-8 * scale and M[0, 0] > 0 and M[1, 1] > 0 and M[2, 2] > 0, low


def _finite33(x):
    try:
        x = np.asarray(x, float)
        return x.shape == (3, 3) and bool(np.all(np.isfinite(x)))
    except Exception:
        return False


def install(ctx, module, k):
    mon = ctx.mon
    m = module.__name__.split(".")[-1]

    def cell_ok(cell):
        try:
            c = [float(x) for x in cell]
            return len(c) == 6 and min(c[:3]) > 0 and oracle.gram_det_angular(c) >= 0.02 - 1e-12
        except Exception:
            return False

    def post_u_to_ubi(U_matrix, unit_cell, result):
        name = "post:%s.u_to_ubi" % m
        U = np.asarray(U_matrix, float)
        if not (cell_ok(unit_cell) and _finite33(U) and oracle.ortho_defect(U) < 1e-7):
            mon.config("out-of-domain:%s.u_to_ubi" % m)
            return
        if not _finite33(result):
            mon.check(name, False, observed=result, expected="finite 3x3")
            return
        B = oracle.upper_triangular_factor(oracle.recip_metric(unit_cell) * k * k)
        mon.close(name, np.asarray(result, float) @ U @ B, k * np.eye(3), rtol=0, atol=ATOL * k)
        # rows of UBI are the real-space lattice vectors: their Gram matrix is the direct metric
        mon.close(name, np.asarray(result, float) @ np.asarray(result, float).T, oracle.metric(unit_cell), rtol=1e-8)

    def ubi_ok(ubi):
        if not _finite33(ubi):
            return False
        u = np.asarray(ubi, float)
        return np.linalg.det(u) > 0 and np.linalg.cond(u) < 1e5

    def post_ubi_to_u(ubi_matrix, result):
        name = "post:%s.ubi_to_u" % m
        if not ubi_ok(ubi_matrix):
            mon.config("out-of-domain:%s.ubi_to_u" % m)
            return
        if not _finite33(result):
            mon.check(name, False, observed=result, expected="finite 3x3")
            return
        U = np.asarray(result, float)
        ubi = np.asarray(ubi_matrix, float)
        d = oracle.ortho_defect(U)
        mon.check(name, d <= ATOL, residual=d, observed=U, expected="orthonormal, det +1")
        M = ubi @ U          # = k * inv(B): upper triangular, positive diagonal  <=> U is *the* rotation of the split
        ok, low = _upper_pos(M, float(np.max(np.abs(M))))
        mon.check(name, ok, residual=low, observed=M, expected="ubi.U upper triangular with positive diagonal")

    def post_ubi_to_cell(ubi_matrix, result):
        name = "post:%s.ubi_to_cell" % m
        if not ubi_ok(ubi_matrix):
            mon.config("out-of-domain:%s.ubi_to_cell" % m)
            return
        r = np.asarray(result, float)
        if not (r.shape == (6,) and np.all(np.isfinite(r))):
            mon.check(name, False, observed=result, expected="six finite numbers")
            return
        ubi = np.asarray(ubi_matrix, float)
        mon.close(name, oracle.metric(r), ubi @ ubi.T, rtol=1e-9)

    def split_ok(name, M, res):
        try:
            U, B = res
        except Exception:
            mon.check(name, False, observed=repr(res)[:200], expected="(U, B)")
            return
        if not (_finite33(U) and _finite33(B)):
            mon.check(name, False, observed=[U, B], expected="finite (U, B)")
            return
        U = np.asarray(U, float)
        B = np.asarray(B, float)
        d = oracle.ortho_defect(U)
        mon.check(name, d <= 1e-9, residual=d, observed=U, expected="U orthonormal with det +1")
        ok, low = _upper_pos(B, float(np.max(np.abs(B))))
        mon.check(name, ok, residual=low, observed=B, expected="B upper triangular with positive diagonal")
        mon.close(name, U @ B, M, rtol=ATOL)

    def post_ub_to_u_b(UB_matrix, result):
        name = "post:%s.ub_to_u_b" % m
        if not _finite33(UB_matrix):
            mon.config("out-of-domain:%s.ub_to_u_b" % m)
            return
        M = np.asarray(UB_matrix, float)
        if not (np.linalg.det(M) > 0 and np.linalg.cond(M) < 1e6):
            mon.config("out-of-domain:%s.ub_to_u_b" % m)
            return
        split_ok(name, M, result)

    def post_ubi_to_u_b(ubi_matrix, result):
        name = "post:%s.ubi_to_u_b" % m
        if not ubi_ok(ubi_matrix):
            mon.config("out-of-domain:%s.ubi_to_u_b" % m)
            return
        split_ok(name, k * np.linalg.inv(np.asarray(ubi_matrix, float)), result)

    def post_ubi_to_rod(ubi_matrix, result):
        name = "post:%s.ubi_to_rod" % m
        if not ubi_ok(ubi_matrix):
            mon.config("out-of-domain:%s.ubi_to_rod" % m)
            return
        ubi = np.asarray(ubi_matrix, float)
        UB = np.linalg.inv(ubi)
        Bo = np.linalg.cholesky(UB.T @ UB).T
        Uo = UB @ np.linalg.inv(Bo)
        if oracle.rotation_angle_deg(Uo) > 179.9:
            mon.config("out-of-domain:%s.ubi_to_rod(near 180)" % m)
            return
        r = np.asarray(result, float)
        if not (r.shape == (3,) and np.all(np.isfinite(r))):
            mon.check(name, False, observed=result, expected="finite 3-vector")
            return
        mon.close(name, oracle.rod_matrix_rational(r), Uo, rtol=0, atol=1e-7)

    for name, cond in (("u_to_ubi", post_u_to_ubi), ("ubi_to_u", post_ubi_to_u), ("ubi_to_cell", post_ubi_to_cell),
                       ("ubi_to_u_b", post_ubi_to_u_b), ("ub_to_u_b", post_ub_to_u_b), ("ubi_to_rod", post_ubi_to_rod)):
        observe.watch("%s.%s" % (m, name), getattr(module, name))
        ctx.ensure(module, name, cond)


def setup(ctx):
    from xfab import tools, laue
    ctx.T, ctx.L = tools, laue
    install(ctx, tools, oracle.TWO_PI)
    install(ctx, laue, 1.0)


def workload(ctx):
    rng = ctx.rng(1)
    n = ctx.n(1800, 25000)
    prev = None
    for i in range(n):
        U, rs, info = gen.rotation(rng, gen.ROT_STRATA[i % len(gen.ROT_STRATA)])
        c, cs = gen.cell(rng, gen.CELL_STRATA[(i // len(gen.ROT_STRATA)) % len(gen.CELL_STRATA)])
        if prev is not None and rng.random() < 0.3:
            # histories: keep the previous U or the previous cell (possibly a refinement step away)
            if rng.random() < 0.5:
                U, rs = prev[0], prev[1]
            else:
                d = 0.0 if rng.random() < 0.4 else 10 ** rng.uniform(-8, -4)
                c2 = [x * (1 + d) for x in prev[2]]
                if oracle.gram_det_angular(c2) >= 0.02 and max(c2[3:]) < 175:
                    c, cs = c2, "scan"
        prev = (U, rs, c)
        yield "u_cell", {"U": U.tolist(), "rot_stratum": rs, "cell": c, "cell_stratum": cs,
                         "hkls": [gen.hkl(rng) for _ in range(3)], "as_list": bool(i % 5 == 0)}
    rng = ctx.rng(2)
    for i in range(ctx.n(1500, 20000)):
        Q = oracle.quat_to_mat(rng.normal(size=4))
        lo, hi = [(-3, 3), (-1, 1), (-3, 0), (0, 3), (-3, 2.5), (0, 0), (0, 0)][i % 7]
        for _ in range(100):
            T = np.triu(rng.normal(size=(3, 3)), 1)
            if (i % 7) >= 5:   # wide dynamic range on purpose: cond 1e4..5e5
                span = rng.uniform(4.0, 5.6)
                base = rng.uniform(-3, 3 - span)
                d = 10 ** (np.array([base, base + span * rng.uniform(0.2, 0.8), base + span])[rng.permutation(3)])
            else:
                d = 10 ** rng.uniform(lo, hi, 3)
            T = T * float(np.sqrt(d[0] * d[2])) * (10 ** rng.uniform(-1, 0))
            T[np.diag_indices(3)] = d
            if np.linalg.cond(T) < 5e5:
                break
        else:
            continue
        yield "ub", {"Q": Q.tolist(), "T": T.tolist()}


def case_u_cell(ctx, p):
    mon = ctx.mon
    U = np.array(p["U"], float)
    c = p["cell"]
    mon.config("rot:" + p["rot_stratum"])
    mon.config("cell:" + p["cell_stratum"])
    if p["rot_stratum"] != "axis_aligned" or max(abs(a - 90.0) for a in c[3:]) > 5.0:
        mon.nontriv(U, c)
    for mod, k, m in ((ctx.T, oracle.TWO_PI, "tools"), (ctx.L, 1.0, "laue")):
        Bo = oracle.upper_triangular_factor(oracle.recip_metric(c) * k * k)
        fk = int(round(c[1] * 1e6)) % 3
        ubi = mod.u_to_ubi(gen.as_form(U, fk) if p["as_list"] else U, gen.as_form(c, fk + 1))
        if p["as_list"]:
            ubi = gen.as_form(ubi, fk + 2)       # the UBI handed on as list / tuple / array
        # the same array is handed from one function to the next, as a user would
        U2 = mod.ubi_to_u(ubi)
        mon.close("workload:%s.ubi_to_u(u_to_ubi)=U" % m, U2, U, rtol=0, atol=ATOL)
        c2 = mod.ubi_to_cell(ubi)
        ok = mon.close("workload:%s.ubi_to_cell(u_to_ubi)=cell" % m, np.asarray(c2)[:3], c[:3], rtol=1e-9)
        mon.close("workload:%s.ubi_to_cell(u_to_ubi)=cell" % m, np.asarray(c2)[3:], c[3:], rtol=0, atol=1e-7)
        if fk == 0:
            ctx.probe_alias(mod.form_b_mat, c)
            ctx.probe_alias(mod.u_to_ubi, U, c)
            ctx.probe_alias(mod.ubi_to_u, ubi)
        U3, B3 = mod.ubi_to_u_b(ubi) if fk else ctx.probe_alias(mod.ubi_to_u_b, ubi)
        mon.close("workload:%s.ubi_to_u_b(u_to_ubi)=(U,B)" % m, U3, U, rtol=0, atol=ATOL)
        mon.close("workload:%s.ubi_to_u_b(u_to_ubi)=(U,B)" % m, B3, Bo, rtol=ATOL)
        for h in p["hkls"]:
            h = np.asarray(h, float)
            g = U @ (mod.form_b_mat(c) @ h)
            mon.close("workload:%s.ubi.(U.B.hkl)=k.hkl" % m, np.asarray(ubi, float) @ g, k * h, rtol=ATOL)
        if oracle.rotation_angle_deg(U) <= 179.9:
            r = mod.ubi_to_rod(ubi)
            mon.close("workload:%s.ubi_to_rod(u_to_ubi)=rod(U)" % m, oracle.rod_matrix_rational(np.asarray(r, float)), U,
                      rtol=0, atol=1e-7)
        # and once more after everything else has seen the array
        mon.close("workload:%s.ubi-still-inverts-UB" % m, np.asarray(ubi, float) @ U @ Bo, k * np.eye(3), rtol=0, atol=ATOL * k)


def case_ub(ctx, p):
    mon = ctx.mon
    Q = np.array(p["Q"], float)
    T = np.array(p["T"], float)
    M = Q @ T
    cond = float(np.linalg.cond(M))
    mon.config("ub:cond<1e%d" % max(1, int(math.ceil(math.log10(cond)))))
    mon.nontriv(M)
    for mod, m in ((ctx.T, "tools"), (ctx.L, "laue")):
        U, B = mod.ub_to_u_b(M.copy())
        # forward error of a backward-stable split is ~cond*eps <= 1e-10 here
        mon.close("workload:%s.ub_to_u_b=(Q,T)" % m, U, Q, rtol=0, atol=ATOL + 1e-12 * cond)
        mon.close("workload:%s.ub_to_u_b=(Q,T)" % m, B, T, rtol=ATOL)
        U2, B2 = mod.ub_to_u_b(gen.as_form(M, int(abs(M[0, 0]) * 1e6)))
        mon.close("workload:%s.ub_to_u_b(list)" % m, U2, U, rtol=0, atol=1e-12)


CASES = {"u_cell": case_u_cell, "ub": case_ub}
