"""C03 - every orientation parametrisation yields a proper rotation and inverts exactly."""
import math

import numpy as np

from vfw import gen, oracle, observe

ID = "C03"
RULE = ("constructors: real arguments up to +-1e3 rad (Euler out of [0,2pi] with CHECKS off), |r| log-uniform 1e-9..1e3; "
        "inverses: proper rotations from 9 strata built from Euler triples AND from axis/angle products (PHI exactly 0/pi, "
        "PHI or pi-PHI log-uniform 1e-12..1e-3, axis aligned, products carrying rounding error, near 180 deg); "
        "non-trivial = rotation not axis-aligned / argument not a multiple of pi/2; distinct = distinct argument tuple or matrix")
ASSUMPTIONS = ["elementary rotations Rx,Ry,Rz and Rodrigues' formula are written in the harness (oracle.py)",
               "u_to_rod is judged only for rotation angle <= 180 deg - 1e-5 deg (the property excludes the neighbourhood of 180 deg)",
               "rebuild tolerance 1e-6 as stated by the property; constructor tolerance 1e-10 (largest error seen in 2.6 M constructor calls: 1.1e-13)"]
FLOORS = {}
for _m in ("tools", "laue"):
    for _f in ("euler_to_u", "rod_to_u", "form_omega_mat", "form_omega_mat_general", "quart_to_omega", "detect_tilt",
               "u_to_euler", "u_to_rod"):
        FLOORS["post:%s.%s" % (_m, _f)] = 100
CT = 1e-10
TWO_PI = 2 * math.pi


def install(ctx, module):
    mon = ctx.mon
    m = module.__name__.split(".")[-1]

    def built(name, result, want):
        if not (isinstance(result, np.ndarray) and result.shape == (3, 3) and np.all(np.isfinite(result))):
            mon.check(name, False, observed=result, expected="finite 3x3 array")
            return
        d = oracle.ortho_defect(result)
        mon.check(name, d <= CT, residual=d, observed=result, expected="orthonormal with det +1")
        mon.close(name, result, want, rtol=0, atol=CT)

    def post_euler_to_u(phi1, PHI, phi2, result):
        built("post:%s.euler_to_u" % m, result, oracle.euler(phi1, PHI, phi2))

    def post_rod_to_u(rodriguez_vector, result):
        r = np.asarray(rodriguez_vector, float)
        built("post:%s.rod_to_u" % m, result, oracle.rod_matrix_rational(r))
        if 1e-6 < np.linalg.norm(r) < 1e6:   # the trigonometric form of the same statement
            mon.close("post:%s.rod_to_u" % m, result, oracle.rod_matrix(r), rtol=0, atol=1e-9)

    def post_form_omega_mat(omega, result):
        built("post:%s.form_omega_mat" % m, np.asarray(result, float), oracle.Rz(omega))

    def post_form_omega_mat_general(omega, chi, wedge, result):
        built("post:%s.form_omega_mat_general" % m, result, oracle.Rx(chi) @ oracle.Ry(wedge) @ oracle.Rz(omega))

    def post_quart_to_omega(w, w_x, w_y, result):
        P = oracle.Rx(w_x) @ oracle.Ry(w_y)
        built("post:%s.quart_to_omega" % m, result, P @ oracle.Rz(math.radians(w)) @ P.T)

    def post_detect_tilt(tilt_x, tilt_y, tilt_z, result):
        built("post:%s.detect_tilt" % m, result, oracle.Rx(tilt_x) @ oracle.Ry(tilt_y) @ oracle.Rz(tilt_z))

    def post_u_to_euler(U_matrix, result):
        name = "post:%s.u_to_euler" % m
        U = np.asarray(U_matrix, float)
        if U.shape != (3, 3) or oracle.ortho_defect(U) > 1e-9:
            mon.config("out-of-domain:%s.u_to_euler" % m)
            return
        a = np.asarray(result, float)
        if not (a.shape == (3,) and np.all(np.isfinite(a))):
            mon.check(name, False, observed=result, expected="three finite angles")
            return
        rng_ok = (0 <= a[0] <= TWO_PI) and (0 <= a[1] <= math.pi) and (0 <= a[2] <= TWO_PI)
        mon.check(name, bool(rng_ok), observed=a, expected="angles in [0,2pi]x[0,pi]x[0,2pi]")
        err = float(np.max(np.abs(oracle.euler(*a) - U)))
        mon.check(name, err <= 1e-6, residual=err, tol=1e-6, observed=a, expected="euler(angles) rebuilds U within 1e-6",
                  detail={"U": U, "rebuild_error": err})

    def post_u_to_rod(U_matrix, result):
        name = "post:%s.u_to_rod" % m
        U = np.asarray(U_matrix, float)
        if U.shape != (3, 3) or oracle.ortho_defect(U) > 1e-9 or oracle.rotation_angle_deg(U) > 180 - 1e-5:
            mon.config("out-of-domain:%s.u_to_rod" % m)
            return
        r = np.asarray(result, float)
        if not (r.shape == (3,) and np.all(np.isfinite(r))):
            mon.check(name, False, observed=result, expected="finite 3-vector")
            return
        err = float(np.max(np.abs(oracle.rod_matrix_rational(r) - U)))
        mon.check(name, err <= 1e-6, residual=err, tol=1e-6, observed=r, expected="rod(r) rebuilds U within 1e-6", detail={"U": U})

    for name, cond in (("euler_to_u", post_euler_to_u), ("rod_to_u", post_rod_to_u), ("form_omega_mat", post_form_omega_mat),
                       ("form_omega_mat_general", post_form_omega_mat_general), ("quart_to_omega", post_quart_to_omega),
                       ("detect_tilt", post_detect_tilt), ("u_to_euler", post_u_to_euler), ("u_to_rod", post_u_to_rod)):
        observe.watch("%s.%s" % (m, name), getattr(module, name))
        ctx.ensure(module, name, cond)
    # a private helper: the property does not need it to exist
    if hasattr(module, "_arctan2"):
        observe.watch("%s._arctan2" % m, module._arctan2)
    else:
        mon.config("%s has no _arctan2" % m)


def setup(ctx):
    import xfab
    from xfab import tools, laue
    ctx.T, ctx.L = tools, laue
    ctx.CHECKS = xfab.CHECKS
    install(ctx, tools)
    install(ctx, laue)


def _angle(rng, i):
    kind = i % 4
    if kind == 0:
        return float(rng.uniform(0, TWO_PI))
    if kind == 1:
        return float(rng.uniform(-1e3, 1e3))
    if kind == 2:
        return float(rng.integers(-8, 9) * math.pi / 2)
    return float(rng.choice([-1, 1]) * 10 ** rng.uniform(-12, 0))


INV_STRATA = gen.ROT_STRATA + ["gimbal_0_near_axisangle", "gimbal_pi_near_axisangle", "gimbal_0_noisy", "near_180_fine", "euler_near_wrap"]


def workload(ctx):
    rng = ctx.rng(1)
    prev = None
    for i in range(ctx.n(1200, 15000)):
        a = [_angle(rng, i + j) for j in range(3)]
        # histories, not just isolated calls: each argument keeps its previous value with
        # probability 0.35, so consecutive calls differ in one, two or all three arguments
        if prev is not None:
            a = [prev[j] if rng.random() < 0.35 else a[j] for j in range(3)]
        prev = a
        yield "build", {"a": a,
                        "in_range": [float(x) for x in rng.uniform(0, TWO_PI, 3)],
                        "rod": [float(x) for x in rng.normal(size=3) * 10 ** rng.uniform(-9, 3)],
                        "w_deg": float(rng.uniform(-720, 720))}
    rng = ctx.rng(2)
    for i in range(ctx.n(4000, 40000)):
        s = INV_STRATA[i % len(INV_STRATA)]
        info = {}
        if s in gen.ROT_STRATA:
            U, _, info = gen.rotation(rng, s)
        elif s == "gimbal_0_near_axisangle" or s == "gimbal_pi_near_axisangle":
            d = 10 ** rng.uniform(-12, -3)
            b = rng.uniform(0, TWO_PI)
            tilt = d if "_0_" in s else math.pi - d
            U = oracle.Rz(rng.uniform(0, TWO_PI)) @ oracle.axis_angle([math.cos(b), math.sin(b), 0.0], tilt)
            info = {"delta": float(d)}
        elif s == "gimbal_0_noisy":
            # a product that is a z-rotation up to rounding error
            Q = oracle.quat_to_mat(rng.normal(size=4))
            U = (Q @ oracle.Rz(rng.uniform(0, TWO_PI))) @ Q.T
            U = Q.T @ U @ Q
            info = {"delta": 0.0}
        elif s == "euler_near_wrap":
            # phi1 and/or phi2 a hair below 2 pi or above 0 (the ends of the range the answer has to lie in)
            ang = [float(x) for x in rng.uniform(0, TWO_PI, 3)]
            ang[1] = float(rng.uniform(0.05, math.pi - 0.05))
            for j in ((0,), (2,), (0, 2))[int(rng.integers(3))]:
                d = 10 ** rng.uniform(-9, -2)
                ang[j] = float(TWO_PI - d if rng.random() < 0.6 else d)
            U = oracle.euler(*ang)
            info = {"delta": None}
        else:  # near_180_fine: delta down to 2e-7 rad (1.1e-5 deg)
            d = 10 ** rng.uniform(-6.7, -1)
            U = oracle.axis_angle(rng.normal(size=3), math.pi - d)
        yield "invert", {"U": U.tolist(), "stratum": s, "delta": info.get("delta")}


def case_build(ctx, p):
    mon = ctx.mon
    a = p["a"]
    if any(abs((x / (math.pi / 2)) - round(x / (math.pi / 2))) > 1e-6 for x in a):
        mon.nontriv("build", a, p["rod"])
    for mod, m in ((ctx.T, "tools"), (ctx.L, "laue")):
        mod.euler_to_u(*p["in_range"])                     # inside [0, 2pi]: accepted whatever the switch says
        was = ctx.CHECKS.activated
        ctx.CHECKS.activated = False                       # "for all real arguments"
        try:
            mod.euler_to_u(*a)
        finally:
            ctx.CHECKS.activated = bool(was)
        mod.rod_to_u(p["rod"])
        mod.rod_to_u(gen.as_form(p["rod"], 1 + int(abs(p["rod"][0]) * 1e9) % 2))
        irod = [int(round(x * 3)) for x in np.tanh(np.asarray(p["rod"]) * 1e3)] if abs(p["w_deg"]) < 360 else [1, -2, 3]
        for form in range(4):                      # whole-number vectors as list / tuple / float array / integer array
            mod.rod_to_u(gen.as_form(irod, form))
        mod.form_omega_mat(a[0])
        if abs(p["w_deg"]) < 180:
            ctx.probe_alias(mod.form_omega_mat_general, a[0], a[1], a[2])
            ctx.probe_alias(mod.detect_tilt, a[0], a[1], a[2])
            ctx.probe_alias(mod.quart_to_omega, p["w_deg"], a[1], a[2])
            ctx.probe_alias(mod.rod_to_u, p["rod"])
            ctx.probe_alias(mod.euler_to_u, *p["in_range"])
        mod.form_omega_mat_general(a[0], a[1], a[2])
        mod.quart_to_omega(p["w_deg"], a[1], a[2])
        mod.quart_to_omega(math.degrees(a[0]), p["in_range"][1] - math.pi, p["in_range"][2] - math.pi)
        mod.detect_tilt(a[0], a[1], a[2])
        # constructors are mutual inverses of the extractors on their own output
        U = mod.rod_to_u(p["rod"])
        if oracle.rotation_angle_deg(U) <= 180 - 1e-5:
            try:
                r = mod.u_to_rod(U)
                nr = float(np.linalg.norm(p["rod"]))
                mon.close("workload:%s.u_to_rod(rod_to_u(r))=r" % m, r, p["rod"], rtol=0, atol=1e-6 * (1 + nr * nr) * max(1.0, nr))
            except Exception as exc:
                mon.check("workload:%s.u_to_rod raises on a proper rotation" % m, False, observed=repr(exc), detail={"U": U})


def _band(delta):
    if delta is None:
        return "generic"
    if delta < 1e-8:
        return "<1e-8"
    if delta < 1e-5:
        return "1e-8..1e-5"
    return "1e-5..1e-3"


def case_invert(ctx, p):
    mon = ctx.mon
    U = np.array(p["U"], float)
    mon.config("stratum:" + p["stratum"])
    if p["stratum"].startswith("gimbal"):
        mon.config("gimbal-band:" + _band(p["delta"]))
    if p["stratum"] != "axis_aligned":
        mon.nontriv("invert", U)
    for mod, m in ((ctx.T, "tools"), (ctx.L, "laue")):
        for arg in (U, gen.as_form(U, int(abs(U[0, 1]) * 1e9))):
            try:
                mod.u_to_euler(arg)
            except Exception as exc:
                mon.check("workload:%s.u_to_euler raises on a proper rotation" % m, False, observed=repr(exc),
                          detail={"U": U, "stratum": p["stratum"], "delta": p["delta"]})
            else:
                mon.check("workload:%s.u_to_euler raises on a proper rotation" % m, True)
        if oracle.rotation_angle_deg(U) <= 180 - 1e-5:
            try:
                mod.u_to_rod(U)
            except Exception as exc:
                mon.check("workload:%s.u_to_rod raises on a proper rotation" % m, False, observed=repr(exc), detail={"U": U})
            else:
                mon.check("workload:%s.u_to_rod raises on a proper rotation" % m, True)


CASES = {"build": case_build, "invert": case_invert}
