"""C04 - each tabulated space group is a group consistent with its metadata and names."""
import hashlib

import numpy as np

from vfw import contracts, observe, sgexact as sx

ID = "C04"
EXHAUSTIVE = True
RULE = ("exhaustive: all 230 numbers x {standard, rhombohedral} requested by number (237 distinct tables), every key of the "
        "name dictionary in several spelling variants (case, blanks, tabs, R..h / R..r), in shuffled then reversed order so "
        "that every R group is requested in both settings in both orders within one process; every instance created passes "
        "through the class invariant (exact integer group arithmetic); non-trivial = table with more than one operation; "
        "distinct = distinct table content (digest)")
ASSUMPTIONS = ["translations are multiples of 1/24 rounded to 6 digits (snapped within 2e-6)",
               "standard settings only (monoclinic unique axis b, hexagonal axes for trigonal P groups), as xfab.sglib states",
               "number -> crystal system / Laue class / centring letter expectations are standard ITA knowledge written in the harness"]
FLOORS = {"invariant:sg.sg group axioms": 237, "sweep:by-number request honoured": 460, "sweep:name lookup equals number lookup": 900}
R_GROUPS = (146, 148, 155, 160, 161, 166, 167)
_L31M = (149, 151, 153, 157, 159, 162, 163)


def expected_system(no):
    for hi, name in ((2, "triclinic"), (15, "monoclinic"), (74, "orthorhombic"), (142, "tetragonal"),
                     (167, "trigonal"), (194, "hexagonal"), (230, "cubic")):
        if no <= hi:
            return name


def expected_laue(no, setting):
    if no <= 2:
        return "-1"
    if no <= 15:
        return "2/m"
    if no <= 74:
        return "mmm"
    if no <= 88:
        return "4/m"
    if no <= 142:
        return "4/mmm"
    if no <= 148:
        return "-3"
    if no <= 167:
        if setting == "rhombohedral":
            return "-3m"
        return "-31m" if no in _L31M else "-3m1"
    if no <= 176:
        return "6/m"
    if no <= 194:
        return "6/mmm"
    if no <= 206:
        return "m-3"
    return "m-3m"


def digest(o):
    h = hashlib.blake2b(digest_size=8)
    h.update(repr((o.name, o.no, o.crystal_system, o.nsymop, o.nuniq, o.Laue, o.cell_choice)).encode())
    for a in (o.rot, o.trans, o.syscond):
        h.update(np.ascontiguousarray(np.asarray(a, float)).tobytes())
    return h.hexdigest()


_memo = {}


def check_instance(mon, o):
    """the class invariant: exact group axioms + agreement with the instance's own metadata"""
    name = "invariant:sg.sg group axioms"
    meta = "invariant:sg.sg metadata agrees with operations"
    try:
        d = digest(o)
    except Exception as exc:
        mon.check(name, False, observed=repr(exc), expected="well-formed instance")
        return
    mon.config("instantiated:sg%s/%s" % (o.no, o.cell_choice))
    if d in _memo:
        # same content already judged in this process; count the sighting, reuse the verdict
        for mname, ok, detail in _memo[d]:
            mon.check(mname, ok, detail=detail, observed=None if ok else "%s (%s)" % (o.name, o.cell_choice))
        return
    out = []
    rot = np.asarray(o.rot)
    trans = np.asarray(o.trans)
    ops, problems = sx.ops_of(rot, trans)
    if len(rot) != o.nsymop or len(trans) != o.nsymop:
        problems.append("len(rot)=%d len(trans)=%d but nsymop=%d" % (len(rot), len(trans), o.nsymop))
    if not problems:
        problems += sx.group_problems(ops)
    out.append((name, not problems, "; ".join(problems)[:600] or None))
    mp = []
    if ops and len(ops) == len(rot):
        rots = [R for R, _ in ops]
        distinct = sx.point_rotations(ops)
        nu = o.nuniq
        if len(set(rots[:nu])) != nu:
            mp.append("first nuniq=%d rotations are not distinct" % nu)
        if set(rots[:nu]) != set(distinct):
            mp.append("first nuniq rotations are not the set of all %d rotations" % len(distinct))
        ncen = sum(1 for R, t in ops if R == sx.I3)
        if o.nsymop != nu * ncen:
            mp.append("nsymop=%d != nuniq=%d x %d centring translations" % (o.nsymop, nu, ncen))
        pm = set(distinct) | set(sx.neg(R) for R in distinct)
        order = sx.LAUE_ORDER.get(o.Laue)
        if order is None:
            mp.append("unknown Laue class %r" % (o.Laue,))
        else:
            if len(pm) != order:
                mp.append("rotations +- inversion have order %d, Laue class %s has %d" % (len(pm), o.Laue, order))
            lg = sx.laue_group(o.Laue, o.cell_choice)
            if lg is not None and pm != lg:
                mp.append("rotations +- inversion are not the Laue group %s in the %s setting" % (o.Laue, o.cell_choice))
        basis = sx.metric_basis(o.crystal_system, o.cell_choice)
        if basis is None:
            mp.append("unknown crystal system %r" % (o.crystal_system,))
        else:
            for R in distinct:
                for G in basis:
                    if not sx.preserves(R, G):
                        mp.append("rotation %s does not preserve the conforming metric %s" % (R, G))
                        break
                else:
                    continue
                break
        sc = np.asarray(o.syscond)
        if sc.shape != (26,):
            mp.append("syscond has shape %s" % (sc.shape,))
    else:
        mp.append("operations malformed")
    out.append((meta, not mp, "; ".join(mp)[:600] or None))
    _memo[d] = out
    for mname, ok, detail in out:
        mon.check(mname, ok, detail=detail, observed=None if ok else "%s (%s)" % (o.name, o.cell_choice))
    if o.nsymop > 1:
        mon.nontriv(d)
    mon.extra.setdefault("tables", {})[d] = 1
    mon.extra["operations_checked"] = mon.extra.get("operations_checked", 0) + int(o.nsymop)


class Table(object):
    """the tabulated group read straight from the xfab.sglib class (not through xfab.sg.sg): the oracles of C07, C08,
    C15 and C17 take their operations from here, so that a lookup / routing / caching defect in xfab.sg cannot make
    the oracle agree with the code under test"""
    def __init__(self, no, setting):
        from xfab import sglib
        obj = getattr(sglib, "Sg%d" % no)(cell_choice="rhombohedral" if setting == "rhombohedral" else "standard")
        self.no, self.name, self.crystal_system, self.Laue = obj.no, obj.name, obj.crystal_system, obj.Laue
        self.nsymop, self.nuniq, self.cell_choice = obj.nsymop, obj.nuniq, obj.cell_choice
        self.rot, self.trans, self.syscond = np.array(obj.rot), np.array(obj.trans), np.array(obj.syscond)


_NAME_INDEX = None


def name_index():
    """spelling -> (number, setting), built from the names the 230 sglib classes carry themselves (not from sg.sgdic):
    the standard name, for R groups also name+'h', and the name of the rhombohedral setting"""
    global _NAME_INDEX
    if _NAME_INDEX is None:
        from xfab import sglib
        idx = {}
        for no in range(1, 231):
            klass = getattr(sglib, "Sg%d" % no, None)
            if klass is None:
                continue
            try:
                std = "".join(str(klass(cell_choice="standard").name).split()).lower()
                rh = "".join(str(klass(cell_choice="rhombohedral").name).split()).lower()
            except Exception:
                continue
            for k, setting in ((std, "standard"), (std + "h", "standard"), (rh, "rhombohedral" if rh != std else "standard")):
                if k == std + "h" and no not in R_GROUPS:
                    continue
                idx.setdefault(k, set()).add((no, setting))
        _NAME_INDEX = idx
    return _NAME_INDEX


def spell(name, k):
    """the same accepted name as a user may type it: as stored, capitalised as in the tables (R-3cr), upper case, with blanks"""
    name = str(name)
    k = int(k) % 5
    if k == 0:
        return name
    if k == 1:
        return name[:1].upper() + name[1:].lower()
    if k == 2:
        return name.upper()
    if k == 3:
        return name[:1].upper() + " " + name[1:].lower()
    return name[:1].lower() + name[1:-1].lower() + name[-1:].upper() if len(name) > 1 else name


def key_number(sgmod, key):
    """the space-group number an accepted name stands for: taken from the table the public lookup returns for it (the
    value stored in the name dictionary - 'Sg14', 14, a class ... - is an implementation detail)"""
    return int(sgmod.sg(sgname=key).no)


def table_by_name(key):
    """name -> Table.  The name is resolved through the names the sglib classes carry (so that a wrong entry of sg.sgdic
    cannot hide from the oracles of C07, C08, C15, C17); sg.sgdic is used only for a spelling no class answers to"""
    k = "".join(str(key).split()).lower()
    hit = name_index().get(k, ())
    if len(hit) == 1:
        no, setting = next(iter(hit))
        return Table(no, setting)
    from xfab import sg as sgmod
    return Table(key_number(sgmod, k), "rhombohedral" if (k[0] == "r" and k[-1] == "r") else "standard")


def install_invariant(ctx):
    """used by every property whose workload instantiates space groups"""
    from xfab import sg as sgmod
    mon = ctx.mon

    def sg_is_group(self):
        check_instance(mon, self)
        ctx.hold_object("sg.sg(%s)" % getattr(self, "no", "?"), self, ("rot", "trans", "syscond"))
    c = contracts.invariant(sgmod, "sg", sg_is_group)
    ctx.counters["sg.sg(invariant)"] = c
    return c


def setup(ctx):
    from xfab import sg as sgmod, sglib
    ctx.sgmod, ctx.sglib = sgmod, sglib
    observe.watch("sg.sg.__init__", sgmod.sg.__init__)
    install_invariant(ctx)
    ctx.first = {}


def _variants(key, rng, n):
    out = [key, key.upper(), key.capitalize()]
    while len(out) < n:
        s = ""
        for ch in key:
            s += ch.upper() if rng.random() < 0.5 else ch
            r = rng.random()
            if r < 0.25:
                s += " "
            elif r < 0.32:
                s += "\t"
            elif r < 0.36:
                s += "  "
        if rng.random() < 0.3:
            s = " " + s
        if rng.random() < 0.3:
            s = s + " \t"
        out.append(s)
    return out


def workload(ctx):
    from xfab import sg as sgmod
    rng = ctx.rng(1)
    reqs = [("by_number", {"no": no, "cell_choice": cc}) for no in range(1, 231) for cc in ("standard", "rhombohedral")]
    nvar = ctx.n(4, 40)
    for key in sorted(sgmod.sgdic):
        for v in _variants(key, rng, nvar):
            reqs.append(("by_name", {"key": key, "spelling": v, "cell_choice": "standard"}))
        if key[0] == "r":
            reqs.append(("by_name", {"key": key, "spelling": key.upper(), "cell_choice": "rhombohedral"}))
    for key in sorted(sgmod.sgdic):
        reqs.append(("dict_entry", {"key": key}))
    order = rng.permutation(len(reqs))
    shuffled = [reqs[i] for i in order]
    # shuffled, then the same requests reversed: every R group is asked for in both settings in both orders
    for r in shuffled + shuffled[::-1]:
        yield r


def _request_expectations(mon, o, no, setting_requested, label):
    name = "sweep:by-number request honoured" if label == "number" else "sweep:by-name request honoured"
    bad = []
    if o.no != no:
        bad.append("no=%r for request %d" % (o.no, no))
    if no in R_GROUPS:
        want = "rhombohedral" if setting_requested == "rhombohedral" else "hexagonal"
        cen = 1 if setting_requested == "rhombohedral" else 3
    else:
        want = "standard"
        cen = {"p": 1, "a": 2, "b": 2, "c": 2, "i": 2, "f": 4}.get(str(o.name).strip().lower()[:1])
    if o.cell_choice != want:
        bad.append("cell_choice=%r, requested setting implies %r" % (o.cell_choice, want))
    if cen is not None and o.nsymop != o.nuniq * cen:
        bad.append("nsymop=%d nuniq=%d: expected %d centring translation(s) for %s in the %s setting" % (
            o.nsymop, o.nuniq, cen, o.name, want))
    if o.crystal_system != expected_system(no):
        bad.append("crystal_system=%r, number %d is %s" % (o.crystal_system, no, expected_system(no)))
    if o.Laue != expected_laue(no, want):
        bad.append("Laue=%r, number %d (%s) has Laue class %s" % (o.Laue, no, want, expected_laue(no, want)))
    basis = sx.metric_basis(expected_system(no), want)
    ops, problems = sx.ops_of(o.rot, o.trans)
    for R in sx.point_rotations(ops):
        if any(not sx.preserves(R, G) for G in basis):
            bad.append("a rotation does not preserve the metric of the requested setting (%s)" % want)
            break
    mon.check(name, not bad, detail="; ".join(bad) or None, observed=None if not bad else "%s/%s" % (o.name, o.cell_choice))


def _stable(ctx, key, o):
    """the same request must give the same content whatever was requested before"""
    d = digest(o)
    first = ctx.first.setdefault(key, d)
    ctx.mon.check("sweep:same request gives same table regardless of history", first == d,
                  observed=None if first == d else d, expected=None if first == d else first, detail=None if first == d else repr(key))
    return d


def case_by_number(ctx, p):
    if p["no"] % 3 == 0:
        o = ctx.sgmod.sg(p["no"], None, p["cell_choice"])          # documented positional order (sgno, sgname, cell_choice)
        ctx.mon.config("call form: positional")
    else:
        o = ctx.sgmod.sg(sgno=p["no"], cell_choice=p["cell_choice"])
    _request_expectations(ctx.mon, o, p["no"], p["cell_choice"], "number")
    _stable(ctx, ("no", p["no"], p["cell_choice"]), o)
    ctx.mon.config("requested-by-number:%s" % p["cell_choice"])


def case_by_name(ctx, p):
    mon = ctx.mon
    key = p["key"]
    no = key_number(ctx.sgmod, key)
    rh = (key[0] == "r" and key[-1] == "r") or p["cell_choice"] == "rhombohedral"
    setting = "rhombohedral" if rh else "standard"
    try:
        if len(p["spelling"]) % 3 == 0:
            o = ctx.sgmod.sg(None, p["spelling"], p["cell_choice"])
            mon.config("call form: positional")
        else:
            o = ctx.sgmod.sg(sgname=p["spelling"], cell_choice=p["cell_choice"])
    except Exception as exc:
        mon.check("sweep:name lookup equals number lookup", False, observed=repr(exc), detail=repr(p["spelling"]))
        return
    _request_expectations(mon, o, no, setting, "name")
    ref = ctx.sgmod.sg(sgno=no, cell_choice=setting)
    same = digest(o) == digest(ref)
    fields = []
    if not same:
        for f in ("name", "no", "crystal_system", "nsymop", "nuniq", "Laue", "cell_choice"):
            if getattr(o, f) != getattr(ref, f):
                fields.append("%s: %r vs %r" % (f, getattr(o, f), getattr(ref, f)))
        for f in ("rot", "trans", "syscond"):
            a, b = np.asarray(getattr(o, f)), np.asarray(getattr(ref, f))
            if a.shape != b.shape or not np.array_equal(a, b):
                fields.append("%s differs" % f)
    mon.check("sweep:name lookup equals number lookup", same, detail="; ".join(fields) or None,
              observed=None if same else repr(p["spelling"]), expected=None if same else "sg(sgno=%d, cell_choice=%r)" % (no, setting))
    _stable(ctx, ("name", p["spelling"], p["cell_choice"]), o)
    mon.config("requested-by-name:%s" % setting)


def case_dict_entry(ctx, p):
    """every accepted name is a spelling of the name carried by the table it leads to, and that table's own name leads back to
    it (through the public lookup: how the name dictionary stores its targets is the library's business)"""
    mon = ctx.mon
    key = p["key"]
    no = key_number(ctx.sgmod, key)
    klass_name = "Sg%d" % no
    bad = []
    klass = getattr(ctx.sglib, klass_name, None)
    if klass is None:
        bad.append("no class %s" % klass_name)
    else:
        for cc in ("standard", "rhombohedral"):
            obj = klass(cell_choice=cc)
            if obj.no != no:
                bad.append("%s(cell_choice=%r).no = %r" % (klass_name, cc, obj.no))
            try:
                back = ctx.sgmod.sg(sgname=str(obj.name)).no
            except Exception as exc:
                back = repr(exc)
            if back != no:
                bad.append("name %r of %s does not lead back to it (sg(sgname=%r).no = %r)" % (obj.name, klass_name, obj.name, back))
    if klass is not None:
        # the key itself must be a spelling of the name the class carries (R groups: bare, ...h or ...r)
        std = "".join(str(klass(cell_choice="standard").name).split()).lower()
        rh = "".join(str(klass(cell_choice="rhombohedral").name).split()).lower()
        if key not in (std, std + "h", rh):
            bad.append("key %r points to %s, whose name is %r / %r" % (key, klass_name, std, rh))
    mon.check("sweep:dictionary entry consistent with its class", not bad, detail="; ".join(bad) or None, observed=None if not bad else key)


CASES = {"by_number": case_by_number, "by_name": case_by_name, "dict_entry": case_dict_entry}


def finish(ctx):
    ctx.mon.extra["distinct_tables_seen"] = len(ctx.mon.extra.get("tables", {}))
    ctx.mon.extra.pop("tables", None)
