"""C05 - genhkl_all returns exactly the reflections the space group allows in the shell."""
from collections import Counter

import numpy as np

from vfw import hkl, observe, oracle, sgexact as sx
from vfw.props import c04

ID = "C05"
RULE = ("all 237 group settings in every run; conforming cells (triclinic: oblique and orthogonal metric; monoclinic: beta in [60,135] "
        "and 90; rhombohedral: alpha in [50,115] and 60/90/109.47; others random within the system); shells holding ~30-600 lattice "
        "points, sintlmin 0 or random, both bounds placed mid-gap (>= 2e-6 relative) between distinct lattice radii; genhkl_all called "
        "by number and by name under different numpy.random seeds and with the generator state left as it was; R groups in both "
        "settings; tools and laue; non-trivial = shell with >= 3 allowed families; distinct = distinct (setting, cell, shell)")
ASSUMPTIONS = ["oracle: every integer h != 0 in a bounding box of the shell, extinct iff some (R,t) of the live table has hR=h and h.t not integer (exact integers); tables are under the C04 invariant in this run",
               "the trace of sysabs/sintl calls (the row-walk) is used to explain a discrepancy, never to excuse one: only 'no member of the family was visited' can map to the open finding, and only in Laue -1, 2/m (non-R) and rhombohedral -3, -3m, and only if the frozen as-found visit sequence does not visit the family either",
               "shell bounds (and 1.1 x sintlmax for rhombohedral -3) are >= 1e-6 away from any lattice radius"]
FLOORS = {"history:genhkl_all = allowed reflections in shell": 237, "history:independent of numpy random state, name = number": 237,
          "invariant:sg.sg group axioms": 237}
WORKERS = {"quick": 8, "thorough": 16}
BUDGET = {"quick": 300, "thorough": 2700}
FINDING = "C05-rowwalk-early-exit"


def setup(ctx, finding=FINDING):
    from xfab import tools, laue, sg as sgmod
    ctx.T, ctx.L, ctx.sgmod = tools, laue, sgmod
    ctx.finding = finding
    c04.install_invariant(ctx)
    ctx.trace = {"tools": hkl.Trace(), "laue": hkl.Trace()}
    ctx.trace["tools"].install(tools)
    ctx.trace["laue"].install(laue)
    for m, mod in (("tools", tools), ("laue", laue)):
        for f in ("genhkl_all", "genhkl_unique", "genhkl_base", "sysabs", "sysabs_unique"):
            observe.watch("%s.%s" % (m, f), getattr(mod, f))
        for f in ("genhkl_all", "genhkl_unique"):
            ctx.hold(mod, f)            # returned lists: unchanged until the end of the case, then scribbled over


def gen_cases(ctx, kind):
    """every one of the 237 settings in every pass; rare (Laue class, setting) classes are repeated so that each class
    gets at least 12 (quick) / 60 (thorough) cases per run"""
    from xfab import sg as sgmod
    rng = ctx.rng(1)
    sets = hkl.settings()
    cls = {}
    for (no, cc) in sets:
        o = sgmod.sg(sgno=no, cell_choice=cc)
        cls.setdefault((o.Laue, o.cell_choice == "rhombohedral"), []).append((no, cc))
    reps = ctx.n(1, 60)
    plan = []
    for rep in range(reps):
        for (no, cc) in sets:
            plan.append((rep, no, cc))
    floor = ctx.n(12, 240)
    for key, members in sorted(cls.items()):
        have = len(members) * reps
        k = 0
        # the rhombohedral walks (own segment tables, the 1.1 look-ahead factor, the open finding's classifier) get 4x the cases
        while have < (floor * 4 if key[1] else floor):
            no, cc = members[k % len(members)]
            plan.append((reps + k // len(members), no, cc))
            have += 1
            k += 1
    variants = ["generic", "orth", "pseudo", "long"]
    for idx, (rep, no, cc) in enumerate(plan):
        s = int(rng.integers(0, 2 ** 31))
        target = int(rng.integers(30, 300 if ctx.tier == "quick" else 600))
        variant = variants[(rep + no + ctx.seed) % 4]
        if variant == "long":
            target = int(rng.integers(500, 900))
        big = ctx.thorough() and rep in (1, 2, 3)
        if ctx.mine(idx):
            q = {"no": no, "cc": cc, "variant": ["generic", "orth", "pseudo"][rep % 3] if big else variant, "s": s,
                 "target": 2500 if big else target,
                 "want_min": bool((rep + no) % 3 == 0),
                 "module": "laue" if (idx + rep) % 3 == 0 else "tools"}
            yield kind, q
            if (idx + ctx.seed) % 9 == 0 and not big:
                yield kind, dict(q, empty=1 + (idx // 9) % 2, target=60)          # empty shells are valid shells
            if cc == "rhombohedral" and not big:
                # the same cell with four more cut-offs: whether a row of the rhombohedral walk ends early depends on where
                # sintlmax falls between two lattice radii
                for extra in range(8 if no in (146, 148) else 4):
                    yield kind, dict(q, target=int(40 + (s // (extra + 1)) % 700), want_min=False)


def workload(ctx):
    return gen_cases(ctx, "all")


def prepare(ctx, p):
    """group, cell, shell and oracle of a case; None if no admissible shell exists"""
    rng = np.random.default_rng(p["s"])
    o = ctx.sgmod.sg(sgno=p["no"], cell_choice=p["cc"])
    ops, problems = sx.ops_of(o.rot, o.trans)
    if problems:
        return None
    cell = hkl.cell_for(rng, o.crystal_system, o.cell_choice, p["variant"])
    rhomb = o.cell_choice == "rhombohedral"
    if p["variant"] == "long":
        p = dict(p, target=max(p["target"], 500))
    target = p["target"]
    if target < 2500:
        # the walk only visits one asymmetric unit: for high symmetry a much larger shell costs the same
        target = int(min(2500, target * max(1, sx.LAUE_ORDER.get(o.Laue, 2) // 4)))
    shell = hkl.choose_shell(rng, cell, target, p["want_min"], avoid_scale=1.1 if (rhomb and o.Laue == "-3") else None)
    if shell is None:
        return None
    smin, smax = shell
    if p.get("empty"):
        # a shell that holds no allowed reflection: below the first one, or inside a gap between two lattice radii
        H0, s0 = hkl.lattice_points(cell, smax)
        radii = np.unique(np.round(s0, 12))
        if p["empty"] == 1 and len(radii):
            smin, smax = 0.0, 0.5 * float(radii[0])
        elif len(radii) > 3:
            k = int(rng.integers(1, len(radii) - 1))
            lo, hi = float(radii[k]), float(radii[k + 1])
            if hi - lo > 4e-6 * hi:
                smin, smax = lo + 0.25 * (hi - lo), lo + 0.75 * (hi - lo)
    orc = hkl.Oracle(ops, cell, smin, smax)
    # the cell as the caller holds it: one object (list or float64 array) handed to every call of the case
    held = np.array(cell, float) if p["s"] % 3 else list(cell)
    return {"o": o, "ops": ops, "cell": cell, "held": held, "smin": smin, "smax": smax, "orc": orc, "rhomb": rhomb, "rng": rng}


def cell_untouched(ctx, c, label):
    same = bool(np.array_equal(np.asarray(c["held"], float), np.asarray(c["cell"], float)))
    ctx.mon.check("pure:genhkl leaves the caller's cell as it was", same, observed=None if same else c["held"],
                  expected=None if same else c["cell"], detail=label)


def rows_to_tuples(rows):
    a = np.asarray(rows, float)
    if a.ndim != 2 or a.shape[1] < 3:
        return None, "shape %s" % (a.shape,)
    if a.size and (not np.all(np.isfinite(a[:, :3])) or np.max(np.abs(a[:, :3] - np.rint(a[:, :3]))) > 0):
        return None, "indices are not integer valued"
    return [tuple(int(v) for v in r[:3]) for r in a], None


def explain_missing_families(ctx, c, trace, missing, smax=None):
    """-> (known, problems): families (sets of members) that only the open finding explains / everything else"""
    o, orc = c["o"], c["orc"]
    smax = c["smax"] if smax is None else smax
    known, problems = [], []
    fams = {}
    for h in missing:
        fams.setdefault(orc.member_key.get(h), set()).add(h)
    frozen = None
    for k, members in fams.items():
        full = orc.families.get(k, frozenset(members))
        if set(members) != set(full):
            problems.append("family of %s partly returned (%d of %d members missing)" % (sorted(full)[-1], len(members), len(full)))
            continue
        visited = [h for h in full if h in trace.accepted or h in trace.rejected]
        if visited:
            rej = [(h, trace.rejected[h]) for h in visited if h in trace.rejected]
            if rej:
                problems.append("allowed family of %s rejected by sysabs (type %d at %s)" % (sorted(full)[-1], rej[0][1], rej[0][0]))
            else:
                problems.append("family of %s visited and accepted but not returned" % (sorted(full)[-1],))
            continue
        if (o.Laue, c["rhomb"]) in hkl.FINDING_CLASSES and o.cell_choice != "hexagonal":
            if frozen is None:
                frozen = hkl.frozen_visits(c["cell"], o.Laue, c["rhomb"], smax)
            if frozen is not None and not any(h in frozen for h in full):
                known.append(sorted(full)[-1])
                continue
            # a row or layer start that ties with the bound may come out one ulp above it in the subject's own sintl: same mechanism
            tied = hkl.frozen_visits(c["cell"], o.Laue, c["rhomb"], smax, ties_out_except=set(full))
            if frozen is not None and tied is not None and not any(h in tied for h in full):
                known.append(sorted(full)[-1])
                ctx.mon.config("row-walk finding recognised through a tie at the bound")
                continue
            problems.append("family of %s never visited by the row-walk although the as-found walk visits it" % (sorted(full)[-1],))
        else:
            problems.append("family of %s never visited by the row-walk (Laue %s, %s)" % (sorted(full)[-1], o.Laue, o.cell_choice))
    return known, problems


def judge_all(ctx, c, rows, trace, name, label):
    """compare a genhkl_all result with the oracle; returns the set of returned tuples (or None)"""
    mon = ctx.mon
    o, orc = c["o"], c["orc"]
    tup, err = rows_to_tuples(rows)
    where = {"group": "%s (no %d, %s)" % (o.name, o.no, o.cell_choice), "cell": c["cell"], "shell": [c["smin"], c["smax"]], "call": label}
    if tup is None:
        mon.check(name, False, observed=err, detail=where)
        return None
    cnt = Counter(tup)
    got = set(cnt)
    problems = []
    dups = [h for h, n in cnt.items() if n > 1]
    if dups:
        problems.append("%d reflections repeated, e.g. %s x%d" % (len(dups), dups[0], cnt[dups[0]]))
    extra = got - orc.allowed
    if extra:
        ext_in = [h for h in extra if h in orc.all_in_shell]
        out = [h for h in extra if h not in orc.all_in_shell]
        if ext_in:
            h = sorted(ext_in)[-1]
            problems.append("%d extinct reflections returned, e.g. %s (sysabs said %s)" % (
                len(ext_in), h, "allowed" if h in trace.accepted else "not asked"))
        if out:
            problems.append("%d reflections outside the shell or 000 returned, e.g. %s (stl %.6f)" % (
                len(out), out[0], oracle.stl(c["cell"], out[0])))
    missing = orc.allowed - got
    known, mp = explain_missing_families(ctx, c, trace, missing)
    problems += mp[:4]
    if len(mp) > 4:
        problems.append("... %d more missing families" % (len(mp) - 4))
    if orc.mixed:
        problems.append("oracle: a Laue family mixes extinct and allowed members (tables inconsistent): %s" % (orc.mixed[0][:2],))
    ok = not problems and not known
    mon.check(name, ok, observed=None if ok else ("; ".join(problems) if problems else "%d allowed families never visited by the row-walk, e.g. %s" % (len(known), known[0])),
              expected=None if ok else "%d allowed reflections (%d lattice points in shell, %d extinct)" % (len(orc.allowed), len(orc.H), orc.n_extinct),
              detail=None if ok else where, finding=ctx.finding if (known and not problems) else None)
    return got, set(h for k in known for h in orc.families[orc.member_key[k]])


def case_all(ctx, p):
    mon = ctx.mon
    c = prepare(ctx, p)
    if c is None:
        mon.config("skipped:no admissible shell")
        return
    o, orc = c["o"], c["orc"]
    m = p["module"]
    mod = ctx.T if m == "tools" else ctx.L
    tr = ctx.trace[m]
    mon.config("setting:%d/%s" % (o.no, o.cell_choice))
    mon.config("laue:%s%s" % (o.Laue, "(rh)" if c["rhomb"] else ""))
    mon.config("variant:" + p["variant"])
    mon.config("module:" + m)
    mon.extra["lattice_points_judged"] = mon.extra.get("lattice_points_judged", 0) + len(orc.H)
    mon.extra["extinct_lattice_points_seen"] = mon.extra.get("extinct_lattice_points_seen", 0) + orc.n_extinct
    if orc.n_extinct:
        mon.config("settings-with-extinct-points-in-shell")
    if len(orc.families) >= 3:
        mon.nontriv(o.no, o.cell_choice, c["cell"], c["smin"], c["smax"])
    name = "history:genhkl_all = allowed reflections in shell"
    tr.reset()
    tr.on = True
    np.random.seed(int(c["rng"].integers(0, 2 ** 31)))
    try:
        rows = mod.genhkl_all(c["held"], c["smin"], c["smax"], sgno=o.no, cell_choice=p["cc"])
    except Exception as exc:
        mon.check(name, False, observed=repr(exc), detail={"group": o.name, "cell": c["cell"], "shell": [c["smin"], c["smax"]]})
        tr.on = False
        return
    finally:
        tr.on = False
    mon.extra["rowwalk_points_visited"] = mon.extra.get("rowwalk_points_visited", 0) + len(tr.visited)
    res = judge_all(ctx, c, rows, tr, name, "%s.genhkl_all by number" % m)
    if res is None:
        return
    got, known_missing = res
    # --- independence of numpy's global random state; name = number -------------------------------------------------
    name2 = "history:independent of numpy random state, name = number"
    try:
        np.random.seed(int(c["rng"].integers(0, 2 ** 31)))
        if c["rhomb"] and p["s"] % 2:
            # the other documented way to ask for the rhombohedral setting: plain name + explicit cell_choice
            plain = o.name[:-1] if o.name[-1:] in "rR" else o.name
            r2 = mod.genhkl_all(c["held"], c["smin"], c["smax"], sgname=plain, cell_choice="rhombohedral")
        else:
            r2 = mod.genhkl_all(c["held"], c["smin"], c["smax"], sgname=o.name)
        r3 = mod.genhkl_all(c["held"], c["smin"], c["smax"], sgno=o.no, cell_choice=p["cc"], output_stl=True)   # state left as it is
        cell_untouched(ctx, c, "%s.genhkl_all" % m)
    except Exception as exc:
        mon.check(name2, False, observed=repr(exc))
        return
    for label, r in (("by name, other seed", r2), ("generator state left as it was, output_stl=True", r3)):
        t2, err = rows_to_tuples(r)
        ok = t2 is not None and Counter(t2) == Counter(rows_to_tuples(rows)[0])
        mon.check(name2, ok, observed=None if ok else (err or "%d rows vs %d; symmetric difference e.g. %s" % (
            len(t2), len(got), sorted(set(t2) ^ got)[:3])), detail=None if ok else {"group": o.name, "call": label, "cell": c["cell"], "shell": [c["smin"], c["smax"]]})
    # --- R-centred groups: hexagonal and rhombohedral settings describe the same reflections ----------------------------
    if c["rhomb"]:
        hexcell = hkl.rhomb_to_hex(c["cell"])
        oh = ctx.sgmod.sg(sgno=o.no, cell_choice="standard")
        opsh, _ = sx.ops_of(oh.rot, oh.trans)
        orch = hkl.Oracle(opsh, hexcell, c["smin"], c["smax"])
        mapped = set(hkl.obverse(h) for h in orc.allowed)
        # (the hexagonal triple cell has integer points that are no lattice points of the R lattice; one of those may lie
        # within 1e-9 of a bound that was placed between the radii of the rhombohedral description - it is extinct either way)
        mon.check("history:R groups, oracle sets agree under the obverse transformation", mapped == orch.allowed,
                  observed=None if mapped == orch.allowed else sorted(mapped ^ orch.allowed)[:4], detail={"group": o.name, "cell": c["cell"]})
        tr.reset()
        tr.on = True
        try:
            rh = mod.genhkl_all(hexcell, c["smin"], c["smax"], sgno=o.no, cell_choice="standard")
        finally:
            tr.on = False
        ch = dict(c, o=oh, ops=opsh, cell=hexcell, orc=orch, rhomb=False)
        resh = judge_all(ctx, ch, rh, tr, name, "%s.genhkl_all hexagonal setting of the same lattice" % m)
        if resh is not None:
            goth, known_h = resh
            a = set(hkl.obverse(h) for h in got)
            diff = a ^ goth
            explained = set(hkl.obverse(h) for h in known_missing) | known_h
            un = diff - explained
            mon.check("history:R groups, hexagonal = rhombohedral under the obverse transformation", not un,
                      observed=None if not un else sorted(un)[:4], detail=None if not un else {"group": o.name, "cell": c["cell"], "shell": [c["smin"], c["smax"]]},
                      finding=None)


CASES = {"all": case_all}
