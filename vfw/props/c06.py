"""C06 - genhkl_unique lists one reflection per Laue family, sorted by true sintl."""
from collections import Counter

import numpy as np

from vfw import hkl, oracle
from vfw.props import c05

ID = "C06"
RULE = c05.RULE.replace("genhkl_all called by number and by name under different numpy.random seeds and with the generator state left as it was",
                        "genhkl_unique and genhkl_all called with output_stl True and False, plus two boundary calls per case built from "
                        "the function's own sintl of a returned row")
ASSUMPTIONS = ["families are the orbits of the brute-force allowed set under the point rotations of the live table and inversion (exact integers)",
               "column 4 is compared with |h|_G*/2 from the harness' reciprocal metric (1e-9 relative)",
               "boundary semantics are tested on the function's own numbers: sintlmax = stl of a returned row must keep it, sintlmin = that value must drop it; other families within 1e-9 of that bound are don't-care",
               "missing families are excused only by the open row-walk finding under the same three conditions as in C05"]
FLOORS = {"history:genhkl_unique has exactly one row per allowed Laue family": 237, "history:genhkl_all is the union of the families of genhkl_unique": 237,
          "history:rows sorted by sintl, column 4 = sintl of the row, integer indices": 474, "history:sintlmin exclusive, sintlmax inclusive": 300,
          "history:output_stl=False gives the same rows without column 4": 237}
WORKERS = c05.WORKERS
BUDGET = c05.BUDGET
FINDING = "C06-rowwalk-early-exit"


def setup(ctx):
    c05.setup(ctx, FINDING)


def workload(ctx):
    return c05.gen_cases(ctx, "unique")


def check_columns(mon, c, rows, label):
    """integer indices, column 4 = sintl, non-decreasing"""
    name = "history:rows sorted by sintl, column 4 = sintl of the row, integer indices"
    a = np.asarray(rows, float)
    where = {"group": c["o"].name, "cell": c["cell"], "shell": [c["smin"], c["smax"]], "call": label}
    if a.ndim != 2 or a.shape[1] != 4:
        mon.check(name, False, observed="shape %s" % (a.shape,), expected="(n, 4)", detail=where)
        return None
    if len(a) == 0:
        mon.check(name, True)
        return a
    bad = []
    if not np.all(np.isfinite(a)) or np.max(np.abs(a[:, :3] - np.rint(a[:, :3]))) > 0:
        bad.append("indices are not integer valued")
    else:
        Gs = oracle.recip_metric(c["cell"])
        s = 0.5 * np.sqrt(np.einsum("ij,jk,ik->i", a[:, :3], Gs, a[:, :3]))
        err = float(np.max(np.abs(a[:, 3] - s) / s))
        if err > 1e-9:
            i = int(np.argmax(np.abs(a[:, 3] - s) / s))
            bad.append("column 4 of row %s is %r, sintl is %r" % (a[i, :3].astype(int).tolist(), float(a[i, 3]), float(s[i])))
        if np.any(np.diff(a[:, 3]) < 0):
            i = int(np.argmax(np.diff(a[:, 3]) < 0))
            bad.append("not sorted: row %d has sintl %r, row %d has %r" % (i, float(a[i, 3]), i + 1, float(a[i + 1, 3])))
        if np.any(a[:, 3] <= c["smin"]) or np.any(a[:, 3] > c["smax"]):
            bad.append("a row lies outside (sintlmin, sintlmax]")
    mon.check(name, not bad, observed="; ".join(bad) or None, detail=None if not bad else where)
    return a


def case_unique(ctx, p):
    mon = ctx.mon
    c = c05.prepare(ctx, p)
    if c is None:
        mon.config("skipped:no admissible shell")
        return
    o, orc = c["o"], c["orc"]
    m = p["module"]
    mod = ctx.T if m == "tools" else ctx.L
    tr = ctx.trace[m]
    mon.config("setting:%d/%s" % (o.no, o.cell_choice))
    mon.config("laue:%s%s" % (o.Laue, "(rh)" if c["rhomb"] else ""))
    mon.config("variant:" + p["variant"])
    mon.config("module:" + m)
    mon.extra["families_judged"] = mon.extra.get("families_judged", 0) + len(orc.families)
    if len(orc.families) >= 3:
        mon.nontriv(o.no, o.cell_choice, c["cell"], c["smin"], c["smax"])
    where = {"group": "%s (no %d, %s)" % (o.name, o.no, o.cell_choice), "cell": c["cell"], "shell": [c["smin"], c["smax"]], "module": m}
    pos = ()
    if c["rhomb"] and p["s"] % 3 == 0:
        # the third documented way to ask for the rhombohedral setting: plain name + explicit cell_choice
        kw = dict(sgname=o.name[:-1] if o.name[-1:] in "rR" else o.name, cell_choice="rhombohedral")
        mon.config("call form: plain name + cell_choice")
    elif p["s"] % 5 == 4:
        # the optional arguments in their documented positional order (sgname, sgno, cell_choice)
        pos, kw = (None, o.no, p["cc"]), {}
        mon.config("call form: positional (None, number, cell_choice)")
    elif p["s"] % 2:
        kw = dict(sgno=o.no, cell_choice=p["cc"])
        mon.config("call form: number + cell_choice")
    else:
        kw = dict(sgname=o.name)
        mon.config("call form: name")
    name = "history:genhkl_unique has exactly one row per allowed Laue family"
    tr.reset()
    tr.on = True
    try:
        U = mod.genhkl_unique(c["held"], c["smin"], c["smax"], output_stl=True, *pos, **kw)
    except Exception as exc:
        mon.check(name, False, observed=repr(exc), detail=where)
        return
    finally:
        tr.on = False
    U = check_columns(mon, c, U, "%s.genhkl_unique" % m)
    if U is None:
        return
    ut, err = c05.rows_to_tuples(U)
    if ut is None:
        mon.check(name, False, observed=err, detail=where)
        return
    problems = []
    hits = Counter()
    for h in ut:
        k = orc.member_key.get(h)
        if k is None:
            problems.append("row %s is %s" % (h, "extinct" if h in orc.all_in_shell else "outside the shell"))
        else:
            hits[k] += 1
    twice = [k for k, n in hits.items() if n > 1]
    if twice:
        problems.append("%d families have more than one row, e.g. the family of %s" % (len(twice), sorted(orc.families[twice[0]])[-1]))
    missing = set(h for k, f in orc.families.items() if k not in hits for h in f)
    known, mp = c05.explain_missing_families(ctx, c, tr, missing)
    problems += mp[:4]
    ok = not problems and not known
    mon.check(name, ok, observed=None if ok else ("; ".join(problems[:5]) if problems else "%d allowed families never visited by the row-walk, e.g. %s" % (len(known), known[0])),
              expected=None if ok else "%d families" % len(orc.families), detail=None if ok else where,
              finding=FINDING if (known and not problems) else None)
    # --- genhkl_all is the union of those families -------------------------------------------------------------------------
    name = "history:genhkl_all is the union of the families of genhkl_unique"
    np.random.seed(int(c["rng"].integers(0, 2 ** 31)))
    try:
        A = mod.genhkl_all(c["held"], c["smin"], c["smax"], output_stl=True, *pos, **kw)
    except Exception as exc:
        mon.check(name, False, observed=repr(exc), detail=where)
        return
    A = check_columns(mon, c, A, "%s.genhkl_all" % m)
    if A is not None:
        at, err = c05.rows_to_tuples(A)
        want = Counter()
        pm = orc.pm
        for h in ut:
            for q in set(tuple(int(v) for v in (np.array(h) @ R)) for R in pm):
                want[q] += 1
        ok = at is not None and Counter(at) == want
        mon.check(name, ok, observed=None if ok else (err or "%d rows, union of families has %d; difference e.g. %s" % (
            len(at), sum(want.values()), sorted((Counter(at) - want) + (want - Counter(at)))[:3])), detail=None if ok else where)
        # every member of a family carries the sintl of its representative
        if at is not None and ok and len(A):
            smap = {h: s for h, s in zip(ut, U[:, 3])}
    # --- output_stl False ------------------------------------------------------------------------------------------------------------
    name = "history:output_stl=False gives the same rows without column 4"
    try:
        if p["s"] % 4 == 0:
            ctx.probe_alias(mod.genhkl_unique, c["held"], c["smin"], c["smax"], output_stl=True, *pos, **kw)
        U3 = np.asarray(mod.genhkl_unique(c["held"], c["smin"], c["smax"], *pos, **kw), float)
        c05.cell_untouched(ctx, c, "%s.genhkl_unique / genhkl_all" % m)
        ok = U3.shape == (len(U), 3) and bool(np.array_equal(U3, U[:, :3]))
        mon.check(name, ok, observed=None if ok else U3.shape, expected=None if ok else (len(U), 3), detail=None if ok else where)
    except Exception as exc:
        mon.check(name, False, observed=repr(exc), detail=where)
    # --- boundary semantics on the function's own numbers ------------------------------------------------------------------------------
    name = "history:sintlmin exclusive, sintlmax inclusive"
    if len(U) >= 2:
        for _ in range(2):
            i = int(c["rng"].integers(0, len(U)))
            h, s_i = ut[i], float(U[i, 3])
            fam = orc.families.get(orc.member_key.get(h))
            if fam is None:
                continue
            # the bound is the function's own number for this row.  Other lattice points of the same length (members of the
            # family, other families) may come out an ulp away from it in the subject's own sintl; inclusive / exclusive is
            # judged only when that arithmetic gives one and the same number for all of them (otherwise the bound lies within
            # 1e-9 of a lattice value that is not it: outside the quantifier)
            tied = orc.H[np.abs(orc.s - s_i) <= 1e-9 * s_i]
            try:
                own = set(float(mod.sintl(c["held"], np.array(t))) for t in tied)
            except Exception:
                own = set()
            if own != {s_i}:
                mon.config("boundary call not judged: the subject's sintl differs among lattice points of this length")
                continue
            mon.config("boundary call judged")
            tr.reset()
            tr.on = True
            try:
                upto = mod.genhkl_unique(c["held"], c["smin"], s_i, output_stl=True, *pos, **kw)
            finally:
                tr.on = False
            tu, _ = c05.rows_to_tuples(upto)
            inc = tu is not None and any(q in fam for q in tu)
            finding = None
            if not inc and tu is not None:
                # the shorter walk may lose the family through the open finding: same three conditions
                kn, pr = c05.explain_missing_families(ctx, c, tr, set(fam), smax=s_i)
                if kn and not pr:
                    finding = FINDING
            mon.check(name, inc, observed=None if inc else "row %s (sintl %r) not returned with sintlmax = %r" % (h, s_i, s_i),
                      detail=None if inc else where, finding=finding)
            frm = mod.genhkl_unique(c["held"], s_i, c["smax"], output_stl=True, *pos, **kw)
            tf, _ = c05.rows_to_tuples(frm)
            exc = tf is not None and not any(q in fam for q in tf)
            mon.check(name, exc, observed=None if exc else "row %s (sintl %r) still returned with sintlmin = %r" % (h, s_i, s_i),
                      detail=None if exc else where)


CASES = {"unique": case_unique}
