"""C07 - structure factors transform correctly under the space-group operations."""
import math

import numpy as np

from vfw import gen, oracle, observe, sgexact as sx
from vfw.props import c04

ID = "C07"
RULE = ("every name of the space-group dictionary (all 230 groups incl. R..h / R..r spellings), conforming random cell, 1-4 general-"
        "position atoms of random elements with Uiso in [0.005,0.08], random positive-definite Uani (CIF U_ij convention) or no ADP, "
        "occupancies in (0,1], hkl in [-8,8]^3; for each (group, atoms, h): F(h), F(hR) for the point operations (quick: up to 6 per h, "
        "thorough: all), F(-h); non-trivial = group with more than one operation; distinct = distinct (group, atoms, h)")
ASSUMPTIONS = ["operations (R,t) are read straight from the xfab.sglib class named by the dictionary entry (not through xfab.sg.sg; every sg.sg instance the code creates, which is under the C04 class invariant in this run",
               "tolerance (1e-9 + 2 pi |h|_1 1e-6 [group has thirds/sixths]) x sum occ.mult.(|f(0)|+|f'|+|f''|): the tables round thirds to 6 digits",
               "extinction is decided exactly: h extinct iff some (R,t) has hR=h and h.t not an integer"]
FLOORS = {"covariance:F(hR) = F(h) exp(-2 pi i h.t)": 1500, "covariance:F(-h) = conj F(h) without dispersion": 400,
          "covariance:extinct reflections have F = 0": 50, "invariant:sg.sg group axioms": 230}
WORKERS = {"quick": 4, "thorough": 16}
BUDGET = {"quick": 200, "thorough": 2400}
ELEMENTS = ["C", "N", "O", "SI", "FE", "CU", "MO", "PB", "U", "S", "CL", "NA"]


def random_uani(rng, cell):
    """positive-definite U tensor in the CIF convention, order [U11,U22,U33,U23,U13,U12]"""
    # build a PD Cartesian tensor, express it on the reciprocal-axis directions
    Q = oracle.quat_to_mat(rng.normal(size=4))
    Uc = Q @ np.diag(rng.uniform(0.005, 0.08, 3)) @ Q.T
    Gs = oracle.recip_metric(cell)
    B = oracle.upper_triangular_factor(Gs)          # columns: reciprocal axes in Cartesian coordinates
    N = B / np.linalg.norm(B, axis=0)               # unit vectors along a*, b*, c*
    # U_ij (CIF) is defined through  exp(-2 pi^2 sum_ij h_i h_j a*_i a*_j U_ij);  with Cartesian Uc:
    #   exponent = 2 pi^2 (B h)' Uc (B h)  =>  a*_i a*_j U_ij = (B' Uc B)_ij
    M = B.T @ Uc @ B
    astar = np.sqrt(np.diag(Gs))
    U = M / np.outer(astar, astar)
    return [float(U[0, 0]), float(U[1, 1]), float(U[2, 2]), float(U[1, 2]), float(U[0, 2]), float(U[0, 1])]


def make_atoms(structure, spec, symmulti):
    """atom_entry objects as a user holds them: positions and U_ij as list / tuple / float array / integer array
    (integral coordinates), chosen per atom from its own numbers"""
    out = []
    for n, a in enumerate(spec):
        k = int(abs(a["pos"][0]) * 1e6) + n
        pos = gen.as_form(a["pos"], k)
        adp = gen.as_form(a["adp"], k + 1) if isinstance(a["adp"], list) else a["adp"]
        out.append(structure.atom_entry(label=a["label"], atomtype=a["el"], pos=pos, adp_type=a["adp_type"],
                                        adp=adp, occ=a["occ"], symmulti=a.get("multi", symmulti)))
    return out


_ATOMS = {}


def F(ctx, h, cell, name, spec, symmulti, disper=None):
    """StructureFactor on atom objects that are built once per spec and then *reused* for every reflection of the case
    (as a user does); afterwards the objects must still hold the numbers they were built from"""
    key = id(spec)
    ent = _ATOMS.get(key)
    if ent is None or ent[0] is not spec:
        _ATOMS.clear()
        atoms = make_atoms(ctx.S, spec, symmulti)
        ent = _ATOMS[key] = (spec, atoms)
    atoms = ent[1]
    from vfw.props import c04
    r = ctx.S.StructureFactor(np.asarray(h), cell, c04.spell(name, int(abs(int(h[0])) + 3 * abs(int(h[1])) + len(spec))), atoms, disper)
    for a, at in zip(spec, atoms):
        same = bool(np.array_equal(np.asarray(at.pos, float), np.asarray(a["pos"], float)))
        if a["adp_type"] in ("Uiso", "Uani"):
            same = same and bool(np.array_equal(np.asarray(at.adp, float), np.asarray(a["adp"], float)))
        ctx.mon.check("pure:structure.StructureFactor leaves the atom list as it was", same,
                      observed=None if same else {"pos": at.pos, "adp": at.adp}, expected=None if same else {"pos": a["pos"], "adp": a["adp"]})
    return complex(r[0], r[1])


def scale_of(atomlib, spec, symmulti, disper):
    s = 0.0
    for a in spec:
        d = atomlib.formfactor[a["el"]]
        f0 = abs(sum(d[:4]) + d[8])
        dd = (disper or {}).get(a["el"]) or [0.0, 0.0]
        s += a["occ"] * a.get("multi", symmulti) * (f0 + abs(dd[0]) + abs(dd[1]))
    return s


def has_thirds(ops):
    return any(any(x % 3 != 0 for x in t) for _, t in ops)


def tol_of(scale, h, thirds):
    return (1e-9 + 2 * math.pi * float(np.sum(np.abs(h))) * 1e-6 * (1 if thirds else 0)) * scale


def setup(ctx):
    from xfab import structure, sg as sgmod, atomlib
    ctx.S, ctx.sgmod, ctx.A = structure, sgmod, atomlib
    c04.install_invariant(ctx)
    observe.watch("structure.StructureFactor", structure.StructureFactor)
    observe.watch("structure.Uij2betaij", structure.Uij2betaij)


def workload(ctx):
    from xfab import sg as sgmod
    rng = ctx.rng(1)
    names = sorted(sgmod.sgdic)
    reps = ctx.n(1, 10)
    idx = 0
    for rep in range(reps):
        for key in names:
            for kind in ("Uiso", "Uani", "none"):
                s = int(rng.integers(0, 2 ** 31))
                if ctx.tier == "quick" and kind == "none" and s % 3:
                    idx += 1
                    continue
                if ctx.mine(idx):
                    yield "covariance", {"key": key, "kind": kind, "s": s, "nh": ctx.n(2, 10)}
                idx += 1


def gen_spec(rng, cell, kind, natoms=None):
    spec = []
    for i in range(natoms or int(rng.integers(1, 5))):
        el = ELEMENTS[int(rng.integers(len(ELEMENTS)))]
        pos = [float(x) for x in rng.uniform(0.03, 0.97, 3)]
        if kind == "Uiso":
            adp_type, adp = "Uiso", float(rng.uniform(0.005, 0.08))
        elif kind == "Uani":
            adp_type, adp = "Uani", random_uani(rng, cell)
        else:
            # an atom without a displacement type: whatever is left in .adp (readers leave 0.0, a user may leave a number) is not to be used
            adp_type, adp = None, [0.0, 0.37, 0.05][int(rng.integers(3))]
        spec.append({"label": "%s%d" % (el, i + 1), "el": el, "pos": pos, "adp_type": adp_type, "adp": adp,
                     "occ": float(rng.uniform(0.05, 1.0))})
    return spec


def case_covariance(ctx, p):
    mon = ctx.mon
    rng = np.random.default_rng(p["s"])
    key = p["key"]
    o = c04.table_by_name(key)         # straight from xfab.sglib, not through xfab.sg.sg
    ops, problems = sx.ops_of(o.rot, o.trans)
    if problems:
        mon.check("covariance:operations readable", False, observed=problems[:2])
        return
    cell = gen.conforming_cell(rng, o.crystal_system, o.cell_choice)
    spec = gen_spec(rng, cell, p["kind"])
    scale = scale_of(ctx.A, spec, o.nsymop, None)
    thirds = has_thirds(ops)
    mon.config("adp:" + p["kind"])
    mon.config("laue:%s" % o.Laue)
    rots = sx.point_rotations(ops)
    nonsym = sum(1 for R in rots if R != sx.transpose(R))
    mon.config("group has non-symmetric rotation matrices" if nonsym else "group has only symmetric rotation matrices")
    first_t = {}
    for R, t in ops:
        first_t.setdefault(R, t)
    for n in range(p["nh"]):
        h = np.array(gen.hkl(rng, 8))
        if n == 0 and len(ops) > 1:
            # make sure extinct reflections are visited where the group has any
            for cand in ([0, 0, 1], [0, 1, 0], [1, 0, 0], [0, 0, 3], [1, 1, 0], [0, 1, 1], [1, 0, 1], [1, 1, 1], [0, 0, 2], [1, 2, 0], [0, 3, 3]):
                if sx.extinct(tuple(cand), ops):
                    h = np.array(cand)
                    break
        tol = tol_of(scale, h, thirds)
        try:
            F0 = F(ctx, h, cell, key, spec, o.nsymop)
        except Exception as exc:
            mon.check("covariance:StructureFactor raises", False, observed=repr(exc), detail={"group": key})
            return
        if o.nsymop > 1:
            mon.nontriv(key, spec[0]["pos"], h)
        if sx.extinct(tuple(int(x) for x in h), ops):
            mon.check("covariance:extinct reflections have F = 0", abs(F0) <= tol, residual=abs(F0) / scale, observed=F0, expected=0,
                      detail={"group": key, "h": h, "adp": p["kind"]})
        Fm = F(ctx, -h, cell, key, spec, o.nsymop)
        mon.check("covariance:F(-h) = conj F(h) without dispersion", abs(Fm - F0.conjugate()) <= tol, residual=abs(Fm - F0.conjugate()) / scale,
                  observed=Fm, expected=F0.conjugate(), detail={"group": key, "h": h, "adp": p["kind"]})
        sel = list(range(len(rots)))
        if ctx.tier == "quick" and len(sel) > 6:
            sel = [int(i) for i in rng.choice(len(rots), 6, replace=False)]
        for i in sel:
            R = rots[i]
            t = first_t[R]
            hR = np.array([sum(int(h[a]) * R[a][b] for a in range(3)) for b in range(3)])
            FR = F(ctx, hR, cell, key, spec, o.nsymop)
            phase = np.exp(-2j * math.pi * float(sum(int(h[a]) * t[a] for a in range(3))) / sx.DEN)
            err = abs(FR - F0 * phase)
            mon.check("covariance:F(hR) = F(h) exp(-2 pi i h.t)", err <= tol, residual=err / scale, tol=tol / scale, observed=FR, expected=F0 * phase,
                      detail=None if err <= tol else {"group": key, "setting": o.cell_choice, "h": h, "hR": hR, "R": R, "adp": p["kind"],
                                                      "atoms": spec, "cell": cell, "R_is_symmetric": R == sx.transpose(R)})
            mon.check("covariance:|F(hR)| = |F(h)|", abs(abs(FR) - abs(F0)) <= tol, residual=abs(abs(FR) - abs(F0)) / scale)


CASES = {"covariance": case_covariance}
