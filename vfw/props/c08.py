"""C08 - structure factor equals the explicit sum over the unit-cell contents."""
import math
from fractions import Fraction

import numpy as np

from vfw import gen, oracle, observe, sgexact as sx
from vfw.props import c04, c07, c15

ID = "C08"
RULE = ("every name of the space-group dictionary; conforming cells (oblique for triclinic/monoclinic); 1-3 atoms per case: general "
        "positions and special positions from the rational grid of C15 with the exact multiplicity as symmulti and a site-symmetrised "
        "tensor; Uiso / Uani / no ADP; dispersion absent, full table, or table with None entries; hkl in [-8,8]^3 incl. 000; derived "
        "checks (lattice shift, occupancy linearity, Uiso vs equivalent tensor, F(000)) on the same cases; non-trivial = group with > 1 "
        "operation or special position; distinct = distinct (group, atoms, h)")
ASSUMPTIONS = ["reference: F_ref = sum over the distinct images R x + t (mod 1) of each atom of occ (f + f' + i f'') T exp(2 pi i h.r), with s from the harness' reciprocal metric, f from the harness' Gaussian sum over the live table, T = exp(-8 pi^2 U s^2) or exp(-h' R beta R' h), beta_ij = 2 pi^2 a*_i a*_j U_ij",
               "operations are read straight from the xfab.sglib class named by the dictionary entry (not through xfab.sg.sg; every sg.sg instance the code creates (under the C04 invariant in this run); images are identified exactly with Fractions",
               "tolerance as in C07 (6-digit thirds in the tables)"]
FLOORS = {"post:structure.StructureFactor = explicit P1 sum": 1500, "derived:lattice shift leaves F unchanged": 300,
          "derived:F is linear in occupancy": 300, "derived:Uiso = equivalent anisotropic tensor": 80,
          "derived:F(000) with zero displacement = occupancy-weighted form-factor sum": 200}
WORKERS = {"quick": 4, "thorough": 16}
BUDGET = {"quick": 200, "thorough": 2400}


def beta_of(adp, cell):
    U = np.array([[adp[0], adp[5], adp[4]], [adp[5], adp[1], adp[3]], [adp[4], adp[3], adp[2]]], float)
    astar = np.sqrt(np.diag(oracle.recip_metric(cell)))
    return 2 * math.pi ** 2 * np.outer(astar, astar) * U


def adp_of_beta(beta, cell):
    astar = np.sqrt(np.diag(oracle.recip_metric(cell)))
    U = beta / (2 * math.pi ** 2 * np.outer(astar, astar))
    return [float(U[0, 0]), float(U[1, 1]), float(U[2, 2]), float(U[1, 2]), float(U[0, 2]), float(U[0, 1])]


def f_of(table, el, s):
    d = table[el]
    return sum(d[i] * math.exp(-d[i + 4] * s * s) for i in range(4)) + d[8]


def F_ref(table, ops, cell, spec, h, disper):
    """explicit sum over the unit-cell contents (P1 expansion with exact orbit bookkeeping)"""
    h = np.asarray(h, float)
    s = oracle.stl(cell, h)
    tot = 0j
    for a in spec:
        f = f_of(table, a["el"], s)
        d = (disper or {}).get(a["el"]) or [0.0, 0.0]
        ff = complex(f + d[0], d[1])
        pos = [Fraction(*p) if isinstance(p, (list, tuple)) else Fraction(p).limit_denominator(10 ** 9) for p in a["pos_exact"]]
        beta = beta_of(a["adp"], cell) if a["adp_type"] == "Uani" else None
        seen = {}
        for R, t in ops:
            q = tuple((sum(R[i][k] * pos[k] for k in range(3)) + Fraction(t[i], sx.DEN)) % 1 for i in range(3))
            if q in seen:
                continue
            seen[q] = True
            Rf = np.array(R, float)
            if a["adp_type"] == "Uiso":
                T = math.exp(-8 * math.pi ** 2 * a["adp"] * s * s)
            elif a["adp_type"] == "Uani":
                T = math.exp(-float(h @ (Rf @ beta @ Rf.T) @ h))
            else:
                T = 1.0
            r = Rf @ np.array([float(x) for x in a["pos"]]) + np.array(t, float) / sx.DEN
            tot += a["occ"] * ff * T * np.exp(2j * math.pi * float(h @ r))
    return tot


def site_symmetrise(beta, pos, ops):
    """average R beta R' over the operations that fix the position (mod lattice)"""
    acc = np.zeros((3, 3))
    n = 0
    for R, t in ops:
        q = tuple((sum(R[i][k] * pos[k] for k in range(3)) + Fraction(t[i], sx.DEN) - pos[i]) % 1 for i in range(3))
        if q == (0, 0, 0):
            Rf = np.array(R, float)
            acc += Rf @ beta @ Rf.T
            n += 1
    return acc / n, n


def setup(ctx):
    from xfab import structure, sg as sgmod, atomlib
    ctx.S, ctx.sgmod, ctx.A = structure, sgmod, atomlib
    c04.install_invariant(ctx)
    observe.watch("structure.StructureFactor", structure.StructureFactor)
    observe.watch("structure.Uij2betaij", structure.Uij2betaij)
    observe.watch("structure.FormFactor", structure.FormFactor)


def workload(ctx):
    from xfab import sg as sgmod
    rng = ctx.rng(1)
    names = sorted(sgmod.sgdic)
    idx = 0
    for rep in range(ctx.n(1, 24)):
        for key in names:
            for kind in ("Uiso", "Uani", "none"):
                s = int(rng.integers(0, 2 ** 31))
                if ctx.tier == "quick" and kind != "Uani" and (s % 2 == 0):
                    idx += 1
                    continue
                if ctx.mine(idx):
                    yield "explicit", {"key": key, "kind": kind, "s": s, "nh": ctx.n(3, 8), "disp": ["none", "full", "partial", "partial"][s % 4]}
                idx += 1


def case_explicit(ctx, p):
    mon = ctx.mon
    rng = np.random.default_rng(p["s"])
    key = p["key"]
    o = c04.table_by_name(key)         # straight from xfab.sglib, not through xfab.sg.sg
    ops, problems = sx.ops_of(o.rot, o.trans)
    if problems:
        mon.check("post:operations readable", False, observed=problems[:2])
        return
    variant = None
    cell = gen.conforming_cell(rng, o.crystal_system, o.cell_choice, variant)
    table = ctx.A.formfactor
    spec = []
    natoms = int(rng.integers(1, 4)) if p["disp"] != "partial" else int(rng.integers(2, 5))
    pool = [str(e) for e in rng.permutation(c07.ELEMENTS)]
    for i in range(natoms):
        # partly-None tables need several element types, in any order, some repeated
        el = pool[i % 3] if p["disp"] == "partial" else c07.ELEMENTS[int(rng.integers(len(c07.ELEMENTS)))]
        special = rng.random() < 0.4
        if special:
            pe = [c15.GRID[int(rng.integers(12))] for _ in range(3)]
            if rng.random() < 0.5:
                x = c15.GENERIC[int(rng.integers(len(c15.GENERIC)))]
                pe = [(x, x, pe[2]), (x, 2 * x % 1, pe[2]), (pe[0], pe[1], x), (x, pe[1], pe[2])][int(rng.integers(4))]
        else:
            pe = [Fraction(int(rng.integers(300, 9700)), 10000) for _ in range(3)]
        if rng.random() < 0.12:
            # an atom on a lattice point, written with whole numbers (origin or a lattice-shifted origin)
            pe = [Fraction(int(v)) for v in rng.integers(-2, 3, 3)]
        pos = [float(f) for f in pe]
        multi = sx.orbit_size([f % 1 for f in pe], ops)
        akind = p["kind"]
        if p["s"] % 5 == 0:
            akind = ["Uiso", "Uani", "none"][int(rng.integers(3))]       # mixed lists: every atom its own kind
        if akind == "Uiso":
            adp_type, adp = "Uiso", float(rng.uniform(0.005, 0.08))
        elif akind == "Uani":
            beta = beta_of(c07.random_uani(rng, cell), cell)
            beta, nsite = site_symmetrise(beta, pe, ops)
            adp_type, adp = "Uani", adp_of_beta(beta, cell)
        else:
            # an atom without a displacement type: whatever is left in .adp (readers leave 0.0, a user may leave a number) is not to be used
            adp_type, adp = None, [0.0, 0.37, 0.05][int(rng.integers(3))]
        spec.append({"label": "%s%d" % (el, i + 1), "el": el, "pos": pos, "pos_exact": [[f.numerator, f.denominator] for f in pe],
                     "adp_type": adp_type, "adp": adp, "occ": float(rng.uniform(0.05, 1.0)), "multi": multi})
        mon.config("site:" + ("special" if multi < o.nsymop else "general"))
    disper = None
    if p["disp"] != "none":
        disper = {}
        for a in spec:
            disper[a["el"]] = [float(rng.uniform(-2, 2)), float(rng.uniform(0, 4))]
        if p["disp"] == "partial":
            # any non-empty proper subset of the element types has no dispersion entry (None), wherever those atoms come in the list
            els = sorted(disper)
            k = int(rng.integers(1, max(2, len(els))))
            for el in rng.permutation(els)[:k]:
                disper[str(el)] = None
    mon.config("adp:" + p["kind"])
    mon.config("dispersion:" + p["disp"])
    scale = c07.scale_of(ctx.A, spec, o.nsymop, disper)
    thirds = c07.has_thirds(ops)
    name = "post:structure.StructureFactor = explicit P1 sum"
    hs = [np.array(gen.hkl(rng, 8)) for _ in range(p["nh"])] + [np.array([0, 0, 0])]
    true_cell = [float(x) for x in cell]
    cell = [float(x) for x in cell] if p["s"] % 2 else np.array(cell, float)     # the caller's own cell object, used for every call
    for h in hs:
        tol = c07.tol_of(scale, h, thirds) + 1e-9 * scale
        try:
            got = c07.F(ctx, h, cell, key, spec, o.nsymop, disper)
        except Exception as exc:
            mon.check(name, False, observed=repr(exc), detail={"group": key})
            return
        want = F_ref(table, ops, cell, spec, h, disper)
        err = abs(got - want)
        mon.check(name, err <= tol, residual=err / scale, tol=tol / scale, observed=got, expected=want,
                  detail=None if err <= tol else {"group": key, "setting": o.cell_choice, "h": h, "cell": cell, "atoms": spec, "dispersion": disper})
        if o.nsymop > 1 or any(a["multi"] < o.nsymop for a in spec):
            mon.nontriv(key, spec[0]["pos"], h)
    # ---- derived statements on the same case -------------------------------------------------------------
    h = hs[0]
    tol = c07.tol_of(scale, h, thirds) + 1e-9 * scale
    F0 = c07.F(ctx, h, cell, key, spec, o.nsymop, disper)
    shifted = [dict(a, pos=[x + int(n) for x, n in zip(a["pos"], rng.integers(-3, 4, 3))]) for a in spec]
    F1 = c07.F(ctx, h, cell, key, shifted, o.nsymop, disper)
    mon.check("derived:lattice shift leaves F unchanged", abs(F1 - F0) <= tol + 1e-8 * scale, residual=abs(F1 - F0) / scale, observed=F1, expected=F0)
    k = float(rng.uniform(0.1, 0.9))
    scaled = [dict(a, occ=a["occ"] * k) for a in spec]
    F2 = c07.F(ctx, h, cell, key, scaled, o.nsymop, disper)
    mon.check("derived:F is linear in occupancy", abs(F2 - k * F0) <= tol, residual=abs(F2 - k * F0) / scale, observed=F2, expected=k * F0)
    if all(a["adp_type"] == "Uiso" for a in spec):
        Gs = oracle.recip_metric(cell)
        astar = np.sqrt(np.diag(Gs))
        C = Gs / np.outer(astar, astar)                # cos of the angles between reciprocal axes
        aniso = [dict(a, adp_type="Uani", adp=[a["adp"] * C[0, 0], a["adp"] * C[1, 1], a["adp"] * C[2, 2],
                                                  a["adp"] * C[1, 2], a["adp"] * C[0, 2], a["adp"] * C[0, 1]]) for a in spec]
        F3 = c07.F(ctx, h, cell, key, aniso, o.nsymop, disper)
        mon.check("derived:Uiso = equivalent anisotropic tensor", abs(F3 - F0) <= tol + 1e-9 * scale, residual=abs(F3 - F0) / scale,
                  observed=F3, expected=F0, detail=None if abs(F3 - F0) <= tol + 1e-9 * scale else {"group": key, "h": h, "cell": cell})
    # a refinement loop on the cell: the same object that served every call above, new numbers
    same_cell = bool(np.array_equal(np.asarray(cell, float), np.asarray(true_cell)))
    mon.check("pure:structure.StructureFactor leaves the caller's cell as it was", same_cell, observed=None if same_cell else cell, expected=None if same_cell else true_cell)
    f = 1.0 + float(rng.uniform(0.01, 0.05))
    for n_ in range(3):
        cell[n_] *= f                                  # isotropic expansion keeps the metric conforming
    for hh in hs[:3]:
        want = F_ref(table, ops, [float(x) for x in cell], spec, hh, disper)
        got = c07.F(ctx, hh, cell, key, spec, o.nsymop, disper)
        tol5 = c07.tol_of(scale, hh, thirds) + 1e-9 * scale
        mon.check("derived:F follows a cell object that was updated in place", abs(got - want) <= tol5, residual=abs(got - want) / scale,
                  observed=got, expected=want, detail=None if abs(got - want) <= tol5 else {"group": key, "h": hh, "cell": cell})
    still = [dict(a, adp_type="Uiso", adp=0.0) for a in spec]
    F4 = c07.F(ctx, [0, 0, 0], cell, key, still, o.nsymop, disper)
    want = sum(a["occ"] * a["multi"] * complex(f_of(table, a["el"], 0.0) + ((disper or {}).get(a["el"]) or [0, 0])[0],
                                                ((disper or {}).get(a["el"]) or [0, 0])[1]) for a in spec)
    mon.check("derived:F(000) with zero displacement = occupancy-weighted form-factor sum", abs(F4 - want) <= 1e-9 * scale,
              residual=abs(F4 - want) / scale, observed=F4, expected=want)


CASES = {"explicit": case_explicit}
