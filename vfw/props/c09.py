"""C09 - returned (omega, eta) satisfy the diffraction condition; no solution is missed."""
import math

import numpy as np

from vfw import gen, oracle, observe

ID = "C09"
RULE = ("g directions uniform on the sphere plus a stratum within 0.3 rad of the rotation axis and a stratum placed next to "
        "tangency; 2theta in (0.5,150) deg; chi, wedge in [-0.5,0.5] with strata {both 0, only chi, only wedge, both non-zero}; "
        "laue receives g rescaled by random factors, tools the exact length sin(theta); non-trivial = at least one tilt non-zero "
        "or direction not along an axis; distinct = distinct (g, 2theta, chi, wedge)")
ASSUMPTIONS = ["rotation matrices of the oracle are the documented ones, written in the harness: Rz; Rx(chi)Ry(wedge)Rz; P Rz P' with P=Rx(wx)Ry(wy); Ry(-wedge)Rz",
               "solution count is judged only when |discriminant| > 1e-6 (a^2+b^2), as the property states",
               "tolerance 1e-6 sin(theta) on all three components (rounding in find_omega_wedge has a heavy tail at low angles: 1e-9 relative was exceeded once in 2 M cases); find_omega_wedge obtains eta from arccos of a quantity within 1e-9 of 1 at low angles near tangency, which limits eta to ~1e-7 rad there; agreement between solvers is judged on omega weighted with the part of g perpendicular to the axis"]
FLOORS = {}
for _m in ("tools", "laue"):
    for _f in ("find_omega", "find_omega_general", "find_omega_quart", "find_omega_wedge", "tth", "tth2"):
        FLOORS["post:%s.%s" % (_m, _f)] = 100


def coeffs(P, g):
    """a cos w + b sin w = c for v_x = (P Rz(w) g)_x = -sin^2(theta); |g| = sin(theta)"""
    p = P[0]
    a = p[0] * g[0] + p[1] * g[1]
    b = p[1] * g[0] - p[0] * g[1]
    c = -float(g @ g) - p[2] * g[2]
    return a, b, c


def tangency_margin(P, g):
    """(m, scale): the equation is  amp*cos(omega+phi) = c  with amp = sqrt(a^2+b^2) = |g_perp|*|n_perp| and
    c = -|g|^2 - n_z g_z.  m = amp - |c| (> 0: two solutions, < 0: none).  scale = the size of the quantities the equation
    compares (|g|^2, |n_z g_z| and amp): a solver working to relative precision eps cannot place m better than eps*scale, however
    it arranges the arithmetic (find_omega_wedge decides on |cos eta| <= 1, the others on the sign of the discriminant)."""
    a, b, c = coeffs(P, g)
    amp = math.sqrt(a * a + b * b)
    scale = max(float(g @ g), abs(P[0][2] * g[2]), amp)
    return amp - abs(c), scale


def expected_count(P, g):
    """2 / 0, or None inside the band the quantifier excludes from the count claim: within 1e-6 (relative) of tangency, where
    'relative' is taken with respect to the discriminant (a^2+b^2-c^2 against a^2+b^2) AND with respect to the size of the
    quantities compared (see tangency_margin); the two coincide unless g is almost parallel to the rotation axis"""
    a, b, c = coeffs(P, g)
    s = a * a + b * b
    d = s - c * c
    if s < 1e-300:
        return None
    m, scale = tangency_margin(P, g)
    if abs(m) <= 1e-6 * scale:
        return None
    if d > 1e-6 * s:
        return 2
    if d < -1e-6 * s:
        return 0
    return None


def judge(mon, name, omegas, etas, g, twoth, omega_mat, P, gprime=None):
    """g already scaled to length sin(theta); omega_mat(w) the documented rotation"""
    st = math.sin(twoth / 2)
    try:
        om = np.asarray(omegas, float).reshape(-1)
        et = None if etas is None else np.asarray(etas, float).reshape(-1)
    except Exception:
        mon.check(name, False, observed=[repr(omegas)[:100], repr(etas)[:100]], expected="arrays of angles")
        return
    if et is not None and len(et) != len(om):
        mon.check(name, False, observed=[om, et], expected="as many eta as omega")
        return
    for i, w in enumerate(om):
        if not np.isfinite(w) or not (-math.pi - 1e-12 < w <= math.pi + 1e-12):
            mon.check(name, False, observed=w, expected="omega in (-pi, pi]")
            continue
        v = omega_mat(w) @ g
        rx = abs(v[0] + st * st)
        mon.check(name, rx <= 1e-6 * st, residual=rx / st, tol=1e-6, observed=v, expected="x component = -sin^2(theta) = %r" % (-st * st),
                  detail={"omega": w})
        if et is not None:
            e = et[i]
            want = np.array([-math.sin(twoth) * math.sin(e) / 2, math.sin(twoth) * math.cos(e) / 2])
            r = float(np.max(np.abs(v[1:] - want)))
            mon.check(name, bool(np.isfinite(e)) and r <= 1e-6 * st, residual=r / st, tol=1e-6, observed=v[1:], expected=want,
                      detail={"omega": w, "eta": e})
    n = expected_count(P, g if gprime is None else gprime)
    if n is not None:
        got = len(om)
        ok = got == n
        if ok and n == 2:
            dw = abs(math.remainder(om[0] - om[1], 2 * math.pi))
            ok = dw > 1e-9
        mon.check(name + " [count]", ok, observed=om, expected="%d distinct solutions" % n)


def install(ctx, module):
    mon = ctx.mon
    m = module.__name__.split(".")[-1]
    k = oracle.TWO_PI if m == "tools" else 1.0

    def scaled(g_w, twoth):
        g = np.asarray(g_w, float)
        nrm = float(np.linalg.norm(g))
        if g.shape != (3,) or not np.isfinite(nrm) or nrm == 0:
            return None
        return g * (math.sin(twoth / 2) / nrm)

    def in_domain(twoth, *tilts):
        return math.radians(0.5) <= twoth <= math.radians(150) and all(abs(t) <= 0.5 + 1e-12 for t in tilts)

    def post_find_omega(g_w, twoth, result):
        g = scaled(g_w, twoth)
        if g is None or not in_domain(twoth):
            return
        judge(mon, "post:%s.find_omega" % m, result, None, g, twoth, oracle.Rz, np.eye(3))

    def post_find_omega_general(g_w, twoth, w_x, w_y, result):
        g = scaled(g_w, twoth)
        if g is None or not in_domain(twoth, w_x, w_y):
            return
        P = oracle.Rx(w_x) @ oracle.Ry(w_y)
        judge(mon, "post:%s.find_omega_general" % m, result[0], result[1], g, twoth, lambda w: P @ oracle.Rz(w), P)

    def post_find_omega_quart(g_w, twoth, w_x, w_y, result):
        g = scaled(g_w, twoth)
        if g is None or not in_domain(twoth, w_x, w_y):
            return
        P = oracle.Rx(w_x) @ oracle.Ry(w_y)
        # v_x = (P Rz P' g)_x: same quadratic with g' = P' g
        judge(mon, "post:%s.find_omega_quart" % m, result[0], result[1], g, twoth, lambda w: P @ oracle.Rz(w) @ P.T, P,
              gprime=P.T @ g)

    def post_find_omega_wedge(g_w, twoth, wedge, result):
        g = scaled(g_w, twoth)
        if g is None or not in_domain(twoth, wedge):
            return
        P = oracle.Ry(-wedge)
        judge(mon, "post:%s.find_omega_wedge" % m, result[0], result[1], g, twoth, lambda w: P @ oracle.Rz(w), P)

    def post_tth(unit_cell, hkl, wavelength, result):
        x = wavelength * oracle.stl(unit_cell, hkl)
        if x < 1:
            mon.close("post:%s.tth" % m, result, 2 * math.asin(x), rtol=1e-9, atol=1e-13)

    def post_tth2(gve, wavelength, result):
        x = float(np.linalg.norm(np.asarray(gve, float))) * wavelength / (2 * k)
        if x < 1:
            mon.close("post:%s.tth2" % m, result, 2 * math.asin(x), rtol=1e-9, atol=1e-13)

    for name, cond in (("find_omega", post_find_omega), ("find_omega_general", post_find_omega_general),
                       ("find_omega_quart", post_find_omega_quart), ("find_omega_wedge", post_find_omega_wedge),
                       ("tth", post_tth), ("tth2", post_tth2)):
        observe.watch("%s.%s" % (m, name), getattr(module, name))
        ctx.ensure(module, name, cond)


def setup(ctx):
    from xfab import tools, laue
    ctx.T, ctx.L = tools, laue
    install(ctx, tools)
    install(ctx, laue)


TILT_STRATA = ["both0", "chi_only", "wedge_only", "both", "both", "tiny"]
DIR_STRATA = ["sphere", "sphere", "near_axis", "near_tangent", "axis_plane"]


def workload(ctx):
    rng = ctx.rng(1)
    prev_solve = None
    for i in range(ctx.n(3000, 120000)):
        ts = TILT_STRATA[i % len(TILT_STRATA)]
        ds = DIR_STRATA[(i // len(TILT_STRATA)) % len(DIR_STRATA)]
        chi = 0.0 if ts in ("both0", "wedge_only") else float(rng.uniform(-0.5, 0.5))
        wedge = 0.0 if ts in ("both0", "chi_only") else float(rng.uniform(-0.5, 0.5))
        if ts == "tiny":
            chi, wedge = (float(x) for x in rng.choice([-1, 1], 2) * 10 ** rng.uniform(-7, -2, 2))
        twoth = math.radians(float(rng.uniform(0.5, 150)))
        if i % 4 == 3:
            # low-angle reflections: |g| = sin(theta) ~ 1e-2, every intermediate of the quadratic is tiny in absolute terms
            twoth = math.radians(float(0.5 * 10 ** rng.uniform(0, 1)))
        st = math.sin(twoth / 2)
        P = oracle.Rx(chi) @ oracle.Ry(wedge)
        axis = P @ np.array([0.0, 0.0, 1.0])
        if ds == "sphere":
            d = rng.normal(size=3)
        elif ds == "near_axis":
            d = axis * rng.choice([-1, 1]) + rng.normal(size=3) * rng.uniform(0, 0.3)
        elif ds == "axis_plane":
            d = np.array([math.cos(t := rng.uniform(0, 2 * math.pi)), math.sin(t), 0.0])
        else:
            # next to tangency: polar angle from the axis chosen so that the discriminant is small but clearly signed
            # polar angle from the rotation axis solved so that the margin amp - |c| is u * (|g|^2 + |g||n_z|),
            # u = +-10^-5.5 .. +-10^-1: just inside (two solutions) or just outside (none) the reachable band, by an amount that
            # is small but resolvable in double precision whatever the direction of g
            d = rng.normal(size=3)
            u = 10 ** rng.uniform(-5.5, -1) * rng.choice([-1, 1])
            nx, ny, nz = P[0]
            npp = math.sqrt(nx * nx + ny * ny)
            K = u * (st * st + st * abs(nz))
            found = None
            for s1 in (1.0, -1.0):
                A0, B0 = s1 * st * st + K, s1 * nz * st
                qa, qb, qc = B0 * B0 + st * st * npp * npp, 2 * A0 * B0, A0 * A0 - st * st * npp * npp
                disc = qb * qb - 4 * qa * qc
                if disc < 0 or qa <= 0:
                    continue
                for sg in (1.0, -1.0):
                    x = (-qb + sg * math.sqrt(disc)) / (2 * qa)
                    if abs(x) < 1 and s1 * (st * st + nz * st * x) >= 0 and A0 + B0 * x >= 0:
                        found = x if found is None or rng.random() < 0.5 else found
            if found is not None:
                t = rng.uniform(0, 2 * math.pi)
                d = np.array([math.sqrt(1 - found * found) * math.cos(t), math.sqrt(1 - found * found) * math.sin(t), found])
        d = d / np.linalg.norm(d)
        if i % 7 == 6 and prev_solve is not None:
            # histories: the previous reflection with one tilt changed, or the previous tilts with a new reflection
            if rng.random() < 0.5:
                d, twoth = np.array(prev_solve["dir"]), prev_solve["twoth"]
                if rng.random() < 0.5:
                    chi = prev_solve["chi"]
                else:
                    wedge = prev_solve["wedge"]
            else:
                chi, wedge = prev_solve["chi"], prev_solve["wedge"]
            ts, ds = "history", "history"
        prev_solve = {"dir": d.tolist(), "twoth": twoth, "chi": chi, "wedge": wedge}
        yield "solve", {"dir": d.tolist(), "twoth": twoth, "chi": chi, "wedge": wedge, "tilts": ts, "dirs": ds,
                        "scale": float(10 ** rng.uniform(-3, 3))}
    rng = ctx.rng(2)
    for i in range(ctx.n(300, 12000)):
        c, cs = gen.cell(rng, gen.CELL_STRATA[i % len(gen.CELL_STRATA)])
        yield "tth", {"cell": c, "hkl": gen.hkl(rng, 6), "q": [float(x) for x in rng.normal(size=4)],
                      "wavelength": float(rng.uniform(0.05, 0.5))}


def circ_match(A, B, tol):
    """two lists of angles are the same set on the circle (each element of A has its own partner in B within tol)"""
    A, B = [float(x) for x in A], [float(x) for x in B]
    if len(A) != len(B):
        return False
    left = list(B)
    for a in A:
        best = min(range(len(left)), key=lambda i: abs(math.remainder(a - left[i], 2 * math.pi)), default=None)
        if best is None or abs(math.remainder(a - left[best], 2 * math.pi)) > tol:
            return False
        left.pop(best)
    return True


def _as_set(om, et):
    return sorted((round(math.remainder(float(w), 2 * math.pi), 7), round(math.remainder(float(e), 2 * math.pi), 7))
                  for w, e in zip(om, et))


def case_solve(ctx, p):
    mon = ctx.mon
    d = np.array(p["dir"])
    twoth, chi, wedge = p["twoth"], p["chi"], p["wedge"]
    st = math.sin(twoth / 2)
    g = d * st
    mon.config("tilts:" + p["tilts"])
    mon.config("dirs:" + p["dirs"])
    mon.config("2theta:" + ("<5deg" if twoth < math.radians(5) else ">=5deg"))
    mon.nontriv(d, twoth, chi, wedge)
    res = {}
    for mod, m in ((ctx.T, "tools"), (ctx.L, "laue")):
        gg = g if m == "tools" else g * p["scale"]
        if m == "tools":      # laue's solvers do arithmetic on g before converting it: they take arrays only (not part of the property)
            gg = gen.as_form(gg, int(p["twoth"] * 1e6))
        try:
            res[m, "general"] = mod.find_omega_general(gg, twoth, chi, wedge)
            res[m, "quart"] = mod.find_omega_quart(gg, twoth, chi, wedge)
            if chi == 0.0:
                res[m, "wedge"] = mod.find_omega_wedge(g * p["scale"], twoth, -wedge)
                if wedge == 0.0:
                    res[m, "plain"] = mod.find_omega(g * p["scale"] if m == "laue" else g, twoth)
        except Exception as exc:
            mon.check("workload:%s solver raises on a valid input" % m, False, observed=repr(exc))
            continue
        # agreement where the tilts coincide (tangency band excluded)
        P = oracle.Rx(chi) @ oracle.Ry(wedge)
        if expected_count(P, g) is None:
            continue
        # an omega difference moves the rotated vector by |d_omega| x (part of g perpendicular to z): for g almost
        # along z omega is ill-determined, so the difference is weighted with that part (and never tighter than 1e-6)
        # (the rotation acts on g first, about the z axis of the frame g is given in; the tilt comes afterwards)
        perp = float(math.hypot(d[0], d[1]))
        # each solver is allowed 1e-6 sin(theta) on the position of the rotated vector (its own post-condition), so two of them
        # can be asked to agree to twice that and no better
        wtol = min(math.pi, 2e-6 / max(perp, 1e-12)) + 1e-6       # no floor on perp: next to the axis omega is simply not determined
        if (m, "wedge") in res:
            a = _as_set(*res[m, "general"])
            b = _as_set(*res[m, "wedge"])
            ok = circ_match([x[0] for x in a], [x[0] for x in b], wtol) and circ_match([x[1] for x in a], [x[1] for x in b], 1e-5)
            if ok and len(a) == 2:
                # the pairing (omega_i, eta_i) must be the same in both solvers
                ia = 0 if abs(math.remainder(a[0][0] - b[0][0], 2 * math.pi)) <= abs(math.remainder(a[0][0] - b[1][0], 2 * math.pi)) else 1
                ok = abs(math.remainder(a[0][1] - b[ia][1], 2 * math.pi)) < 1e-5
            mon.check("workload:%s.find_omega_general(chi=0,w) = find_omega_wedge(-w)" % m, ok, observed=a, expected=b)
        if (m, "plain") in res:
            a = [float(w) for w in res[m, "general"][0]]
            for other in ("quart", "wedge", "plain"):
                om = res[m, other] if other == "plain" else res[m, other][0]
                b = [float(w) for w in om]
                mon.check("workload:%s solvers agree at zero tilt" % m, circ_match(a, b, wtol), observed=b, expected=a, detail=other)
            ea = [float(e) for e in res[m, "general"][1]]
            for other in ("quart", "wedge"):
                eb = [float(e) for e in res[m, other][1]]      # eta is an angle: -x and 2 pi - x are the same answer
                mon.check("workload:%s solvers agree at zero tilt" % m, circ_match(ea, eb, 1e-5), observed=eb, expected=ea, detail=other + " eta")


def case_tth(ctx, p):
    mon = ctx.mon
    c, h, lam = p["cell"], p["hkl"], p["wavelength"]
    if lam * oracle.stl(c, h) >= 0.99:
        return
    U = oracle.quat_to_mat(np.array(p["q"]))
    mon.nontriv(c, h, lam)
    for mod, m in ((ctx.T, "tools"), (ctx.L, "laue")):
        t1 = mod.tth(c, h, lam)
        g = U @ (mod.form_b_mat(c) @ np.asarray(h, float))
        t2 = mod.tth2(g, lam)
        mon.close("workload:%s.tth = 2asin(lambda.sintl) = tth2(U.B.hkl)" % m, t2, t1, rtol=1e-9, atol=1e-13)
        mon.close("workload:%s.tth = 2asin(lambda.sintl) = tth2(U.B.hkl)" % m, t1, 2 * math.asin(lam * mod.sintl(c, h)), rtol=1e-12)


CASES = {"solve": case_solve, "tth": case_tth}
