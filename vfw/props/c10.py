"""C10 - detector pixel of a reflection lies on its scattered ray on the tilted detector."""
import math

import numpy as np

from vfw import oracle, observe

ID = "C10"
RULE = ("2theta in (0.5,60) deg, eta in [0,360), tilts in [-0.3,0.3] rad with strata {none, x only, y only, z only, all three}, "
        "distance 10..1000 mm, pixel sizes 0.01..0.5 mm (y and z drawn independently), grain offsets up to +-2 mm with strata "
        "{zero, along x only, generic}, beam centre anywhere in +-2000 px; tilt matrix from tools.detect_tilt and from the "
        "harness; non-trivial = at least one tilt non-zero and a non-zero offset; distinct = distinct parameter tuple")
ASSUMPTIONS = ["ray/plane intersection written in the harness: detector plane through (L,0,0) spanned by columns 1,2 of the tilt matrix",
               "G = (2pi/lambda)(v - x) links det_coor's g-vector to det_coor2's angles",
               "tolerance 1e-9 relative to the pixel coordinate magnitude (+1e-9 px)"]
FLOORS = {"post:detector.det_coor": 500, "post:detector.det_coor2": 500, "post:detector.detector_to_lab": 500,
          "post:detector.det_v": 500, "workload:det_coor = det_coor2": 500, "workload:detector_to_lab(pixel) on the scattered ray": 500}


def expected_pixel(v, L, py, pz, y0, z0, R, t):
    t = np.asarray(t, float)
    n = R[:, 0]
    s = float(n @ (np.array([L, 0.0, 0.0]) - t)) / float(n @ v)
    P = t + s * v - np.array([L, 0.0, 0.0])
    return np.array([float(R[:, 1] @ P) / py + y0, float(R[:, 2] @ P) / pz + z0]), s


def setup(ctx):
    from xfab import detector, tools
    ctx.D, ctx.T = detector, tools
    mon = ctx.mon

    def proper(R):
        R = np.asarray(R, float)
        return R.shape == (3, 3) and oracle.ortho_defect(R) < 1e-9

    def pix_close(name, got, want):
        got = np.asarray(got, float)
        tol = 1e-9 * (1.0 + float(np.max(np.abs(want))))
        err = float(np.max(np.abs(got - want))) if got.shape == want.shape and np.all(np.isfinite(got)) else float("inf")
        mon.check(name, err <= tol, residual=err, tol=tol, observed=got, expected=want)

    def post_det_coor2(tth, eta, distance, y_size, z_size, dety_center, detz_center, R_tilt, tx, ty, tz, result):
        if not proper(R_tilt):
            return
        v = np.array([math.cos(tth), -math.sin(tth) * math.sin(eta), math.sin(tth) * math.cos(eta)])
        want, s = expected_pixel(v, distance, y_size, z_size, dety_center, detz_center, np.asarray(R_tilt, float), [tx, ty, tz])
        if s <= 0:
            return
        pix_close("post:detector.det_coor2", result, want)

    def post_det_coor(Gt, costth, wavelength, distance, y_size, z_size, dety_center, detz_center, R_tilt, tx, ty, tz, result):
        if not proper(R_tilt):
            return
        v = np.array([costth, wavelength / oracle.TWO_PI * Gt[1], wavelength / oracle.TWO_PI * Gt[2]])
        if abs(np.linalg.norm(v) - 1) > 1e-9:
            return
        want, s = expected_pixel(v, distance, y_size, z_size, dety_center, detz_center, np.asarray(R_tilt, float), [tx, ty, tz])
        if s <= 0:
            return
        pix_close("post:detector.det_coor", result, want)

    def post_det_v(Gt, costth, wavelength, result):
        want = np.array([costth, wavelength / oracle.TWO_PI * Gt[1], wavelength / oracle.TWO_PI * Gt[2]])
        mon.close("post:detector.det_v", result, want, rtol=1e-12, atol=1e-15)

    def post_detector_to_lab(dety, detz, L, py, pz, y0, z0, R_tilt, result):
        if not proper(R_tilt):
            return
        want = np.array([L, 0.0, 0.0]) + np.asarray(R_tilt, float) @ np.array([0.0, py * (dety - y0), pz * (detz - z0)])
        mon.close("post:detector.detector_to_lab", result, want, rtol=1e-12, atol=1e-9)

    for f in ("detect_tilt", "form_omega_mat_general", "form_omega_mat", "quart_to_omega"):
        ctx.hold(tools, f)
    for name, cond in (("det_coor", post_det_coor), ("det_coor2", post_det_coor2), ("det_v", post_det_v),
                       ("detector_to_lab", post_detector_to_lab)):
        observe.watch("detector.%s" % name, getattr(detector, name))
        ctx.ensure(detector, name, cond)


TILT = ["none", "x", "y", "z", "all", "all", "tiny"]
OFFS = ["zero", "x", "generic", "generic"]


def workload(ctx):
    rng = ctx.rng(1)
    for i in range(ctx.n(5000, 150000)):
        ts = TILT[i % len(TILT)]
        os_ = OFFS[(i // len(TILT)) % len(OFFS)]
        tilt = rng.uniform(-0.3, 0.3, 3)
        if ts == "none":
            tilt[:] = 0
        elif ts == "tiny":
            # milli- to micro-radian tilts: a well aligned detector (second-order terms such as 1-cos are ~1e-12..1e-6 here)
            tilt = rng.choice([-1, 1], 3) * 10 ** rng.uniform(-6, -2, 3) * (rng.random(3) < 0.8)
        elif ts in "xyz":
            keep = "xyz".index(ts)
            tilt = np.array([tilt[j] if j == keep else 0.0 for j in range(3)])
        t = rng.uniform(-2, 2, 3)
        if os_ == "zero":
            t[:] = 0
        elif os_ == "x":
            t[1:] = 0
        yield "ray", {"tth": math.radians(float(rng.uniform(0.5, 60))), "eta": float(rng.uniform(0, 2 * math.pi)) if i % 5 else float(rng.uniform(-4 * math.pi, 4 * math.pi)),
                      "tilt": [float(x) for x in tilt], "tilts": ts, "offs": os_, "t": [float(x) for x in t],
                      "L": float(10 ** rng.uniform(1, 3)), "py": float(rng.uniform(0.01, 0.5)), "pz": float(rng.uniform(0.01, 0.5)),
                      "y0": float(rng.uniform(-2000, 2000)), "z0": float(rng.uniform(-2000, 2000)),
                      "lam": float(rng.uniform(0.1, 1.0)), "own_tilt": bool(i % 3 == 0)}
    from vfw import gen
    rng = ctx.rng(2)
    for i in range(ctx.n(400, 20000)):
        c, _ = gen.cell(rng, gen.CELL_STRATA[i % len(gen.CELL_STRATA)])
        yield "pipeline", {"cell": c, "hkl": gen.hkl(rng, 4), "lam": float(rng.uniform(0.1, 0.5)), "q": [float(x) for x in rng.normal(size=4)],
                           "tilts": [float(x) for x in rng.uniform(-0.3, 0.3, 2)], "tilt": [float(x) for x in rng.uniform(-0.3, 0.3, 3)],
                           "t": [float(x) for x in rng.uniform(-2, 2, 3)], "L": float(10 ** rng.uniform(1, 3)),
                           "py": float(rng.uniform(0.01, 0.5)), "pz": float(rng.uniform(0.01, 0.5)),
                           "y0": float(rng.uniform(-2000, 2000)), "z0": float(rng.uniform(-2000, 2000))}


def case_pipeline(ctx, p):
    """the way the functions are used in a forward model: cell -> B -> g = U.B.hkl -> (omega, eta) from the solver ->
    pixel from the rotated g-vector (det_coor) and from (2theta, eta) (det_coor2); both must be the same pixel"""
    mon, D, T = ctx.mon, ctx.D, ctx.T
    c, h, lam = p["cell"], p["hkl"], p["lam"]
    U = oracle.quat_to_mat(np.array(p["q"]))
    if lam * oracle.stl(c, h) >= 0.5:
        return
    tth = T.tth(c, h, lam)
    if not (math.radians(0.5) < tth < math.radians(60)):
        return
    g = U @ (T.form_b_mat(c) @ np.asarray(h, float))                # 2 pi convention
    gs = g * lam / (4 * math.pi)                                    # length sin(theta), what the solver wants
    chi, wedge = p["tilts"]
    try:
        om, eta = T.find_omega_general(gs, tth, chi, wedge)
    except AssertionError:
        return
    R = T.detect_tilt(*p["tilt"])
    t = p["t"]
    mon.nontriv(c, h, p["q"], chi, wedge)
    for w, e in zip(om, eta):
        Gt = T.form_omega_mat_general(w, chi, wedge) @ g
        a = D.det_coor(Gt, math.cos(tth), lam, p["L"], p["py"], p["pz"], p["y0"], p["z0"], R, t[0], t[1], t[2])
        b = D.det_coor2(tth, e, p["L"], p["py"], p["pz"], p["y0"], p["z0"], R, t[0], t[1], t[2])
        mon.close("pipeline:det_coor(Omega.g) = det_coor2(2theta, eta of the solver)", a, b, rtol=1e-8, atol=1e-8)
        mon.config("pipeline:solutions")


def case_ray(ctx, p):
    mon = ctx.mon
    D = ctx.D
    tth, eta = p["tth"], p["eta"]
    mon.config("tilts:" + p["tilts"])
    mon.config("offset:" + p["offs"])
    if p["tilts"] != "none" and p["offs"] != "zero":
        mon.nontriv(tth, eta, p["tilt"], p["t"], p["L"])
    R = oracle.Rx(p["tilt"][0]) @ oracle.Ry(p["tilt"][1]) @ oracle.Rz(p["tilt"][2]) if p["own_tilt"] else ctx.T.detect_tilt(*p["tilt"])
    v = np.array([math.cos(tth), -math.sin(tth) * math.sin(eta), math.sin(tth) * math.cos(eta)])
    G = (oracle.TWO_PI / p["lam"]) * (v - np.array([1.0, 0, 0]))
    t = p["t"]
    a = D.det_coor(G, math.cos(tth), p["lam"], p["L"], p["py"], p["pz"], p["y0"], p["z0"], R, t[0], t[1], t[2])
    b = D.det_coor2(tth, eta, p["L"], p["py"], p["pz"], p["y0"], p["z0"], R, t[0], t[1], t[2])
    mon.close("workload:det_coor = det_coor2", a, b, rtol=1e-9, atol=1e-9)
    vv = D.det_v(G, math.cos(tth), p["lam"], p["L"], p["py"], p["pz"], p["y0"], p["z0"], R, t[0], t[1], t[2])
    mon.close("workload:det_v = scattered direction", vv, v, rtol=0, atol=1e-12)
    for name, pix in (("det_coor", a), ("det_coor2", b)):
        P = np.asarray(D.detector_to_lab(pix[0], pix[1], p["L"], p["py"], p["pz"], p["y0"], p["z0"], R), float)
        d = P - np.asarray(t, float)
        s = float(d @ v)
        off = float(np.linalg.norm(d - s * v))
        plane = abs(float(np.asarray(R)[:, 0] @ (P - np.array([p["L"], 0, 0]))))
        tol = 1e-9 * (p["L"] + abs(s))
        mon.check("workload:detector_to_lab(pixel) on the scattered ray", s > 0 and off <= tol and plane <= tol,
                  residual=max(off, plane), observed={"lab": P, "off_ray_mm": off, "off_plane_mm": plane, "s": s},
                  expected="on the ray from the grain along v, in the detector plane", detail=name)


CASES = {"ray": case_ray, "pipeline": case_pipeline}
