"""C11 - detector orientation flips are exact bijections, same for pixels and images."""
import itertools
import math

import numpy as np

from vfw import gen, observe

ID = "C11"
EXHAUSTIVE = True
RULE = ("exhaustive: all 81 matrices over {-1,0,1}^4 x 6 functions (8 valid accepted, 73 rejected with ValueError); for each "
        "valid matrix every image shape 1..8 x 1..8 with uniquely labelled pixels, every pixel; random: large non-square shapes up "
        "to 4096 x 3000, real-valued coordinates, eta/radius round trips for radius >= 1 and any beam centre; sizes passed as "
        "detz_size = extent along x, dety_size = extent along y; non-trivial = non-square shape or non-identity orientation; "
        "distinct = distinct (orientation, shape) or coordinate tuple")
ASSUMPTIONS = ["raw images are indexed img[x, y]; labels are unique so every pixel's destination is identified exactly",
               "exact comparison for images and integer pixel indices; 1e-9 (relative to detector size) for real-valued coordinates; eta compared on the circle"]
FLOORS = {"exhaustive:orientation accepted/rejected": 81 * 6, "exhaustive:flip then inverse is identity": 8 * 64 * 2,
          "exhaustive:xy_to_detyz agrees with trans_orientation": 8 * 64, "exhaustive:pixel maps are mutual inverses": 8 * 64 * 2,
          "random:pixel maps are mutual inverses": 200, "random:eta/radius round trip": 400}
VALID = [(1, 0, 0, 1), (-1, 0, 0, 1), (1, 0, 0, -1), (-1, 0, 0, -1), (0, 1, 1, 0), (0, -1, -1, 0), (0, -1, 1, 0), (0, 1, -1, 0)]


def setup(ctx):
    from xfab import detector
    ctx.D = detector
    mon = ctx.mon
    for f in ("trans_orientation", "image_flipping", "xy_to_detyz", "detyz_to_xy", "detyz_to_eta_and_radpix", "eta_and_radpix_to_detyz"):
        observe.watch("detector.%s" % f, getattr(detector, f))

    def rearrangement(name):
        def post(img, result):
            a = np.asarray(img)
            b = np.asarray(result)
            ok = a.size == b.size and sorted(b.shape) == sorted(a.shape) and np.array_equal(np.sort(a, axis=None), np.sort(b, axis=None))
            mon.check("post:detector.%s returns a rearrangement of the pixels" % name, bool(ok),
                      observed=None if ok else b.shape, expected=None if ok else a.shape)
        return post

    def post_trans_orientation(img, result):
        rearrangement("trans_orientation")(img, result)

    def post_image_flipping(img, result):
        rearrangement("image_flipping")(img, result)

    def post_xy_to_detyz(coor, o11, o12, dety_size, detz_size, result):
        c = np.asarray(coor, float)
        if c.shape != (2,) or not (0 <= c[0] <= detz_size - 1 and 0 <= c[1] <= dety_size - 1):
            return
        # a transposing orientation (o12 = +-1) exchanges the two extents of the transformed image
        ey, ez = (dety_size - 1, detz_size - 1) if abs(o11) == 1 else (detz_size - 1, dety_size - 1)
        r = np.asarray(result, float)
        ok = r.shape == (2,) and -1e-9 <= r[0] <= ey + 1e-9 and -1e-9 <= r[1] <= ez + 1e-9
        mon.check("post:detector.xy_to_detyz maps the detector into the detector", bool(ok), observed=r,
                  expected="0<=dety<=%s, 0<=detz<=%s" % (ey, ez))

    ctx.ensure(detector, "trans_orientation", post_trans_orientation)
    ctx.ensure(detector, "image_flipping", post_image_flipping)
    ctx.ensure(detector, "xy_to_detyz", post_xy_to_detyz)


def workload(ctx):
    i = 0
    for o in itertools.product((-1, 0, 1), repeat=4):
        if ctx.mine(i):
            yield "matrix", {"o": list(o)}
        i += 1
    for o in VALID:
        for nx in range(1, 9):
            for ny in range(1, 9):
                if ctx.mine(i):
                    yield "small", {"o": list(o), "nx": nx, "ny": ny}
                i += 1
    rng = ctx.rng(1)
    for j in range(ctx.n(400, 6000)):
        o = VALID[j % 8]
        nx, ny = int(rng.integers(2, 4097)), int(rng.integers(2, 3001))
        if j % 11 == 0:
            ny = nx
        pts = np.column_stack([rng.uniform(0, nx - 1, 6), rng.uniform(0, ny - 1, 6)])
        ipts = np.column_stack([rng.integers(0, nx, 4), rng.integers(0, ny, 4)])
        yield "large", {"o": list(o), "nx": nx, "ny": ny, "pts": pts.tolist(), "ipts": ipts.tolist(), "image": bool(j % 40 == 0)}
    rng = ctx.rng(2)
    for j in range(ctx.n(800, 12000)):
        eta = float(rng.uniform(0, 360))
        if j % 10 == 0:
            eta = float(rng.choice([0.0, 90.0, 180.0, 270.0, 360.0]))
        r = float(10 ** rng.uniform(0, 3.5))
        if j % 8 == 1:
            r = 1.0                      # the boundary the property names: radius exactly one pixel
        elif j % 8 == 2:
            r = float(rng.integers(1, 2000))
        yield "polar", {"eta": eta, "r": r, "c": [float(x) for x in rng.uniform(-3000, 3000, 2)],
                        "pt": [float(x) for x in rng.uniform(-3000, 3000, 2)]}


def case_matrix(ctx, p):
    D, mon = ctx.D, ctx.mon
    o = tuple(p["o"])
    valid = o in VALID
    img = np.arange(12).reshape(3, 4)
    calls = (("trans_orientation/forward", lambda: D.trans_orientation(img, *o)),
             ("trans_orientation/inverse", lambda: D.trans_orientation(img, *o, flipdir="inverse")),
             ("image_flipping/forward", lambda: D.image_flipping(img, *o)),
             ("image_flipping/inverse", lambda: D.image_flipping(img, *o, flipdir="inverse")),
             ("xy_to_detyz", lambda: D.xy_to_detyz([1, 2], *o, dety_size=4, detz_size=3)),
             ("detyz_to_xy", lambda: D.detyz_to_xy([1, 2], *o, dety_size=4, detz_size=3)))
    for label, f in calls:
        try:
            f()
            raised = None
        except ValueError:
            raised = "ValueError"
        except Exception as exc:
            raised = repr(exc)
        ok = (raised is None) if valid else (raised == "ValueError")
        mon.check("exhaustive:orientation accepted/rejected", ok, observed=raised or "accepted",
                  expected="accepted" if valid else "ValueError", detail=label)
    mon.config("matrix:" + ("valid" if valid else "invalid"))


def case_small(ctx, p):
    D, mon = ctx.D, ctx.mon
    o = tuple(p["o"])
    nx, ny = p["nx"], p["ny"]
    img = (np.arange(nx)[:, None] * 100 + np.arange(ny)[None, :]).astype(np.int64)   # img[x, y] = 100 x + y
    k = (nx * 8 + ny + VALID.index(o)) % 4
    if k == 1:
        img = img.astype(np.float32)
    elif k == 2:
        img = np.asfortranarray(img.astype(np.uint16))
    elif k == 3:
        img = np.ascontiguousarray(np.repeat(img, 2, axis=1))[:, ::2]          # a strided view
    keep = img.copy()
    if nx != ny or o != (1, 0, 0, 1):
        mon.nontriv(o, nx, ny)
    mon.config("orientation:%s" % (o,))
    for fname in ("trans_orientation", "image_flipping"):
        f = getattr(D, fname)
        fw = f(img.copy(), *o, flipdir="forward")
        back = f(fw, *o, flipdir="inverse")
        ok = back.shape == img.shape and np.array_equal(back, img)
        mon.check("exhaustive:flip then inverse is identity", ok, observed=None if ok else back, expected=None if ok else img, detail=fname)
    # histories: an odd or even number of further inverse-mode calls (of either image function) before the forward
    # transform that the pixel map is compared with
    for extra in range((nx + 2 * ny + VALID.index(o)) % 3):
        (D.image_flipping if extra else D.trans_orientation)(img, *o, flipdir="inverse")
    timg = D.trans_orientation(img, *o)
    ref = keep.T if abs(o[0]) == 1 else keep
    if o[0] == -1 or o[1] == -1:
        ref = np.fliplr(ref)
    if o[3] == -1 or o[2] == -1:
        ref = np.flipud(ref)
    okf = timg.shape == ref.shape and bool(np.array_equal(timg, ref))
    # the property ties trans_orientation to xy_to_detyz, not to the docstring's list of flips: observed only
    mon.config("trans_orientation forward %s the flips listed in its docstring" % ("equals" if okf else "differs from"))
    same = bool(np.array_equal(img, keep))
    mon.check("pure:image functions leave the input image as it was", same, observed=None if same else "input modified", detail={"o": o, "shape": [nx, ny]})
    bad = []
    rt1 = []
    rt2 = []
    for x in range(nx):
        for y in range(ny):
            c = D.xy_to_detyz(gen.as_form([x, y], x + y), *o, dety_size=ny, detz_size=nx)
            c = np.asarray(c)
            iy, iz = int(round(float(c[0]))), int(round(float(c[1])))
            exact = float(c[0]) == iy and float(c[1]) == iz
            if not (exact and 0 <= iy < timg.shape[0] and 0 <= iz < timg.shape[1] and timg[iy, iz] == img[x, y]):
                bad.append(((x, y), c.tolist()))
            back = np.asarray(D.detyz_to_xy(c, *o, dety_size=ny, detz_size=nx), float)
            if not (back.shape == (2,) and back[0] == x and back[1] == y):
                rt1.append(((x, y), c.tolist(), back.tolist()))
    # the converse: every (dety, detz) index of the transformed image
    for iy in range(timg.shape[0]):
        for iz in range(timg.shape[1]):
            xy = np.asarray(D.detyz_to_xy([iy, iz], *o, dety_size=ny, detz_size=nx), float)
            c = np.asarray(D.xy_to_detyz(xy, *o, dety_size=ny, detz_size=nx), float)
            if not (c.shape == (2,) and c[0] == iy and c[1] == iz):
                rt2.append(((iy, iz), xy.tolist(), c.tolist()))
    mon.check("exhaustive:xy_to_detyz agrees with trans_orientation", not bad, observed=bad[:3] or None,
              expected="trans_orientation(img)[xy_to_detyz(x,y)] == img[x,y] for every pixel")
    mon.check("exhaustive:pixel maps are mutual inverses", not rt1, observed=rt1[:3] or None, expected="detyz_to_xy(xy_to_detyz(p)) == p",
              detail="xy->detyz->xy")
    mon.check("exhaustive:pixel maps are mutual inverses", not rt2, observed=rt2[:3] or None, expected="xy_to_detyz(detyz_to_xy(q)) == q",
              detail="detyz->xy->detyz")
    mon.extra["pixels_checked"] = mon.extra.get("pixels_checked", 0) + nx * ny


def case_large(ctx, p):
    D, mon = ctx.D, ctx.mon
    o = tuple(p["o"])
    nx, ny = p["nx"], p["ny"]
    mon.nontriv(o, nx, ny, p["pts"][0])
    mon.config("large:%s" % ("square" if nx == ny else "non-square"))
    tol = 1e-9 * max(nx, ny)
    for pt in p["pts"] + [[float(a), float(b)] for a, b in p["ipts"]]:
        c = np.asarray(D.xy_to_detyz(pt, *o, dety_size=ny, detz_size=nx), float)
        back = np.asarray(D.detyz_to_xy(c, *o, dety_size=ny, detz_size=nx), float)
        err = float(np.max(np.abs(back - np.asarray(pt)))) if back.shape == (2,) else float("inf")
        mon.check("random:pixel maps are mutual inverses", err <= tol, residual=err, observed=back, expected=pt,
                  detail={"o": o, "nx": nx, "ny": ny, "via": c})
        # a (dety, detz) point inside the transformed detector (extents exchanged by transposing orientations)
        q = [pt[1], pt[0]] if abs(o[0]) == 1 else [pt[0], pt[1]]
        xy = np.asarray(D.detyz_to_xy(q, *o, dety_size=ny, detz_size=nx), float)
        c2 = np.asarray(D.xy_to_detyz(xy, *o, dety_size=ny, detz_size=nx), float)
        err = float(np.max(np.abs(c2 - np.asarray(q)))) if c2.shape == (2,) else float("inf")
        mon.check("random:pixel maps are mutual inverses", err <= tol, residual=err, observed=c2, expected=q,
                  detail={"o": o, "nx": nx, "ny": ny, "via": xy, "direction": "detyz->xy->detyz"})
    if p["image"]:
        img = np.arange(nx * ny, dtype=np.int64).reshape(nx, ny)
        timg = D.trans_orientation(img, *o)
        for x, y in p["ipts"]:
            c = np.asarray(D.xy_to_detyz([x, y], *o, dety_size=ny, detz_size=nx), float)
            iy, iz = int(round(c[0])), int(round(c[1]))
            ok = c[0] == iy and c[1] == iz and 0 <= iy < timg.shape[0] and 0 <= iz < timg.shape[1] and timg[iy, iz] == img[x, y]
            mon.check("random:xy_to_detyz agrees with trans_orientation", bool(ok), observed=c, expected="index of img[%d,%d]" % (x, y),
                      detail={"o": o, "nx": nx, "ny": ny})
        for fname in ("trans_orientation", "image_flipping"):
            f = getattr(D, fname)
            back = f(f(img, *o, flipdir="forward"), *o, flipdir="inverse")
            mon.check("random:flip then inverse is identity", back.shape == img.shape and bool(np.array_equal(back, img)), detail=fname)


def case_polar(ctx, p):
    D, mon = ctx.D, ctx.mon
    eta, r, c = p["eta"], p["r"], p["c"]
    mon.nontriv(eta, r, c)
    xy = D.eta_and_radpix_to_detyz(eta, r, c[0], c[1])
    e2, r2 = D.detyz_to_eta_and_radpix(np.asarray(xy, float), c[0], c[1])
    de = abs(math.remainder(e2 - eta, 360.0))
    ok = de <= 1e-7 + 1e-9 * 3000 / r * 57.3 and abs(r2 - r) <= 1e-9 * (r + 3000) and 0 <= e2 <= 360
    mon.check("random:eta/radius round trip", bool(ok), residual=max(de, abs(r2 - r)), observed=[e2, r2], expected=[eta, r],
              detail="(eta,r)->(dety,detz)->(eta,r)")
    pt = np.asarray(p["pt"], float)
    if math.hypot(pt[0] - c[0], pt[1] - c[1]) >= 1:
        e, rr = D.detyz_to_eta_and_radpix(pt, c[0], c[1])
        back = np.asarray(D.eta_and_radpix_to_detyz(e, rr, c[0], c[1]), float)
        err = float(np.max(np.abs(back - pt)))
        mon.check("random:eta/radius round trip", err <= 1e-9 * (rr + 3000) and 0 <= e <= 360, residual=err, observed=back, expected=pt,
                  detail="(dety,detz)->(eta,r)->(dety,detz)")


CASES = {"matrix": case_matrix, "small": case_small, "large": case_large, "polar": case_polar}
