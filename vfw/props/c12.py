"""C12 - lattice symmetry operators form the right groups; misorientation respects them."""
import math

import numpy as np

from vfw import gen, oracle, observe

ID = "C12"
EXHAUSTIVE = True
RULE = ("exhaustive over crystal systems 1..7: every operator, every ordered pair of operators (closure), 20 conforming cells per "
        "system for rot[i].B.perm[i]=B, ROTATIONS vs rotations(); Umis on pairs of proper rotations from the 9 rotation strata, "
        "including symmetry-equivalent pairs U2=U1.rot[j] (half-turn products) and identical pairs; non-trivial = system with more "
        "than one operator; distinct = distinct (system, U1, U2) or (system, operator pair)")
ASSUMPTIONS = ["Umis is judged against the module's own rotations() (the property defines it so); rotations() itself is pinned by the group invariants and the pairing identity",
               "angles are compared through their cosines (1e-9): arccos is ill-conditioned at 0 and 180 deg"]
ORDERS = {1: 1, 2: 2, 3: 4, 4: 8, 5: 6, 6: 12, 7: 24}
FLOORS = {"invariant:permutations() is a group of integer unimodular matrices": 7, "invariant:rotations() is a group of proper rotations": 7,
          "invariant:rot[i].B.perm[i] = B": 7 * 20, "invariant:ROTATIONS == rotations()": 7, "post:symmetry.Umis": 500,
          "workload:Umis multiset invariances": 500}


def conforming(rng, cs):
    a, b, c = (float(x) for x in np.exp(rng.uniform(math.log(2.0), math.log(20.0), 3)))
    if cs == 1:
        return gen.cell(rng, "generic")[0]
    if cs == 2:
        return [a, b, c, 90.0, float(rng.uniform(60, 135)), 90.0]
    if cs == 3:
        return [a, b, c, 90.0, 90.0, 90.0]
    if cs == 4:
        return [a, a, c, 90.0, 90.0, 90.0]
    if cs in (5, 6):
        return [a, a, c, 90.0, 90.0, 120.0]
    return [a, a, a, 90.0, 90.0, 90.0]


def group_check(mon, name, mats, order, integer, tol):
    bad = []
    mats = np.asarray(mats, float)
    if mats.shape != (order, 3, 3):
        mon.check(name, False, observed=mats.shape, expected=(order, 3, 3))
        return
    for i, M in enumerate(mats):
        if integer and np.max(np.abs(M - np.rint(M))) > 0:
            bad.append("operator %d is not integer" % i)
        if integer and abs(np.linalg.det(M) - 1) > 1e-12:
            bad.append("operator %d has determinant %r" % (i, float(np.linalg.det(M))))
        if not integer and oracle.ortho_defect(M) > tol:
            bad.append("operator %d is not a proper rotation (defect %.2g)" % (i, oracle.ortho_defect(M)))
    for i in range(order):
        for j in range(i + 1, order):
            if np.max(np.abs(mats[i] - mats[j])) <= tol:
                bad.append("operators %d and %d coincide" % (i, j))
    nprod = 0
    for i in range(order):
        for j in range(order):
            P = mats[i] @ mats[j]
            nprod += 1
            if not any(np.max(np.abs(P - M)) <= max(tol, 1e-9) for M in mats):
                bad.append("product %d*%d is not in the set" % (i, j))
    if not any(np.max(np.abs(M - np.eye(3))) <= tol for M in mats):
        bad.append("identity missing")
    mon.check(name, not bad, detail="; ".join(bad[:6]) or None, observed=None if not bad else "system with %d operators" % order)
    return nprod


def setup(ctx):
    import xfab
    from xfab import symmetry, tools
    ctx.S, ctx.T = symmetry, tools
    mon = ctx.mon
    for f in ("Umis", "permutations", "rotations"):
        observe.watch("symmetry.%s" % f, getattr(symmetry, f))

    def post_Umis(umat_1, umat_2, crystal_system, result):
        name = "post:symmetry.Umis"
        rot = np.asarray(symmetry.rotations(crystal_system), float)
        r = np.asarray(result, float)
        if r.shape != (len(rot), 2):
            mon.check(name, False, observed=r.shape, expected=(len(rot), 2))
            return
        mon.check(name, bool(np.array_equal(r[:, 0], np.arange(len(rot)))), observed=r[:, 0], expected="0..N-1")
        ang = r[:, 1]
        ok = bool(np.all(np.isfinite(ang)) and np.all(ang >= 0) and np.all(ang <= 180))
        mon.check(name, ok, observed=ang, expected="finite angles in [0,180] deg")
        if not ok:
            return
        M = np.asarray(umat_1, float).T @ np.asarray(umat_2, float)
        want = np.array([np.clip((np.trace(M @ R.T) - 1) / 2, -1, 1) for R in rot])
        mon.close(name, np.cos(np.radians(ang)), want, rtol=0, atol=1e-9)

    ctx.ensure(symmetry, "Umis", post_Umis)
    for f in ("permutations", "rotations"):
        ctx.hold(symmetry, f)


def workload(ctx):
    for cs in range(1, 8):
        if ctx.mine(cs):
            yield "system", {"cs": cs}
    rng = ctx.rng(1)
    for i in range(ctx.n(900, 60000)):
        cs = 1 + i % 7
        U1, s1, _ = gen.rotation(rng, gen.ROT_STRATA[(i // 7) % len(gen.ROT_STRATA)])
        kind = ["independent", "equivalent", "identical", "independent", "half_turn"][(i // 63) % 5]
        yield "umis", {"cs": cs, "U1": U1.tolist(), "q2": [float(x) for x in rng.normal(size=4)], "kind": kind,
                       "j": int(rng.integers(0, 24)), "qQ": [float(x) for x in rng.normal(size=4)],
                       "axis": [float(x) for x in rng.normal(size=3)]}


def case_system(ctx, p):
    S, mon = ctx.S, ctx.mon
    cs = p["cs"]
    order = ORDERS[cs]
    perm = ctx.probe_alias(S.permutations, cs)
    rot = ctx.probe_alias(S.rotations, cs)
    n1 = group_check(mon, "invariant:permutations() is a group of integer unimodular matrices", perm, order, True, 0.0)
    n2 = group_check(mon, "invariant:rotations() is a group of proper rotations", rot, order, False, 1e-12)
    mon.extra["operator_pairs_checked"] = mon.extra.get("operator_pairs_checked", 0) + (n1 or 0) + (n2 or 0)
    cached = S.ROTATIONS[cs]
    same = np.asarray(cached).shape == np.asarray(rot).shape and np.array_equal(np.asarray(cached), np.asarray(rot))
    mon.check("invariant:ROTATIONS == rotations()", bool(same), observed=None if same else cached, expected=None if same else rot)
    if cs > 1:
        mon.nontriv("system", cs)
    rng = np.random.default_rng(1000 + cs + 7 * ctx.seed)
    for n in range(20):
        c = conforming(rng, cs)
        for B, label in ((oracle.upper_triangular_factor(oracle.recip_metric(c)), "oracle B"), (ctx.T.form_b_mat(c), "tools.form_b_mat")):
            scale = float(np.max(np.abs(B)))
            worst = 0.0
            bad = None
            if np.asarray(perm).shape == (order, 3, 3) and np.asarray(rot).shape == (order, 3, 3):
                for i in range(order):
                    e = float(np.max(np.abs(rot[i] @ B @ perm[i] - B))) / scale
                    if e > worst:
                        worst, bad = e, i
            else:
                worst = float("inf")
            mon.check("invariant:rot[i].B.perm[i] = B", worst <= 1e-9, residual=worst, observed=None if worst <= 1e-9 else {"operator": bad, "cell": c},
                      expected="rot[i].B.perm[i] = B for every operator", detail=label)
    for bad_cs in (0, 8, -1):
        try:
            S.permutations(bad_cs)
            raised = False
        except ValueError:
            raised = True
        except Exception:
            raised = False
        # not part of the property: observed only
        mon.config("crystal system outside 1..7: " + ("ValueError" if raised else "accepted"))


def _cosines(res):
    return np.sort(np.cos(np.radians(np.asarray(res, float)[:, 1])))


def case_umis(ctx, p):
    S, mon = ctx.S, ctx.mon
    cs = p["cs"]
    rot = np.asarray(S.rotations(cs), float)
    U1 = np.array(p["U1"], float)
    kind = p["kind"]
    if kind == "independent":
        U2 = oracle.quat_to_mat(np.array(p["q2"]))
    elif kind == "equivalent":
        U2 = U1 @ rot[p["j"] % len(rot)]
    elif kind == "identical":
        U2 = U1.copy()
    else:
        U2 = U1 @ oracle.axis_angle(p["axis"], math.pi)
    mon.config("umis:%s" % kind)
    mon.config("system:%d" % cs)
    if cs > 1:
        mon.nontriv(cs, U1, U2)
    if p["kind"] != "half_turn" and np.all(U1 == np.rint(U1)) and np.all(U2 == np.rint(U2)):
        U1, U2 = U1.astype(np.int64), U2.astype(np.int64)      # signed permutation matrices written with whole numbers
        mon.config("umis:integer-typed matrices")
    try:
        base = S.Umis(U1, U2, cs)
        kept = np.array(base, copy=True)
        ref = _cosines(base)
        name = "workload:Umis multiset invariances"
        j = p["j"] % len(rot)
        Q = oracle.quat_to_mat(np.array(p["qQ"]))
        for label, a, b in (("U2 -> U2.rot[j]", U1, U2 @ rot[j]), ("U1 -> U1.rot[j]", U1 @ rot[j], U2),
                            ("common rotation", Q @ U1, Q @ U2), ("swap", U2, U1)):
            got = _cosines(S.Umis(a, b, cs))
            ok = got.shape == ref.shape and bool(np.all(np.isfinite(got))) and float(np.max(np.abs(got - ref))) <= 1e-9
            mon.check(name, ok, observed=None if ok else got, expected=None if ok else ref, detail=label)
        same = bool(np.array_equal(np.asarray(base), kept))
        mon.check("workload:a Umis result is not changed by later Umis calls", same, observed=None if same else np.asarray(base)[:3],
                  expected=None if same else kept[:3])
        if kind in ("identical", "equivalent"):
            mn = float(np.nanmin(np.asarray(base, float)[:, 1]))
            mon.check("workload:Umis of equivalent orientations contains 0", mn < 1e-4, residual=mn, observed=mn, expected="< 1e-4 deg")
    except Exception as exc:
        mon.check("workload:Umis raises on proper rotations", False, observed=repr(exc))


def finish(ctx):
    S, mon = ctx.S, ctx.mon
    for cs in range(1, 8):
        rot = S.rotations(cs)
        cached = S.ROTATIONS[cs]
        same = np.asarray(cached).shape == np.asarray(rot).shape and bool(np.array_equal(np.asarray(cached), np.asarray(rot)))
        mon.check("invariant:ROTATIONS == rotations()", same, detail="after the Umis workload", observed=None if same else cs)
        group_check(mon, "invariant:rotations() is a group of proper rotations", rot, ORDERS[cs], False, 1e-12)


CASES = {"system": case_system, "umis": case_umis}
