"""C13 - strain and strained B matrix are exact inverses; UBI yields back U and strain."""
import math

import numpy as np

from vfw import gen, oracle, observe

ID = "C13"
RULE = ("cells from the 7 strata of C01, strain components uniform in [-0.1,0.1] (plus zero strain and single-component strains), "
        "rotations from the 9 strata of C02 incl. exact two-fold rotations; both modules; non-trivial = non-zero strain on a cell "
        "with an angle > 5 deg from 90; distinct = distinct (cell, strain, U)")
ASSUMPTIONS = ["oracle: T = B0.inv(B) is upper triangular, eps = sym(T) - I, hence B = inv(T(eps)).B0 with T_ii = 1+e_ii, T_ij = 2 e_ij; B0 from the harness' metric tensor",
               "the open finding C13-tools-ubi-eps-2pi is recognised only by its formula eps' = 2pi(eps+I)-I with a correct U, in xfab.tools only"]
FLOORS = {"post:tools.b_to_epsilon": 300, "post:laue.b_to_epsilon": 300, "post:tools.epsilon_to_b": 300, "post:laue.epsilon_to_b": 300,
          "post:laue.ubi_to_u_and_eps": 300, "post:tools.ubi_to_u_and_eps": 300,
          "workload:laue.ubi_to_u_and_eps returns (U, eps)": 300, "workload:tools.ubi_to_u_and_eps returns (U, eps)": 300}
FINDING = "C13-tools-ubi-eps-2pi"
TOL = 1e-9


def T_of(eps):
    e = [float(x) for x in eps]
    return np.array([[1 + e[0], 2 * e[1], 2 * e[2]], [0, 1 + e[3], 2 * e[4]], [0, 0, 1 + e[5]]])


def eps_of(B0, B):
    T = B0 @ np.linalg.inv(B)
    E = 0.5 * (T + T.T) - np.eye(3)
    return np.array([E[0, 0], E[0, 1], E[0, 2], E[1, 1], E[1, 2], E[2, 2]])


def B0_of(cell, k):
    return oracle.upper_triangular_factor(oracle.recip_metric(cell) * k * k)


def is_2pi_finding(m, got_eps, want_eps, U_ok):
    """mechanism classifier of the open finding: tools, right U, strain = 2pi(eps+I)-I"""
    if m != "tools" or not U_ok:
        return False
    w = np.asarray(want_eps, float)
    g = np.asarray(got_eps, float)
    if g.shape != (6,) or not np.all(np.isfinite(g)):
        return False
    ident = np.array([1, 0, 0, 1, 0, 1.0])
    pred = oracle.TWO_PI * (w + ident) - ident
    return bool(np.max(np.abs(g - pred)) <= 1e-7)


def install(ctx, module, k):
    mon = ctx.mon
    m = module.__name__.split(".")[-1]

    def cell_ok(cell):
        try:
            c = [float(x) for x in cell]
            return len(c) == 6 and min(c[:3]) > 0 and oracle.gram_det_angular(c) >= 0.02 - 1e-12
        except Exception:
            return False

    def post_b_to_epsilon(B_matrix, unit_cell, result):
        B = np.asarray(B_matrix, float)
        if not cell_ok(unit_cell) or B.shape != (3, 3) or abs(np.linalg.det(B)) < 1e-300 or np.linalg.cond(B) > 1e6:
            return
        mon.close("post:%s.b_to_epsilon" % m, np.asarray(result, float), eps_of(B0_of(unit_cell, k), B), rtol=0, atol=TOL)

    def post_epsilon_to_b(epsilon, unit_cell, result):
        if not cell_ok(unit_cell) or max(abs(float(x)) for x in epsilon) > 0.5:
            return
        B0 = B0_of(unit_cell, k)
        want = np.linalg.inv(T_of(epsilon)) @ B0
        mon.close("post:%s.epsilon_to_b" % m, np.asarray(result, float), want, rtol=TOL)

    def post_ubi_to_u_and_eps(ubi_matrix, unit_cell, result):
        name = "post:%s.ubi_to_u_and_eps" % m
        ubi = np.asarray(ubi_matrix, float)
        if not cell_ok(unit_cell) or ubi.shape != (3, 3) or np.linalg.det(ubi) <= 0 or np.linalg.cond(ubi) > 1e5:
            return
        UB = k * np.linalg.inv(ubi)
        Bo = np.linalg.cholesky(UB.T @ UB).T
        Uo = UB @ np.linalg.inv(Bo)
        want = eps_of(B0_of(unit_cell, k), Bo)
        try:
            U, eps = result
            U = np.asarray(U, float)
            eps = np.asarray(eps, float)
        except Exception:
            mon.check(name, False, observed=repr(result)[:200], expected="(U, eps)")
            return
        u_ok = U.shape == (3, 3) and bool(np.max(np.abs(U - Uo)) <= 1e-8)
        mon.check(name, u_ok, observed=None if u_ok else U, expected=None if u_ok else Uo, detail="U")
        e_ok = eps.shape == (6,) and bool(np.all(np.isfinite(eps))) and bool(np.max(np.abs(eps - want)) <= 1e-8)
        mon.check(name, e_ok, observed=None if e_ok else eps, expected=None if e_ok else want, detail="strain",
                  finding=FINDING if (not e_ok and is_2pi_finding(m, eps, want, u_ok)) else None)

    for name, cond in (("b_to_epsilon", post_b_to_epsilon), ("epsilon_to_b", post_epsilon_to_b), ("ubi_to_u_and_eps", post_ubi_to_u_and_eps)):
        observe.watch("%s.%s" % (m, name), getattr(module, name))
        ctx.ensure(module, name, cond)
    for name in ("b_to_epsilon_old", "epsilon_to_b_old"):
        observe.watch("%s.%s" % (m, name), getattr(module, name))
        ctx.hold(module, name)


def setup(ctx):
    from xfab import tools, laue
    ctx.T, ctx.L = tools, laue
    install(ctx, tools, oracle.TWO_PI)
    install(ctx, laue, 1.0)


def workload(ctx):
    rng = ctx.rng(1)
    prevc = None
    for i in range(ctx.n(1500, 40000)):
        c, cs = gen.cell(rng, gen.CELL_STRATA[i % len(gen.CELL_STRATA)])
        if prevc is not None and rng.random() < 0.3:
            # histories: the previous cell again, or a cell a refinement step away from it
            d = 0.0 if rng.random() < 0.4 else 10 ** rng.uniform(-8, -4)
            c, cs = [x * (1 + d) for x in prevc], "scan"
            if oracle.gram_det_angular(c) < 0.02 or max(c[3:]) >= 175:
                c, cs = gen.cell(rng, "generic")
        prevc = c
        U, rs, _ = gen.rotation(rng, gen.ROT_STRATA[(i // 7) % len(gen.ROT_STRATA)])
        kind = i % 10
        eps = rng.uniform(-0.1, 0.1, 6)
        if kind == 0:
            eps[:] = 0
        elif kind == 1:
            j = int(rng.integers(6))
            eps = np.array([eps[j] if n == j else 0.0 for n in range(6)])
        elif kind == 2:
            eps = rng.choice([-1, 1], 6) * 10 ** rng.uniform(-9, -3, 6)       # realistic elastic strains
        yield "strain", {"cell": c, "cell_stratum": cs, "eps": [float(x) for x in eps], "U": U.tolist(), "rot_stratum": rs}


def case_strain(ctx, p):
    mon = ctx.mon
    c, eps = p["cell"], np.array(p["eps"])
    U = np.array(p["U"])
    mon.config("cell:" + p["cell_stratum"])
    mon.config("rot:" + p["rot_stratum"])
    if np.any(eps != 0) and max(abs(a - 90.0) for a in c[3:]) > 5.0:
        mon.nontriv(c, eps, U)
    for mod, k, m in ((ctx.T, oracle.TWO_PI, "tools"), (ctx.L, 1.0, "laue")):
        B0 = B0_of(c, k)
        Bs = np.linalg.inv(T_of(eps)) @ B0            # the strained B, built in the harness
        try:
            fk = int(abs(eps[0]) * 1e9)
            B = mod.epsilon_to_b(gen.as_form(eps, fk), gen.as_form(c, fk + 1))
            e2 = mod.b_to_epsilon(gen.as_form(B, fk + 2), c)
            mon.close("workload:%s.b_to_epsilon(epsilon_to_b(eps))=eps" % m, e2, eps, rtol=0, atol=TOL)
            e3 = mod.b_to_epsilon(Bs, c)
            B3 = mod.epsilon_to_b(e3, c)
            mon.close("workload:%s.epsilon_to_b(b_to_epsilon(B))=B" % m, B3, Bs, rtol=TOL)
            if fk % 4 == 0:
                ctx.probe_alias(mod.epsilon_to_b, list(eps), c)
                ctx.probe_alias(mod.b_to_epsilon, Bs, c)
            Bo = mod.epsilon_to_b_old(list(eps), c)
            eo = mod.b_to_epsilon_old(Bo, c)
            mon.close("workload:%s.b_to_epsilon_old(epsilon_to_b_old(eps))=eps" % m, eo, eps, rtol=0, atol=TOL)
            Bo2 = mod.epsilon_to_b_old(mod.b_to_epsilon_old(Bo, c), c)
            mon.close("workload:%s.epsilon_to_b_old(b_to_epsilon_old(B))=B" % m, Bo2, Bo, rtol=TOL)
            mon.close("workload:%s.zero strain gives the unstrained B" % m, mod.epsilon_to_b([0.0] * 6, c), B0, rtol=TOL)
            mon.close("workload:%s.zero strain gives the unstrained B" % m, mod.epsilon_to_b_old([0.0] * 6, c), B0, rtol=TOL)
        except Exception as exc:
            mon.check("workload:%s strain functions raise on valid input" % m, False, observed=repr(exc))
        ubi = k * np.linalg.inv(U @ Bs)               # the module's own UBI convention, as u_to_ubi produces it
        name = "workload:%s.ubi_to_u_and_eps returns (U, eps)" % m
        try:
            U2, e4 = mod.ubi_to_u_and_eps(ubi, c)
        except Exception as exc:
            mon.check(name, False, observed=repr(exc), detail={"rot_stratum": p["rot_stratum"]})
            continue
        U2 = np.asarray(U2, float)
        e4 = np.asarray(e4, float)
        u_ok = U2.shape == (3, 3) and bool(np.max(np.abs(U2 - U)) <= 1e-8)
        mon.check(name, u_ok, observed=None if u_ok else U2, expected=None if u_ok else U, detail="U")
        e_ok = e4.shape == (6,) and bool(np.all(np.isfinite(e4))) and bool(np.max(np.abs(e4 - eps)) <= 1e-8)
        mon.check(name, e_ok, residual=None, observed=None if e_ok else e4, expected=None if e_ok else eps, detail="strain",
                  finding=FINDING if (not e_ok and is_2pi_finding(m, e4, eps, u_ok)) else None)


CASES = {"strain": case_strain}
