"""C14 - xfab.tools and xfab.laue agree on everything except the documented factor 2*pi."""
import inspect
import math

import numpy as np

from vfw import gen, hkl, oracle, observe
from vfw.props import c13

ID = "C14"
RULE = ("every function defined in both modules (41 on the pinned tree: 40 public + _arctan2) is called in both with the same generated "
        "input, B-like arguments and g-vectors of tools scaled by 2 pi (tools' omega solvers get length sin(theta), laue the same vector "
        "times a random factor); inputs: cells and rotations from the strata of C01-C03, strains of C13, solver geometries of C09, "
        "conforming cells x all Laue classes for genhkl* under a common numpy seed, all 26 syscond slots for sysabs*; "
        "non-trivial = every pair; distinct = distinct (function, input)")
ASSUMPTIONS = ["documented convention: B(tools) = 2 pi B(laue), g-vectors scale accordingly; UBI, cells, rotations, angles, strains, sintl, two-theta and reflection lists identical",
               "comparison 1e-9 relative to the largest entry (angles of solvers on the circle); both raising the same exception type counts as agreement",
               "open finding C14-ubi-eps-2pi (strain part of ubi_to_u_and_eps) is recognised by the same formula as C13-tools-ubi-eps-2pi"]
FINDING = "C14-ubi-eps-2pi"
K = oracle.TWO_PI
EXPECTED = ["find_omega_general", "find_omega_quart", "find_omega_wedge", "find_omega", "cell_invert", "form_omega_mat", "form_omega_mat_general",
            "cell_volume", "form_b_mat", "form_a_mat", "form_a_mat_inv", "ubi_to_cell", "ubi_to_u", "ubi_to_u_and_eps", "a_to_cell", "b_to_cell",
            "epsilon_to_b_old", "b_to_epsilon_old", "b_to_epsilon", "epsilon_to_b", "euler_to_u", "_arctan2", "u_to_euler", "u_to_rod", "u_to_ubi",
            "ubi_to_rod", "ubi_to_u_b", "rod_to_u", "ub_to_u_b", "reduce_cell", "detect_tilt", "quart_to_omega", "sintl", "tth", "tth2",
            "genhkl_all", "genhkl_unique", "genhkl_base", "genhkl", "sysabs", "sysabs_unique"]
FLOORS = {"pair:%s" % f: 20 for f in EXPECTED}


def common_functions(T, L):
    def own(mod):
        return set(n for n, f in vars(mod).items() if inspect.isfunction(f) and f.__module__ == mod.__name__)
    return sorted(own(T) & own(L))


def setup(ctx):
    from xfab import tools, laue, sg as sgmod
    ctx.T, ctx.L, ctx.sgmod = tools, laue, sgmod
    ctx.common = common_functions(tools, laue)
    # the property speaks about functions present in both modules: one that a tree no longer has (in either) is not compared
    ctx.present = [f for f in EXPECTED if hasattr(tools, f) and hasattr(laue, f)]
    absent = [f for f in EXPECTED if f not in ctx.present]
    if absent:
        ctx.mon.extra["floors_waived"] = ["pair:%s" % f for f in absent]
        ctx.mon.extra["functions_not_in_both_modules_any_more"] = absent
    for f in ctx.present:
        observe.watch("tools.%s" % f, getattr(tools, f))
        observe.watch("laue.%s" % f, getattr(laue, f))
        if f not in ("sysabs", "sysabs_unique", "_arctan2", "sintl", "tth", "tth2", "cell_volume"):
            ctx.hold(tools, f)
            ctx.hold(laue, f)
    ctx.mon.extra["functions_in_both_modules"] = len(ctx.common)
    ctx.mon.extra["functions_without_a_generator"] = [f for f in ctx.common if f not in EXPECTED]


def workload(ctx):
    rng = ctx.rng(1)
    for i in range(ctx.n(250, 10000)):
        c, cs = gen.cell(rng, gen.CELL_STRATA[i % len(gen.CELL_STRATA)])
        U, rs, _ = gen.rotation(rng, gen.ROT_STRATA[(i // 7) % len(gen.ROT_STRATA)])
        yield "numeric", {"cell": c, "U": U.tolist(), "eps": [float(x) for x in rng.uniform(-0.1, 0.1, 6)],
                          "hkl": gen.hkl(rng, 12), "angles": [float(x) for x in rng.uniform(0, 2 * math.pi, 3)],
                          "tilts": [float(x) if rng.random() < 0.75 else 0.0 for x in rng.uniform(-0.5, 0.5, 2)],
                          "twoth": math.radians(float(rng.uniform(0.5, 150))), "dir": [float(x) for x in rng.normal(size=3)],
                          "scale": float(10 ** rng.uniform(-2, 2)), "rod": [float(x) for x in rng.normal(size=3) * 10 ** rng.uniform(-3, 1)],
                          "lam": float(rng.uniform(0.05, 0.4)), "yx": [float(x) for x in rng.normal(size=2) * 10 ** rng.uniform(-10, 1, 2)]}
    from vfw.props import c05
    for n_, (kind, q) in enumerate(c05.gen_cases(ctx, "hkl")):
        # every (Laue class, setting) class at least 12 times per run, all 237 settings; quick keeps every 2nd case
        if ctx.tier == "quick" and n_ % 2:
            continue
        yield "hkl", {"no": q["no"], "cc": q["cc"], "s": q["s"], "target": int(20 + q["s"] % 130)}
    for i in range(ctx.n(40, 1500)):
        sc = [int(x) for x in rng.choice([0, 0, 0, 2, 3, 4, 6], 26)]
        yield "sysabs", {"syscond": sc, "hkls": [gen.hkl(rng, 6) for _ in range(8)] + [[0, 0, int(rng.integers(1, 7))], [2, 2, 0], [1, -1, 3], [0, 3, 0]]}


def flat(x):
    if isinstance(x, tuple):
        return np.concatenate([flat(v) for v in x])
    return np.asarray(x, float).ravel()


def pair(ctx, fname, args_t, args_l, factor=1.0, circular=False, kw_t=None, kw_l=None, classify=None):
    """call tools.f and laue.f; tools' result must equal factor * laue's"""
    mon = ctx.mon
    name = "pair:%s" % fname
    if fname not in ctx.present:
        return None
    out = []
    for mod, a, kw in ((ctx.T, args_t, kw_t or {}), (ctx.L, args_l, kw_l or {})):
        try:
            out.append(("ok", getattr(mod, fname)(*a, **kw)))
        except Exception as exc:
            out.append(("exc", type(exc).__name__))
    (st, rt), (sl, rl) = out
    if st == "exc" or sl == "exc":
        ok = st == sl and rt == rl
        mon.check(name, ok, observed={"tools": str(rt)[:80], "laue": str(rl)[:80]}, expected="same behaviour", detail="exception")
        return None
    try:
        ft, fl = flat(rt), flat(rl)
        fac = factor if np.isscalar(factor) else flat(factor)
        want = fl * fac
        if ft.shape != want.shape:
            mon.check(name, False, observed=ft.shape, expected=want.shape, detail="shape")
            return rt, rl
        if ft.size == 0:
            mon.check(name, True)
            return rt, rl
        if circular:
            err = float(np.max(np.abs(np.remainder(ft - want + math.pi, 2 * math.pi) - math.pi)))
            tol = 1e-8
        else:
            both_nan = np.isnan(ft) & np.isnan(want)
            d = np.where(both_nan, 0.0, np.abs(ft - want))
            err = float(np.max(d)) if np.all(np.isfinite(d)) else float("inf")
            finite = np.abs(want[np.isfinite(want)])
            tol = 1e-9 * (float(finite.max()) if finite.size else 0.0) + 1e-13
        ok = err <= tol
        finding = None
        if not ok and classify is not None and classify(rt, rl):
            finding = FINDING
        mon.check(name, ok, residual=err, observed=None if ok else ft, expected=None if ok else want, finding=finding)
    except Exception as exc:
        mon.check(name, False, observed=repr(exc), detail="results not comparable: %r / %r" % (type(rt), type(rl)))
    return rt, rl


def case_numeric(ctx, p):
    mon = ctx.mon
    c, U, eps, h = p["cell"], np.array(p["U"]), p["eps"], p["hkl"]
    mon.nontriv(c, U, eps)
    P = lambda f, at, al=None, **k: pair(ctx, f, at, at if al is None else al, **k)
    P("cell_invert", (c,))
    P("cell_volume", (c,))
    P("form_a_mat", (c,))
    P("form_a_mat_inv", (c,))
    P("form_b_mat", (c,), factor=K)
    P("sintl", (c, h))
    lam = p["lam"] if p["lam"] * oracle.stl(c, h) < 0.95 else 0.9 / (2 * oracle.stl(c, h))     # keep lambda.sintl < 1
    P("tth", (c, h, lam))
    # a refinement loop: each module is handed the same container object again after it was updated in place
    fresh = [c[0] * 1.0625, c[1] * 0.9375, c[2]] + list(c[3:])          # first seen through the held objects
    held_t, held_l = (list(fresh), list(fresh)) if h[0] % 2 else (np.array(fresh, float), np.array(fresh, float))
    P("sintl", (held_t, h), (held_l, h))
    for held in (held_t, held_l):
        held[0] *= 1.0371
        held[1] *= 0.9644
    P("sintl", (held_t, h), (held_l, h))
    if lam * oracle.stl(held_t, h) < 0.99:
        P("tth", (held_t, h, lam), (held_l, h, lam))
    P("form_b_mat", (held_t,), (held_l,), factor=K)
    # ... and a fine scan: steps of a few 1e-6 (lattice-parameter refinement), fresh containers each time
    for k in range(1, 4):
        step = [x * (1 + k * (2.0e-6 if h[1] % 2 else 4.0e-7)) for x in held_t[:3]] + [float(x) for x in held_t[3:]]
        P("sintl", (step, h))
        if lam * oracle.stl(step, h) < 0.99:
            P("tth", (step, h, lam))
    P("cell_volume", (step,))
    P("form_a_mat", (step,))
    B_l = oracle.upper_triangular_factor(oracle.recip_metric(c))
    B_t = K * B_l
    g_l = U @ (B_l @ np.array(h, float))
    P("tth2", (K * g_l, lam), (g_l, lam))
    P("a_to_cell", (oracle.upper_triangular_factor(oracle.metric(c)),))
    P("b_to_cell", (B_t,), (B_l,))
    Bs_l = np.linalg.inv(c13.T_of(eps)) @ B_l
    P("epsilon_to_b", (eps, c), factor=K)
    P("epsilon_to_b_old", (eps, c), factor=K)
    P("b_to_epsilon", (K * Bs_l, c), (Bs_l, c))
    P("b_to_epsilon_old", (K * Bs_l, c), (Bs_l, c))
    P("u_to_ubi", (U, c))
    ubi = np.linalg.inv(U @ Bs_l)                      # identical in both conventions (2 pi cancels)
    P("ubi_to_cell", (ubi,))
    P("ubi_to_u", (ubi,))
    if oracle.rotation_angle_deg(U) < 179.9:
        P("ubi_to_rod", (ubi,))
        P("u_to_rod", (U,))
    P("ubi_to_u_b", (ubi,), factor=(np.ones((3, 3)), K * np.ones((3, 3))))
    P("ub_to_u_b", (K * (U @ Bs_l),), (U @ Bs_l,), factor=(np.ones((3, 3)), K * np.ones((3, 3))))

    def is_2pi(rt, rl):
        try:
            return bool(np.max(np.abs(np.asarray(rt[0]) - np.asarray(rl[0]))) <= 1e-8) and \
                c13.is_2pi_finding("tools", np.asarray(rt[1], float), np.asarray(rl[1], float), True)
        except Exception:
            return False
    P("ubi_to_u_and_eps", (ubi, c), classify=is_2pi)
    a = p["angles"]
    P("euler_to_u", (a[0], min(a[1], math.pi), a[2]))
    P("u_to_euler", (U,))
    P("rod_to_u", (p["rod"],))
    P("form_omega_mat", (a[0],))
    P("form_omega_mat_general", (a[0], p["tilts"][0], p["tilts"][1]))
    P("quart_to_omega", (math.degrees(a[0]), p["tilts"][0], p["tilts"][1]))
    P("detect_tilt", (a[0] - 3, p["tilts"][0], p["tilts"][1]))
    P("_arctan2", (p["yx"][0], p["yx"][1]))
    if oracle.gram_det_angular(c) > 0.1:
        P("reduce_cell", (c,))
    d = np.array(p["dir"])
    d = d / np.linalg.norm(d)
    tw = p["twoth"]
    g = d * math.sin(tw / 2)
    chi, wedge = p["tilts"]
    P("find_omega", (g, tw), (g * p["scale"], tw), circular=True)
    P("find_omega_general", (g, tw, chi, wedge), (g * p["scale"], tw, chi, wedge), circular=True)
    P("find_omega_quart", (g, tw, chi, wedge), (g * p["scale"], tw, chi, wedge), circular=True)
    P("find_omega_wedge", (g * p["scale"], tw, wedge), (g / p["scale"], tw, wedge), circular=True)


def case_hkl(ctx, p):
    mon = ctx.mon
    rng = np.random.default_rng(p["s"])
    o = ctx.sgmod.sg(sgno=p["no"], cell_choice=p["cc"])
    cell = hkl.cell_for(rng, o.crystal_system, o.cell_choice, "generic" if p["s"] % 2 else "orth")
    from vfw import sgexact as sx
    target = int(min(2500, p["target"] * max(1, sx.LAUE_ORDER.get(o.Laue, 2) // 2)))   # the walk covers one asymmetric unit
    shell = hkl.choose_shell(rng, cell, target, bool(p["s"] % 3 == 0))
    if shell is None:
        return
    smin, smax = shell
    mon.nontriv(p["no"], p["cc"], cell, smax)
    mon.config("laue:%s%s" % (o.Laue, "(rh)" if o.cell_choice == "rhombohedral" else ""))
    seed = int(rng.integers(0, 2 ** 31))

    def seeded(fname, args, kw, canonical=False):
        if fname not in ctx.present:
            return
        res = []
        for mod in (ctx.T, ctx.L):
            np.random.seed(seed)
            try:
                res.append(("ok", getattr(mod, fname)(*args, **kw)))
            except Exception as exc:
                res.append(("exc", type(exc).__name__))
        (st, rt), (sl, rl) = res
        name = "pair:%s" % fname
        if st == "exc" or sl == "exc":
            mon.check(name, st == sl and rt == rl, observed={"tools": str(rt)[:60], "laue": str(rl)[:60]})
            return
        a, b = np.asarray(rt, float), np.asarray(rl, float)
        if a.ndim == 2 and b.ndim == 2 and a.shape == b.shape and len(a) and a.shape[1] in (3, 4):
            # "identical lists": the same hkl rows, each with the same sin(theta)/lambda up to rounding (the twins may reach the
            # number by different arithmetic: 2 pi in, 2 pi out).  Rows are compared in canonical (hkl) order: the order inside
            # a family of genhkl_all is decided by numpy's global random numbers in the code as found, and the order among rows
            # whose sin(theta)/lambda agree to rounding by that rounding.  (Sortedness of each list is C06's business.)
            a, b = a[np.lexsort(a[:, :3].T[::-1])], b[np.lexsort(b[:, :3].T[::-1])]
            ok = bool(np.array_equal(a[:, :3], b[:, :3]))
            if ok and a.shape[1] == 4:
                ok = bool(np.all(np.abs(a[:, 3] - b[:, 3]) <= 1e-12 * np.abs(b[:, 3])))
        else:
            ok = a.shape == b.shape and bool(np.array_equal(a, b))
        mon.check(name, ok, observed=None if ok else a.shape, expected=None if ok else b.shape,
                  detail=None if ok else {"group": o.name, "cell": cell, "shell": [smin, smax]})
    seeded("genhkl_all", (cell, smin, smax), dict(sgno=p["no"], cell_choice=p["cc"], output_stl=bool(p["s"] % 2)), canonical=True)
    seeded("genhkl_unique", (cell, smin, smax), dict(sgname=o.name, output_stl=bool(p["s"] % 5 < 3)))
    seeded("genhkl_base", (cell, o.syscond, smin, smax), dict(crystal_system=o.crystal_system, Laue_class=o.Laue,
                                                             cell_choice=o.cell_choice, output_stl=True if p["s"] % 3 else None))
    seeded("genhkl", (cell, o.syscond, smin, smax), dict(crystal_system=o.crystal_system, output_stl=None if p["s"] % 3 else True))
    for h in [gen.hkl(rng, 6) for _ in range(6)]:
        pair(ctx, "sysabs", (h, o.syscond, o.crystal_system, o.cell_choice), (h, o.syscond, o.crystal_system, o.cell_choice))


def case_sysabs(ctx, p):
    ctx.mon.nontriv(p["syscond"])
    for h in p["hkls"]:
        pair(ctx, "sysabs_unique", (h, p["syscond"]), (h, p["syscond"]))
        for cs, cc in (("cubic", "standard"), ("trigonal", "standard"), ("trigonal", "rhombohedral"), ("monoclinic", "standard")):
            pair(ctx, "sysabs", (h, p["syscond"], cs, cc), (h, p["syscond"], cs, cc))


CASES = {"numeric": case_numeric, "hkl": case_hkl, "sysabs": case_sysabs}
