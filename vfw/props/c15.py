"""C15 - site multiplicity equals the number of symmetry-equivalent positions in the cell."""
from fractions import Fraction

import numpy as np

from vfw import observe, sgexact as sx
from vfw.props import c04

ID = "C15"
RULE = ("all 237 group settings, by number+setting and by name; positions from the rational grid {0,1/8,1/6,1/4,1/3,3/8,1/2,5/8,2/3,"
        "3/4,5/6,7/8}^3 (thorough: the complete grid, 1728 x 237; quick: a random sample per setting) and the families (x,x,z), (x,2x,z), "
        "(x,-x,z), (x,y,z), (0,0,z), (1/3,2/3,z), (x,x,x), (x,0,0) with generic x; coordinates passed as Python floats (thirds carry "
        "rounding of both signs), shifted by integer vectors, as list / tuple / array; non-trivial = position or setting with a "
        "non-trivial site symmetry or centring (oracle multiplicity < nsymop or nsymop > 1); distinct = distinct (setting, position)")
ASSUMPTIONS = ["the orbit is counted exactly with Fractions over the operations read straight from the xfab.sglib class of the requested number/setting (not through xfab.sg.sg); every sg.sg instance the code under test creates is under the C04 class invariant in this run",
               "float coordinates are identified with the rational they were generated from (|float - rational| <= 1e-15)"]
FLOORS = {"post:structure.multiplicity": 2000, "invariant:sg.sg group axioms": 237}
WORKERS = {"quick": 4, "thorough": 16}
GRID = [Fraction(0), Fraction(1, 8), Fraction(1, 6), Fraction(1, 4), Fraction(1, 3), Fraction(3, 8), Fraction(1, 2),
        Fraction(5, 8), Fraction(2, 3), Fraction(3, 4), Fraction(5, 6), Fraction(7, 8)]
GENERIC = [Fraction(617, 5000), Fraction(2141, 10000), Fraction(3779, 10000), Fraction(137, 1000), Fraction(4211, 10000)]
_ops_cache = {}


def setting_ops(sgmod, no, cc):
    key = (no, cc)
    if key not in _ops_cache:
        o = c04.Table(no, cc)          # straight from xfab.sglib, not through xfab.sg.sg
        ops, problems = sx.ops_of(o.rot, o.trans)
        _ops_cache[key] = (ops, o.nsymop, o.name, problems)
    return _ops_cache[key]


def setup(ctx):
    from xfab import structure, sg as sgmod
    ctx.S, ctx.sgmod = structure, sgmod
    mon = ctx.mon
    observe.watch("structure.multiplicity", structure.multiplicity)
    c04.install_invariant(ctx)

    def post_multiplicity(position, sgname, sgno, cell_choice, result):
        # contract-level oracle: only when every coordinate is (within 1e-12) a rational with a small denominator
        try:
            pos = [Fraction(float(x)).limit_denominator(10000) for x in position]
            if any(abs(float(f) - float(x)) > 1e-12 for f, x in zip(pos, position)):
                mon.config("contract:position not a small rational")
                return
            if sgname is not None:
                o = c04.table_by_name(sgname)
                if cell_choice == "rhombohedral" and o.no in c04.R_GROUPS:
                    o = c04.Table(o.no, "rhombohedral")
            else:
                o = c04.Table(sgno, cell_choice)
            ops, problems = sx.ops_of(o.rot, o.trans)
        except Exception as exc:
            mon.config("contract:oracle unavailable (%s)" % type(exc).__name__)
            return
        want = sx.orbit_size(pos, ops)
        ok = isinstance(result, (int, np.integer)) and int(result) == want
        mon.check("post:structure.multiplicity", bool(ok), observed=result, expected=want,
                  detail={"position": [str(f) for f in pos], "group": "%s (%s)" % (o.name, o.cell_choice), "nsymop": int(o.nsymop)})

    ctx.ensure(structure, "multiplicity", post_multiplicity)


def _settings():
    out = []
    for no in range(1, 231):
        out.append((no, "standard"))
        if no in c04.R_GROUPS:
            out.append((no, "rhombohedral"))
    return out


def workload(ctx):
    rng = ctx.rng(1)
    settings = _settings()
    idx = 0
    for k, (no, cc) in enumerate(s_ for s_ in settings if 143 <= s_[0] <= 194):
        pts = [[int(v) for v in rng.integers(0, 6, 3)] for _ in range(ctx.n(40, 120))]
        sh = [int(v) for v in rng.integers(-2, 3, 3)]
        if ctx.mine(k + 3):
            yield "thirds", {"no": no, "cc": cc, "pts": pts, "shift": sh}
    for k, no in enumerate(c04.R_GROUPS):
        if ctx.mine(k):
            yield "r_both", {"no": no, "g": [int(v) for v in rng.integers(0, 5, 3)], "reverse": bool((k + ctx.seed) % 2)}
        else:
            rng.integers(0, 5, 3)
    if ctx.thorough():
        for (no, cc) in settings:
            for i, a in enumerate(GRID):
                if ctx.mine(idx):
                    yield "grid_plane", {"no": no, "cc": cc, "i": i}
                idx += 1
    for (no, cc) in settings:
        if not ctx.mine(idx):
            idx += 1
            continue
        idx += 1
        pts = []
        for _ in range(ctx.n(14, 40)):
            pts.append([int(v) for v in rng.integers(0, 12, 3)])
        fam = []
        for _ in range(ctx.n(10, 40)):
            x = GENERIC[int(rng.integers(len(GENERIC)))]
            y = GENERIC[int(rng.integers(len(GENERIC)))]
            z = [GENERIC[int(rng.integers(len(GENERIC)))], GRID[int(rng.integers(12))]][int(rng.integers(2))]
            k = int(rng.integers(8))
            p = [(x, x, z), (x, 2 * x, z), (x, -x, z), (x, y, z), (Fraction(0), Fraction(0), z),
                 (Fraction(1, 3), Fraction(2, 3), z), (x, x, x), (x, Fraction(0), Fraction(0))][k]
            fam.append([[f.numerator, f.denominator] for f in p])
        yield "setting", {"no": no, "cc": cc, "grid": pts, "families": fam,
                          "shift": [int(v) for v in rng.integers(-3, 4, 3)], "form": int(rng.integers(3))}


def _call(ctx, pos_exact, no, cc, shift=(0, 0, 0), form=0, by_name=False):
    mon = ctx.mon
    ops, nsymop, name, problems = setting_ops(ctx.sgmod, no, cc)
    want = sx.orbit_size(list(pos_exact), ops)
    p = [float(f) + s for f, s in zip(pos_exact, shift)]          # the float of the rational, as a user types 1/3
    if form == 1:
        p = np.array(p)
    elif form == 2:
        p = tuple(p)
    try:
        # keyword forms, and the optional arguments in their documented positional order (sgname, sgno, cell_choice)
        positional = (want + int(pos_exact[0].denominator)) % 4 == 0
        if by_name:
            typed = c04.spell(name, want + int(pos_exact[1].denominator))
            got = ctx.S.multiplicity(p, typed) if positional else ctx.S.multiplicity(p, sgname=typed)
        else:
            got = ctx.S.multiplicity(p, None, no, cc) if positional else ctx.S.multiplicity(p, sgno=no, cell_choice=cc)
        mon.config("call form:%s" % ("positional" if positional else "keyword"))
    except Exception as exc:
        mon.check("workload:multiplicity equals the exact orbit size", False, observed=repr(exc), expected=want,
                  detail={"position": [str(f) for f in pos_exact], "group": name})
        return
    ok = int(got) == want
    mon.check("workload:multiplicity equals the exact orbit size", ok, observed=int(got), expected=want,
              detail=None if ok else {"position": [str(f) for f in pos_exact], "shift": list(shift), "group": "%s (%s, no %d)" % (name, cc, no),
                                      "nsymop": nsymop, "by_name": by_name})
    if want < nsymop or nsymop > 1:
        mon.nontriv(no, cc, [str(f) for f in pos_exact])
    mon.config("site:" + ("special" if want < nsymop else "general"))


def case_setting(ctx, p):
    no, cc = p["no"], p["cc"]
    ctx.mon.config("setting:%d/%s" % (no, cc))
    for n, (i, j, k) in enumerate(p["grid"]):
        pos = (GRID[i], GRID[j], GRID[k])
        _call(ctx, pos, no, cc, form=(p["form"] + n) % 3, by_name=(n % 3 == 0))
        if n % 4 == 0:
            _call(ctx, pos, no, cc, shift=p["shift"], form=p["form"])
    for n, f in enumerate(p["families"]):
        pos = tuple(Fraction(a, b) % 1 for a, b in f)
        _call(ctx, pos, no, cc, by_name=(n % 2 == 0), form=n % 3)
        if n % 3 == 0:
            _call(ctx, pos, no, cc, shift=p["shift"])


def case_grid_plane(ctx, p):
    no, cc = p["no"], p["cc"]
    a = GRID[p["i"]]
    for b in GRID:
        for c in GRID:
            _call(ctx, (a, b, c), no, cc)
    ctx.mon.extra["complete_grid_planes"] = ctx.mon.extra.get("complete_grid_planes", 0) + 1


def case_r_both(ctx, p):
    """histories: the same R group asked for in both settings within one process, in both orders, by number and by name"""
    no = p["no"]
    x, y, z = (c15_generic(i) for i in p["g"])
    seq = [("standard", False), ("rhombohedral", False), ("standard", True), ("rhombohedral", True)]
    if p["reverse"]:
        seq = seq[::-1]
    for cc, by_name in seq + seq[:2]:
        _call(ctx, (x, y, z), no, cc, by_name=by_name)
        _call(ctx, (Fraction(0), Fraction(0), z), no, cc, by_name=by_name)
    ctx.mon.config("history:R group in both settings")


def c15_generic(i):
    return GENERIC[i % len(GENERIC)]


THIRDS = [Fraction(0), Fraction(1, 3), Fraction(2, 3), Fraction(1, 6), Fraction(5, 6), Fraction(1, 2)]


def case_thirds(ctx, p):
    """float thirds and sixths against the 6-digit translations of the trigonal / hexagonal tables, in both states of the
    package-wide switch (a valid position must be counted the same whether input checks are on or off)"""
    import xfab
    no, cc = p["no"], p["cc"]
    was = xfab.CHECKS.activated
    try:
        for n, (i, j, k) in enumerate(p["pts"]):
            xfab.CHECKS.activated = bool(n % 2)
            _call(ctx, (THIRDS[i], THIRDS[j], THIRDS[k]), no, cc, shift=p["shift"] if n % 3 == 0 else (0, 0, 0), by_name=(n % 4 == 0))
    finally:
        xfab.CHECKS.activated = bool(was)
    ctx.mon.config("thirds:%s" % ("rhombohedral" if cc == "rhombohedral" else "hexagonal axes"))


CASES = {"setting": case_setting, "grid_plane": case_grid_plane, "r_both": case_r_both, "thirds": case_thirds}
