"""C16 - atomic form factors are physical: f(0) = Z, positive and decreasing."""
import numpy as np

from vfw import observe

ID = "C16"
EXHAUSTIVE = True
RULE = ("exhaustive: all entries of the live form-factor table (94 on the pinned tree) x 20001 grid points s in [0,2] evaluated through "
        "the real FormFactor (scalar and array calls); monotonicity decided analytically when every a_i*b_i >= 0, else on the grid "
        "together with the sign of the analytic derivative; every FormFactor call of the workload is re-computed from the live "
        "table by the post-condition; non-trivial = every element; distinct = distinct element")
ASSUMPTIONS = ["atomic numbers come from a periodic-table list written in the harness",
               "f(0) within 0.1 electron of Z as the property states; positivity/monotonicity on a 1e-4 grid plus analytic derivative sign"]
FLOORS = {"invariant:table entry is nine finite numbers": 90, "invariant:f(0) = Z within 0.1": 90,
          "invariant:f positive on [0,2]": 90, "invariant:f non-increasing on [0,2]": 90, "post:structure.FormFactor": 500}
SYMBOLS = ("H HE LI BE B C N O F NE NA MG AL SI P S CL AR K CA SC TI V CR MN FE CO NI CU ZN GA GE AS SE BR KR RB SR Y ZR NB MO TC RU RH PD "
           "AG CD IN SN SB TE I XE CS BA LA CE PR ND PM SM EU GD TB DY HO ER TM YB LU HF TA W RE OS IR PT AU HG TL PB BI PO AT RN FR RA AC "
           "TH PA U NP PU AM CM BK CF").split()
Z = {s: i + 1 for i, s in enumerate(SYMBOLS)}


def setup(ctx):
    from xfab import structure, atomlib
    ctx.S, ctx.A = structure, atomlib
    mon = ctx.mon
    observe.watch("structure.FormFactor", structure.FormFactor)

    def post_FormFactor(atomtype, stl, result):
        d = atomlib.formfactor[atomtype]
        s = np.asarray(stl, float)
        want = sum(d[i] * np.exp(-d[i + 4] * s * s) for i in range(4)) + d[8]
        mon.close("post:structure.FormFactor", np.asarray(result, float), np.asarray(want, float), rtol=1e-12, atol=1e-13)

    ctx.ensure(structure, "FormFactor", post_FormFactor)


def workload(ctx):
    keys = sorted(ctx.A.formfactor)
    for i, k in enumerate(keys):
        if ctx.mine(i):
            yield "element", {"symbol": k}
    yield "table", {"n": len(keys)}
    rng = ctx.rng(1)
    for i in range(ctx.n(600, 6000)):
        yield "call", {"symbol": keys[int(rng.integers(len(keys)))], "s": float(rng.uniform(0, 2.5))}
    # the rest of the package uses the same table: structure factors and file readers run, then every entry is judged again
    for i in range(ctx.n(12, 60)):
        if ctx.mine(i):
            yield "other_users", {"s": int(rng.integers(0, 2 ** 31))}
        else:
            rng.integers(0, 2 ** 31)
    for i, k in enumerate(keys):
        if ctx.mine(i):
            yield "element", {"symbol": k, "pass": 2}


def case_table(ctx, p):
    mon = ctx.mon
    keys = set(ctx.A.formfactor)
    unknown = sorted(k for k in keys if k not in Z)
    # which entries the table holds is not part of the property (it speaks about every entry that is there): observed only
    mon.config("table keys that are not element symbols: %d" % len(unknown))
    first94 = [s for s in SYMBOLS[:94] if s not in keys]
    mon.config("elements H..Pu missing from the table: %d" % len(first94))


def case_element(ctx, p):
    mon = ctx.mon
    sym = p["symbol"]
    d = ctx.A.formfactor[sym]
    mon.nontriv(sym)
    try:
        arr = np.asarray(d, float)
        ok = arr.shape == (9,) and bool(np.all(np.isfinite(arr)))
    except Exception:
        ok = False
    mon.check("invariant:table entry is nine finite numbers", ok, observed=None if ok else d, detail=sym)
    if not ok or sym not in Z:
        return
    f0 = float(ctx.S.FormFactor(sym, 0.0))
    mon.check("invariant:f(0) = Z within 0.1", abs(f0 - Z[sym]) <= 0.1, residual=abs(f0 - Z[sym]), observed=f0, expected=Z[sym], detail=sym)
    s = np.linspace(0.0, 2.0, 20001)
    f = np.asarray(ctx.S.FormFactor(sym, s), float)
    fs = np.array([ctx.S.FormFactor(sym, float(x)) for x in s[::400]])      # scalar path agrees with the array path
    mon.close("invariant:scalar and array evaluation agree", fs, f[::400], rtol=1e-13, atol=1e-13, detail=sym)
    pos = bool(np.all(f > 0))
    mon.check("invariant:f positive on [0,2]", pos, residual=float(-min(0.0, f.min())), observed=None if pos else float(f.min()),
              expected="> 0", detail={"symbol": sym, "s_at_min": float(s[int(np.argmin(f))])})
    a, b = arr[:4], arr[4:8]
    if np.all(a * b >= 0):
        mon.check("invariant:f non-increasing on [0,2]", True, detail="analytic: all a_i*b_i >= 0")
        mon.config("monotone-decided:analytically")
    else:
        df = np.diff(f)
        deriv = -2 * s * sum(a[i] * b[i] * np.exp(-b[i] * s * s) for i in range(4))
        ok = bool(np.all(df <= 1e-12) and np.all(deriv <= 1e-12))
        mon.check("invariant:f non-increasing on [0,2]", ok, residual=float(max(df.max(), deriv.max())),
                  observed=None if ok else float(df.max()), expected="<= 0", detail=sym)
        mon.config("monotone-decided:on grid + derivative sign")


def case_call(ctx, p):
    v = ctx.S.FormFactor(p["symbol"], p["s"])
    ctx.mon.check("workload:FormFactor returns a finite number", bool(np.isfinite(v)), observed=v)


def case_other_users(ctx, p):
    """StructureFactor, CIFread (incl. charged atom-type symbols such as Mg2+ / O2-) and PDBread are run; what they do to
    the shared table is judged by the second pass over every element"""
    import os
    from vfw import boot
    from vfw.props import c17
    rng = np.random.default_rng(p["s"])
    S = ctx.S
    d = os.path.join(boot.WORK, "c16-%d-%d" % (os.getpid(), ctx.shard))
    os.makedirs(d, exist_ok=True)
    no = int(rng.choice([2, 14, 62, 139, 166, 194, 225]))
    name = {2: "P-1", 14: "P21/c", 62: "Pnma", 139: "I4/mmm", 166: "R-3m", 194: "P63/mmc", 225: "Fm-3m"}[no]
    text, rec = c17.make_cif(rng, name, no, "standard")
    if p["s"] % 2:
        # the same file with ionic atom-type symbols
        for el, ion in (("Fe", "Fe3+"), ("Cu", "Cu2+"), ("O", "O2-"), ("Na", "Na1+"), ("Cl", "Cl1-"), ("Al", "Al3+"), ("Zn", "Zn2+"), ("S", "S2-")):
            text = text.replace("\n%s %s " % (el, el), "\n%s %s " % (ion, ion)).replace(" %s 0." % el, " %s 0." % ion)
    path = os.path.join(d, "x.cif")
    with open(path, "w") as fh:
        fh.write(text)
    try:
        b = S.build_atomlist()
        b.CIFread(ciffile=path)
        al = b.atomlist
        atoms = [a for a in al.atom if a.atomtype in ctx.A.formfactor]
        if atoms:
            S.StructureFactor(np.array([1, 2, 0]), al.cell, al.sgname, atoms, None)
    except Exception as exc:
        ctx.mon.config("other users: raised %s" % type(exc).__name__)
    finally:
        try:
            os.unlink(path)
            os.rmdir(d)
        except OSError:
            pass
    ctx.mon.config("other users of the table ran")


CASES = {"element": case_element, "table": case_table, "call": case_call, "other_users": case_other_users}
