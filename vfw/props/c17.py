"""C17 - CIF and PDB ingestion reproduces what the file states."""
import math
import os
import shutil
from fractions import Fraction

import numpy as np

from vfw import boot, gen, oracle, observe, sgexact as sx
from vfw.props import c04, c15

ID = "C17"
RULE = ("generated files with a record of what was written: CIF - any of the 237 tabulated symbols with random internal blanks, cell with/"
        "without esds, 1..12 atoms, adp type per atom in {Uiso, Uani, Biso, Bani} or no adp column, occupancy column present/absent, "
        "multiplicity key in both spellings or absent (then the exact orbit count), atom-type loop with/without dispersion columns or "
        "absent, extra 'global' block before/after; PDB - 75 space-group symbols in PDB spacing incl. every chiral group and symbols "
        "with genuine and place-holder '1's, CRYST1/SCALEn/ATOM/HETATM in fixed columns, SCALE with a translation column; "
        "non-trivial = file with >= 2 atoms; distinct = distinct file content")
ASSUMPTIONS = ["PyCifRW parses the CIFs the generator writes; numbers are compared with float(printed text without esd)",
               "computed multiplicities are compared with the exact orbit count of C15 (special coordinates are printed to 8 digits)",
               "PDB symbols are a hand-written table (symbol in PDB spacing -> ITA number) in the harness"]
FLOORS = {"post:structure.build_atomlist.CIFread": 100, "post:structure.build_atomlist.PDBread": 100}
WORKERS = {"quick": 4, "thorough": 16}
ELEMENTS = ["C", "N", "O", "H", "S", "Fe", "Cu", "Zn", "Si", "Al", "Cl", "Na", "Mo", "Pb", "U"]

PDB_SYMBOLS = [
    ("P 1", 1), ("P -1", 2), ("P 1 2 1", 3), ("P 1 21 1", 4), ("C 1 2 1", 5), ("P 1 21/c 1", 14), ("C 1 2/c 1", 15),
    ("P 2 2 2", 16), ("P 2 2 21", 17), ("P 21 21 2", 18), ("P 21 21 21", 19), ("C 2 2 21", 20), ("C 2 2 2", 21), ("F 2 2 2", 22),
    ("I 2 2 2", 23), ("I 21 21 21", 24), ("P n m a", 62), ("P b c a", 61),
    ("P 4", 75), ("P 41", 76), ("P 42", 77), ("P 43", 78), ("I 4", 79), ("I 41", 80), ("P 4 2 2", 89), ("P 4 21 2", 90),
    ("P 41 2 2", 91), ("P 41 21 2", 92), ("P 42 2 2", 93), ("P 42 21 2", 94), ("P 43 2 2", 95), ("P 43 21 2", 96), ("I 4 2 2", 97),
    ("I 41 2 2", 98), ("I 41/a m d", 141),
    ("P 3", 143), ("P 31", 144), ("P 32", 145), ("R 3", 146), ("P 3 1 2", 149), ("P 3 2 1", 150), ("P 31 1 2", 151), ("P 31 2 1", 152),
    ("P 32 1 2", 153), ("P 32 2 1", 154), ("R 3 2", 155), ("P 3 m 1", 156), ("P 3 1 m", 157), ("P 3 c 1", 158), ("P 3 1 c", 159),
    ("P -3 1 m", 162), ("P -3 m 1", 164),
    ("P 6", 168), ("P 61", 169), ("P 65", 170), ("P 62", 171), ("P 64", 172), ("P 63", 173), ("P 6 2 2", 177), ("P 61 2 2", 178),
    ("P 65 2 2", 179), ("P 62 2 2", 180), ("P 64 2 2", 181), ("P 63 2 2", 182), ("P 63/m m c", 194),
    ("P 2 3", 195), ("F 2 3", 196), ("I 2 3", 197), ("P 21 3", 198), ("I 21 3", 199), ("P 4 3 2", 207), ("P 42 3 2", 208),
    ("F 4 3 2", 209), ("F 41 3 2", 210), ("I 4 3 2", 211), ("P 43 3 2", 212), ("P 41 3 2", 213), ("I 41 3 2", 214), ("F m -3 m", 225),
]
SPECIAL = [("0.00000000", Fraction(0)), ("0.25000000", Fraction(1, 4)), ("0.50000000", Fraction(1, 2)), ("0.75000000", Fraction(3, 4)),
           ("0.33333333", Fraction(1, 3)), ("0.66666667", Fraction(2, 3)), ("0.12500000", Fraction(1, 8)), ("0.16666667", Fraction(1, 6)),
           ("0.83333333", Fraction(5, 6))]


def system_of(no):
    return c04.expected_system(no)


# ------------------------------------------------------------------------------ CIF generator
def esd(rng, text):
    return text + "(%d)" % int(rng.integers(1, 30)) if rng.random() < 0.5 else text


def coord(rng):
    """(printed text, exact rational or None)"""
    if rng.random() < 0.3:
        t, f = SPECIAL[int(rng.integers(len(SPECIAL)))]
        return t, f
    v = int(rng.integers(300, 99700))      # 0.00300 .. 0.99700, generic
    return "0.%05d" % v, Fraction(v, 100000)


def make_cif(rng, name, no, setting):
    system = system_of(no)
    cell = gen.conforming_cell(rng, system, "rhombohedral" if setting == "rhombohedral" else "standard")
    with_esd = rng.random() < 0.6
    ctext = []
    for i, v in enumerate(cell):
        t = "%.4f" % v if i < 3 else "%.3f" % v
        ctext.append(esd(rng, t) if with_esd and not (i >= 3 and abs(v - round(v)) < 1e-9) else t)
    # the symbol with random internal blanks
    sym = ""
    for ch in name:
        sym += ch
        if rng.random() < 0.35:
            sym += " "
    sym = sym.strip()
    natoms = int(rng.integers(1, 13))
    adp_mode = ["mixed", "Uiso", "Uani", "Biso", "Bani", "absent"][int(rng.integers(6))]
    occ_col = rng.random() < 0.7
    multi_key = [None, "_atom_site_symmetry_multiplicity", "_atom_site_symetry_multiplicity"][int(rng.integers(3))]
    type_loop = ["full", "nodisp", "absent"][int(rng.integers(3))]
    atoms = []
    used = []
    for i in range(natoms):
        el = ELEMENTS[int(rng.integers(len(ELEMENTS)))]
        if el not in used:
            used.append(el)
        label = "%s%d%s" % (el, i + 1, "abA'"[int(rng.integers(4))] if rng.random() < 0.3 else "")
        xyz = [coord(rng) for _ in range(3)]
        pos_text = [esd(rng, t) if with_esd and f is None else t for t, f in xyz]
        kind = adp_mode if adp_mode not in ("mixed",) else ["Uiso", "Uani", "Biso", "Bani"][int(rng.integers(4))]
        a = {"label": label, "el": el, "pos_text": pos_text, "pos_exact": [f for _, f in xyz], "kind": kind}
        if kind in ("Uiso", "Biso"):
            a["iso_text"] = esd(rng, "%.4f" % (rng.uniform(0.005, 0.09) * (8 * math.pi ** 2 if kind == "Biso" else 1)))
        if kind in ("Uani", "Bani"):
            f = 8 * math.pi ** 2 if kind == "Bani" else 1
            a["ani_text"] = [esd(rng, "%.4f" % (rng.uniform(0.01, 0.08) * f)) for _ in range(3)] + \
                            [esd(rng, "%.4f" % (rng.uniform(-0.01, 0.01) * f)) for _ in range(3)]     # 11 22 33 23 13 12
        a["occ_text"] = esd(rng, "%.3f" % rng.uniform(0.05, 1.0)) if rng.random() < 0.5 else "1"
        a["multi_text"] = str(int(rng.choice([1, 2, 3, 4, 6, 8, 12, 16, 24, 48, 96, 192])))
        atoms.append(a)
    disp = {}
    for el in used:
        disp[el] = ["%.4f" % rng.uniform(-2, 2), "%.4f" % rng.uniform(0, 5)]
    L = []
    glob = rng.random() < 0.3
    gtext = "data_global\n_audit_creation_method 'vfw generator'\n_journal_name_full 'none'\n\n"
    if glob and rng.random() < 0.5:
        L.append(gtext)
        glob = False
        had_global = True
    else:
        had_global = glob
    L.append("data_case\n")
    L.append("_symmetry_cell_setting %s\n" % system)
    L.append("_symmetry_space_group_name_H-M '%s'\n" % sym)
    for key, t in zip(("length_a", "length_b", "length_c", "angle_alpha", "angle_beta", "angle_gamma"), ctext):
        L.append("_cell_%s %s\n" % (key, t))
    if type_loop != "absent":
        L.append("loop_\n_atom_type_symbol\n_atom_type_description\n")
        if type_loop == "full":
            L.append("_atom_type_scat_dispersion_real\n_atom_type_scat_dispersion_imag\n")
        L.append("_atom_type_scat_source\n")
        for el in used:
            if type_loop == "full":
                L.append("%s %s %s %s 'ITC C'\n" % (el, el, disp[el][0], disp[el][1]))
            else:
                L.append("%s %s 'ITC C'\n" % (el, el))
    cols = ["_atom_site_label", "_atom_site_type_symbol", "_atom_site_fract_x", "_atom_site_fract_y", "_atom_site_fract_z"]
    if adp_mode != "absent":
        if any(a["kind"] in ("Uiso", "Uani") for a in atoms) or adp_mode == "mixed":
            cols.append("_atom_site_U_iso_or_equiv")
        if any(a["kind"] in ("Biso", "Bani") for a in atoms) or adp_mode == "mixed":
            cols.append("_atom_site_B_iso_or_equiv")
        cols.append("_atom_site_adp_type")
    if occ_col:
        cols.append("_atom_site_occupancy")
    if multi_key:
        cols.append(multi_key)
    L.append("loop_\n" + "".join(c + "\n" for c in cols))
    for a in atoms:
        row = []
        for c in cols:
            if c == "_atom_site_label":
                row.append("'%s'" % a["label"] if "'" not in a["label"] else '"%s"' % a["label"])
            elif c == "_atom_site_type_symbol":
                row.append(a["el"])
            elif c.startswith("_atom_site_fract_"):
                row.append(a["pos_text"]["xyz".index(c[-1])])
            elif c == "_atom_site_U_iso_or_equiv":
                row.append(a.get("iso_text", "0.0300") if a["kind"] in ("Uiso",) else ("0.0300" if a["kind"] == "Uani" else "."))
            elif c == "_atom_site_B_iso_or_equiv":
                row.append(a.get("iso_text", "2.3000") if a["kind"] in ("Biso",) else ("2.3000" if a["kind"] == "Bani" else "."))
            elif c == "_atom_site_adp_type":
                row.append(a["kind"])
            elif c == "_atom_site_occupancy":
                row.append(a["occ_text"])
            else:
                row.append(a["multi_text"])
        L.append(" ".join(row) + "\n")
    ani = [a for a in atoms if adp_mode != "absent" and a["kind"] in ("Uani", "Bani")]
    if ani:
        kinds = sorted(set(a["kind"][0] for a in ani))
        acol = ["_atom_site_aniso_label"]
        for kch in kinds:
            acol += ["_atom_site_aniso_%s_%s" % (kch, ij) for ij in ("11", "22", "33", "23", "13", "12")]
        order = list(rng.permutation(len(ani)))           # the aniso loop need not follow the site order
        L.append("loop_\n" + "".join(c + "\n" for c in acol))
        for i in order:
            a = ani[int(i)]
            row = ["'%s'" % a["label"] if "'" not in a["label"] else '"%s"' % a["label"]]
            for kch in kinds:
                row += a["ani_text"] if a["kind"][0] == kch else ["."] * 6
            L.append(" ".join(row) + "\n")
    if glob:
        L.append("\n" + gtext)
    # ---- the record of what the file states
    num = lambda t: float(t.split("(")[0])
    rec = {"cell": [num(t) for t in ctext], "sgname": "".join(sym.split()), "no": no, "setting": setting, "atoms": [], "dispersion": {}}
    for a in atoms:
        r = {"label": a["label"], "atomtype": a["el"].upper(), "pos": [num(t) for t in a["pos_text"]],
             "pos_exact": [[f.numerator, f.denominator] if f is not None else None for f in a["pos_exact"]]}
        k = a["kind"] if adp_mode != "absent" else None
        if k is None:
            r["adp_type"], r["adp"] = None, 0.0
        elif k == "Uiso":
            r["adp_type"], r["adp"] = "Uiso", num(a["iso_text"])
        elif k == "Biso":
            r["adp_type"], r["adp"] = "Uiso", num(a["iso_text"]) / (8 * math.pi ** 2)
        elif k == "Uani":
            r["adp_type"], r["adp"] = "Uani", [num(t) for t in a["ani_text"]]
        else:
            r["adp_type"], r["adp"] = "Uani", [num(t) / (8 * math.pi ** 2) for t in a["ani_text"]]
        r["occ"] = num(a["occ_text"]) if occ_col else 1.0
        r["multi"] = float(a["multi_text"]) if multi_key else None
        rec["atoms"].append(r)
    for el in used:
        rec["dispersion"][el.upper()] = [float(disp[el][0]), float(disp[el][1])] if type_loop == "full" else None
    rec["features"] = {"adp": adp_mode, "occ": occ_col, "multi": multi_key or "absent", "type_loop": type_loop, "esd": with_esd,
                       "global": had_global}
    return "".join(L), rec


# ------------------------------------------------------------------------------ PDB generator
def make_pdb(rng, symbol, no):
    system = system_of(no)
    cell = gen.conforming_cell(rng, system)
    cell = [float("%.3f" % v) if i < 3 else float("%.2f" % v) for i, v in enumerate(cell)]
    A = oracle.upper_triangular_factor(oracle.metric(cell))
    S = np.linalg.inv(A)
    trans = rng.uniform(-0.5, 0.5, 3) if rng.random() < 0.3 else np.zeros(3)
    sym = symbol if rng.random() < 0.7 else symbol.lower() if rng.random() < 0.5 else symbol.capitalize()
    L = ["HEADER    GENERATED BY VFW\n", "REMARK 200 nothing\n"]
    L.append("CRYST1%9.3f%9.3f%9.3f%7.2f%7.2f%7.2f %-11s%4d\n" % (cell[0], cell[1], cell[2], cell[3], cell[4], cell[5], sym, 1))
    stext = []
    for i in range(3):
        line = "SCALE%d    %10.6f%10.6f%10.6f     %10.5f\n" % (i + 1, S[i, 0], S[i, 1], S[i, 2], trans[i])
        stext.append([float(x) for x in line.split()[1:]])
        L.append(line)
    Sp = np.array(stext)                              # the SCALE matrix as printed (3 x 4)
    rec = {"cell": cell, "symbol": symbol, "no": no, "atoms": []}
    natoms = int(rng.integers(1, 13))
    for i in range(natoms):
        el = ELEMENTS[int(rng.integers(len(ELEMENTS)))]
        frac = rng.uniform(0, 1, 3)
        if rng.random() < 0.25:
            frac = np.array([float(SPECIAL[int(rng.integers(4))][1]) for _ in range(3)])
        if rng.random() < 0.4:
            frac = frac + rng.integers(-9, 10, 3)       # molecules outside the reference cell: negative / 8-character coordinates
        xyz = A @ frac
        if np.any(np.abs(xyz) >= 999.0):
            xyz = A @ (frac % 1)
        rectype = "ATOM  " if rng.random() < 0.7 else "HETATM"
        name = (" %-3s" % (el.upper() + "ABCD"[int(rng.integers(4))]))[:4] if len(el) == 1 else ("%-4s" % (el.upper() + "12"[int(rng.integers(2))]))[:4]
        occ = float("%.2f" % rng.uniform(0.1, 1.0))
        B = float("%.2f" % (rng.uniform(2, 80) if rng.random() < 0.7 else rng.uniform(100, 999.9)))   # 6-character field filled
        line = "%s%5d %4s %3s %s%4d    %8.3f%8.3f%8.3f%6.2f%6.2f          %2s  \n" % (
            rectype, i + 1, name, "LIG", "A", 1 + i // 3, xyz[0], xyz[1], xyz[2], occ, B, el.upper() if rng.random() < 0.7 else el)
        L.append(line)
        px, py, pz = float(line[30:38]), float(line[38:46]), float(line[46:54])
        rec["atoms"].append({"label": "".join(name.split()), "atomtype": el.upper(), "pos": (Sp @ np.array([px, py, pz, 1.0])).tolist(),
                             "adp": B / (8 * math.pi ** 2), "occ": occ})
        if rng.random() < 0.2:
            L.append("ANISOU%5d %4s %3s %s%4d    %7d%7d%7d%7d%7d%7d\n" % (i + 1, name, "LIG", "A", 1, 100, 100, 100, 0, 0, 0))
    L.append("END\n")
    return "".join(L), rec


# ------------------------------------------------------------------------------ monitors
def setup(ctx):
    from xfab import structure, sg as sgmod
    ctx.S, ctx.sgmod = structure, sgmod
    ctx.records = {}
    ctx.dir = os.path.join(boot.WORK, "c17-%d-%d" % (os.getpid(), ctx.shard))
    os.makedirs(ctx.dir, exist_ok=True)
    mon = ctx.mon
    c04.install_invariant(ctx)
    observe.watch("structure.build_atomlist.CIFread", structure.build_atomlist.CIFread)
    observe.watch("structure.build_atomlist.PDBread", structure.build_atomlist.PDBread)
    observe.watch("structure.build_atomlist.CIFopen", structure.build_atomlist.CIFopen)

    def orbit(no, setting, pos_exact, pos):
        """number of distinct images of the float position; None when two images are neither clearly equal
        (< 1e-7) nor clearly distinct (> 1e-3): an approximately special position is outside the property"""
        ops, nsymop, name, _ = c15.setting_ops(sgmod, no, "rhombohedral" if setting == "rhombohedral" else "standard")
        p = np.asarray(pos, float)
        imgs = np.array([np.asarray(R, float) @ p + np.asarray(t, float) / sx.DEN for R, t in ops])
        reps = []
        for q in imgs:
            for r in reps:
                d = q - r
                dist = float(np.sum(np.abs(d - np.round(d))))
                if dist < 1e-7:
                    break
                if dist < 1e-3:
                    return None
            else:
                reps.append(q)
        return len(reps)

    def post_CIFread(self, ciffile):
        rec = ctx.records.get(ciffile)
        if rec is None:
            return
        name = "post:structure.build_atomlist.CIFread"
        al = self.atomlist
        mon.check(name, list(al.cell) == rec["cell"], observed=al.cell, expected=rec["cell"], detail="cell")
        mon.check(name, al.sgname == rec["sgname"], observed=al.sgname, expected=rec["sgname"], detail="space-group symbol without blanks")
        ok = len(al.atom) == len(rec["atoms"])
        mon.check(name, ok, observed=len(al.atom), expected=len(rec["atoms"]), detail="number of atoms")
        if not ok:
            return
        for got, want in zip(al.atom, rec["atoms"]):
            bad = []
            if got.label != want["label"]:
                bad.append("label %r != %r" % (got.label, want["label"]))
            if got.atomtype != want["atomtype"]:
                bad.append("atomtype %r != %r" % (got.atomtype, want["atomtype"]))
            if [float(x) for x in got.pos] != want["pos"]:
                bad.append("pos %r != %r" % (list(got.pos), want["pos"]))
            if want["adp_type"] is None:
                if got.adp_type in ("Uiso", "Uani", "Biso", "Bani") and got.adp not in (0, 0.0, None):
                    bad.append("adp %r/%r for a file without displacement parameters" % (got.adp_type, got.adp))
            else:
                if got.adp_type != want["adp_type"]:
                    bad.append("adp_type %r != %r" % (got.adp_type, want["adp_type"]))
                try:
                    g = np.asarray(got.adp, float)
                    w = np.asarray(want["adp"], float)
                    if g.shape != w.shape or np.max(np.abs(g - w)) > 1e-12:
                        bad.append("adp %r != %r (order 11,22,33,23,13,12; B/(8 pi^2))" % (got.adp, want["adp"]))
                except Exception:
                    bad.append("adp %r" % (got.adp,))
            if got.occ != want["occ"]:
                bad.append("occ %r != %r" % (got.occ, want["occ"]))
            wm = want["multi"]
            if wm is None:
                wm = orbit(rec["no"], rec["setting"], want["pos_exact"], want["pos"])
            if wm is None:
                mon.config("skipped:approximately special position")
            elif got.symmulti != wm:
                bad.append("symmulti %r != %r (%s)" % (got.symmulti, wm, "file value" if want["multi"] is not None else "exact orbit count"))
            mon.check(name, not bad, observed="; ".join(bad) or None, detail={"atom": want["label"], "group": rec["sgname"]})
        d = dict(al.dispersion)
        ok = set(d) == set(rec["dispersion"]) and all(
            (d[k] is None and rec["dispersion"][k] is None) or
            (d[k] is not None and rec["dispersion"][k] is not None and [float(x) for x in d[k]] == rec["dispersion"][k]) for k in d)
        mon.check(name, ok, observed=d, expected=rec["dispersion"], detail="dispersion")

    def post_PDBread(self, pdbfile):
        rec = ctx.records.get(pdbfile)
        if rec is None:
            return
        name = "post:structure.build_atomlist.PDBread"
        al = self.atomlist
        mon.check(name, list(al.cell) == rec["cell"], observed=al.cell, expected=rec["cell"], detail="cell")
        judge_pdb_symbol(ctx, name, al.sgname, rec)
        ok = len(al.atom) == len(rec["atoms"])
        mon.check(name, ok, observed=len(al.atom), expected=len(rec["atoms"]), detail="number of atoms")
        if not ok:
            return
        for got, want in zip(al.atom, rec["atoms"]):
            bad = []
            if got.label != want["label"]:
                bad.append("label %r != %r" % (got.label, want["label"]))
            if got.atomtype != want["atomtype"]:
                bad.append("atomtype %r != %r" % (got.atomtype, want["atomtype"]))
            if np.max(np.abs(np.asarray(got.pos, float) - np.asarray(want["pos"]))) > 1e-12:
                bad.append("pos %r != SCALE.xyz = %r" % (list(got.pos), want["pos"]))
            if got.adp_type != "Uiso" or abs(got.adp - want["adp"]) > 1e-15:
                bad.append("adp %r/%r != Uiso/%r" % (got.adp_type, got.adp, want["adp"]))
            if got.occ != want["occ"]:
                bad.append("occ %r != %r" % (got.occ, want["occ"]))
            wm = orbit(rec["no"], "standard", [None, None, None], want["pos"])
            if wm is None:
                mon.config("skipped:approximately special position")
            elif got.symmulti != wm:
                bad.append("symmulti %r != %r (orbit count in group %d)" % (got.symmulti, wm, rec["no"]))
            mon.check(name, not bad, observed="; ".join(bad) or None, detail={"atom": want["label"], "symbol": rec["symbol"]})

    ctx.ensure(structure.build_atomlist, "CIFread", post_CIFread, label="structure.build_atomlist.CIFread", pure=False)
    ctx.ensure(structure.build_atomlist, "PDBread", post_PDBread, label="structure.build_atomlist.PDBread", pure=False)


def judge_pdb_symbol(ctx, name, sgname, rec):
    mon = ctx.mon
    tokens = rec["symbol"].split()
    full = "".join(tokens).lower()
    stripped = "".join(t for t in tokens if t != "1").lower()
    bad = []
    if not isinstance(sgname, str) or any(ch.isspace() for ch in sgname):
        bad.append("symbol %r contains blanks" % (sgname,))
    else:
        # a '1' is a place-holder in a full monoclinic symbol (lattice letter + three axis symbols, two of them '1':
        # P 1 21 1, C 1 2 1, P 1 21/c 1); it is part of the name in P 1, P -1, P 3 2 1, P 3 1 m, ...
        placeholders = len(tokens) == 4 and sum(1 for t in tokens[1:] if t == "1") == 2
        want = stripped if placeholders else full
        if sgname.lower() != want:
            bad.append("symbol %r is not %r" % (sgname, want))
        try:
            o = ctx.sgmod.sg(sgname=sgname)
            if o.no != rec["no"]:
                bad.append("symbol %r resolves to group %d, the file states %s = %d" % (sgname, o.no, rec["symbol"], rec["no"]))
        except Exception as exc:
            bad.append("symbol %r does not resolve through xfab.sg: %r" % (sgname, exc))
    mon.check(name, not bad, observed="; ".join(bad) or None, expected=None if not bad else "%s (no %d)" % (rec["symbol"], rec["no"]),
              detail="space-group symbol")


def workload(ctx):
    rng = ctx.rng(1)
    settings = []
    for no in range(1, 231):
        settings.append((no, "standard"))
        if no in c04.R_GROUPS:
            settings.append((no, "rhombohedral"))
    order = rng.permutation(len(settings))
    ncif = ctx.n(60, 2400)
    for j in range(ncif):
        no, setting = settings[int(order[(j * max(1, ctx.nshards) + ctx.shard) % len(settings)])]
        yield "cif", {"no": no, "setting": setting, "s": int(rng.integers(0, 2 ** 31))}
    for j, (sym, no) in enumerate(PDB_SYMBOLS):
        if ctx.mine(j):
            for rep in range(ctx.n(1, 30)):
                yield "pdb", {"symbol": sym, "no": no, "s": int(rng.integers(0, 2 ** 31))}


def case_cif(ctx, p):
    mon = ctx.mon
    rng = np.random.default_rng(p["s"])
    o = c04.Table(p["no"], p["setting"])
    text, rec = make_cif(rng, o.name, p["no"], p["setting"])
    path = os.path.join(ctx.dir, "case_%d.cif" % (p["s"] % 3))      # three paths, rewritten over and over
    with open(path, "w") as fh:
        fh.write(text)
    ctx.records[path] = rec
    for k, v in rec["features"].items():
        mon.config("cif:%s=%s" % (k, v))
    if len(rec["atoms"]) >= 2:
        mon.nontriv(text)
    if ctx.replaying:
        mon.note(text)
    try:
        b = ctx.S.build_atomlist()
        b.CIFread(ciffile=path)
    except Exception as exc:
        mon.check("workload:CIFread raises on a well-formed file", False, observed=repr(exc), detail={"file": text[:1500]})
    finally:
        ctx.records.pop(path, None)
        os.unlink(path)


def case_pdb(ctx, p):
    mon = ctx.mon
    rng = np.random.default_rng(p["s"])
    text, rec = make_pdb(rng, p["symbol"], p["no"])
    path = os.path.join(ctx.dir, "case_%d.pdb" % (p["s"] % 3))
    with open(path, "w") as fh:
        fh.write(text)
    ctx.records[path] = rec
    mon.config("pdb:%s" % p["symbol"])
    if len(rec["atoms"]) >= 2:
        mon.nontriv(text)
    try:
        b = ctx.S.build_atomlist()
        b.PDBread(pdbfile=path)
    except Exception as exc:
        mon.check("workload:PDBread raises on a well-formed file", False, observed=repr(exc),
                  detail={"symbol": p["symbol"], "CRYST1": [l for l in text.splitlines() if l.startswith("CRYST1")]})
    finally:
        ctx.records.pop(path, None)
        os.unlink(path)


CASES = {"cif": case_cif, "pdb": case_pdb}


def finish(ctx):
    shutil.rmtree(ctx.dir, ignore_errors=True)
