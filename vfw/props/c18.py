"""C18 - reduce_cell returns a primitive cell of the same lattice."""
import itertools
import math

import numpy as np

from vfw import contracts, gen, oracle, observe

ID = "C18"
RULE = ("cells: generic oblique, near-orthogonal, orthogonal (orthorhombic/tetragonal/cubic, where the open finding is invisible and "
        "the whole property must hold), special angles {45,60,90,120,135} with small-integer axis ratios, tie lattices (cubic, "
        "tetragonal, hexagonal, rhombohedral 60 and 109.47 deg), and reduced cells re-described by random unimodular matrices with "
        "entries in {-1,0,1}; a case is judged only if the successive minima found in the box |u|,|v|,|w| <= 2 equal those found in "
        "the box <= 5 (the property's range condition); both modules; non-trivial = non-orthogonal input; distinct = distinct cell")
ASSUMPTIONS = ["successive minima are computed by exhaustive enumeration of the integer box (harness), greedy by rank",
               "lattice equivalence is decided by searching integer matrices N (entries |n| <= 4) with N'GN = G_result to 1e-8",
               "the argument reduce_cell hands to a_to_cell (chosen lattice vectors, as rows or as columns) is recorded by a spy on the module attribute",
               "open finding C18-transposed-basis is recognised from the output alone: the returned metric equals sum v_i v_i' (R'R of the row-stacked basis) for lattice vectors v_i that realise the successive minima and form a basis; the spy on a_to_cell is an auxiliary observation (no floor): an implementation need not call it"]
FLOORS = {"post:tools.reduce_cell volume": 150, "post:laue.reduce_cell volume": 150,
          "post:tools.reduce_cell same lattice": 150, "post:laue.reduce_cell same lattice": 150}
FINDING = "C18-transposed-basis"
_BOX = {}


def box(n):
    if n not in _BOX:
        r = range(-n, n + 1)
        _BOX[n] = np.array([v for v in itertools.product(r, r, r) if v != (0, 0, 0)], dtype=float)
    return _BOX[n]


def minima(G, n):
    """successive minima (lengths) of the lattice with metric G within the integer box |coef| <= n"""
    V = box(n)
    l2 = np.einsum("ij,jk,ik->i", V, G, V)
    order = np.argsort(l2, kind="stable")
    A = oracle.upper_triangular_factor(G)
    basis = []
    lam = []
    scale = math.sqrt(float(l2[order[0]]))
    for idx in order:
        v = A @ V[idx]
        if len(basis) == 0:
            ok = True
        elif len(basis) == 1:
            ok = np.linalg.norm(np.cross(basis[0], v)) > 1e-7 * scale * np.linalg.norm(v)
        else:
            ok = abs(np.dot(np.cross(basis[0], basis[1]), v)) > 1e-7 * scale * scale * np.linalg.norm(v)
        if ok:
            basis.append(v)
            lam.append(math.sqrt(float(l2[idx])))
            if len(basis) == 3:
                break
    return lam


def equivalent(G, Gr, tol=1e-8):
    """is there an integer N (|entries| <= 4) with det +-1 and N'GN = Gr ?"""
    V = box(4)
    l2 = np.einsum("ij,jk,ik->i", V, G, V)
    scale = float(np.max(np.abs(Gr)))
    cands = [V[np.abs(l2 - Gr[i, i]) <= tol * scale] for i in range(3)]
    if any(len(c) == 0 for c in cands):
        return False
    GV = [c @ G for c in cands]
    for i0, n0 in enumerate(cands[0]):
        d01 = GV[0][i0] @ cands[1].T
        for i1 in np.nonzero(np.abs(d01 - Gr[0, 1]) <= tol * scale)[0]:
            n1 = cands[1][i1]
            d02 = GV[0][i0] @ cands[2].T
            d12 = GV[1][i1] @ cands[2].T
            ok = (np.abs(d02 - Gr[0, 2]) <= tol * scale) & (np.abs(d12 - Gr[1, 2]) <= tol * scale)
            for i2 in np.nonzero(ok)[0]:
                N = np.column_stack([n0, n1, cands[2][i2]])
                if abs(abs(np.linalg.det(N)) - 1) < 1e-9:
                    return True
    return False


def transposed_basis_metric(G, Gr, lam, tol=1e-8):
    """mechanism of the open finding, recognised from the output alone: the returned metric is sum_i v_i v_i' (= R'R for the
    row-stacked basis R) of three lattice vectors v_i that DO realise the successive minima and form a basis of the lattice,
    written in the Cartesian frame of form_a_mat (a along x, b in the xy plane).  The sum does not depend on the order or the
    signs of the v_i, so only the choice among vectors of equal length is searched."""
    A = oracle.upper_triangular_factor(G)
    V = box(3)
    l2 = np.einsum("ij,jk,ik->i", V, G, V)
    scale = float(np.max(np.abs(Gr)))
    cands = []
    for lm in lam:
        idx = np.nonzero(np.abs(np.sqrt(l2) - lm) <= 1e-8 * lam[2])[0]
        # one of each +-pair
        keep = [i for i in idx if tuple(V[i]) > tuple(-V[i])]
        if not keep or len(keep) > 24:
            return False
        cands.append(keep)
    for i0 in cands[0]:
        for i1 in cands[1]:
            for i2 in cands[2]:
                N = np.array([V[i0], V[i1], V[i2]])
                if abs(abs(np.linalg.det(N)) - 1) > 1e-9:
                    continue
                R = (A @ N.T).T
                if np.max(np.abs(R.T @ R - Gr)) <= tol * scale:
                    return True
    return False


def install(ctx, module):
    mon = ctx.mon
    m = module.__name__.split(".")[-1]
    seen = []

    def after(args, kwargs, result, exc):
        if ctx.in_reduce.get(m):
            seen.append(np.array(args[0], float))
    contracts.spy(module, "a_to_cell", after=after)
    ctx.seen[m] = seen
    orig = module.reduce_cell
    observe.watch("%s.reduce_cell" % m, orig)

    def post_reduce_cell(unit_cell, result):
        judge(ctx, m, [float(x) for x in unit_cell], result, seen[-1] if seen else None)
    ctx.ensure(module, "reduce_cell", post_reduce_cell)


def judge(ctx, m, cell, result, R):
    mon = ctx.mon
    G = oracle.metric(cell)
    if oracle.gram_det_angular(cell) < 0.02:
        return
    lam2, lam5 = minima(G, 2), minima(G, 5)
    if len(lam2) < 3 or max(abs(a - b) for a, b in zip(lam2, lam5)) > 1e-9 * lam5[2]:
        mon.config("skipped:reduced basis outside the |u|,|v|,|w|<=2 range")
        return
    mon.config("judged")
    r = np.asarray(result, float)
    if not (r.shape == (6,) and np.all(np.isfinite(r)) and np.all(r[:3] > 0)):
        mon.check("post:%s.reduce_cell volume" % m, False, observed=result, expected="six finite parameters")
        return
    Gr = oracle.metric(r)
    V = oracle.volume(cell)
    mon.close("post:%s.reduce_cell volume" % m, math.sqrt(max(np.linalg.det(Gr), 0.0)), V, rtol=1e-8)
    # --- the vectors the function chose (rows of the array handed to a_to_cell) -------------------------
    R_ok = None
    if R is not None and R.shape == (3, 3):
        A = oracle.upper_triangular_factor(G)

        def problems(Rv):
            """Rv: rows = chosen lattice vectors"""
            coef = np.linalg.inv(A) @ Rv.T                  # columns: integer coefficients of the chosen vectors
            ci = np.rint(coef)
            bad = []
            if np.max(np.abs(coef - ci)) > 1e-6:
                bad.append("chosen vectors are not lattice vectors")
            elif abs(abs(np.linalg.det(ci)) - 1) > 1e-9:
                bad.append("chosen vectors have index %g in the lattice" % abs(np.linalg.det(ci)))
            lens = sorted(np.linalg.norm(Rv, axis=1))
            if max(abs(a - b) for a, b in zip(lens, lam5)) > 1e-8 * lam5[2]:
                bad.append("lengths %s are not the successive minima %s" % ([round(x, 6) for x in lens], [round(x, 6) for x in lam5]))
            return bad
        # whether the function stacks its vectors as rows or as columns is its own business: either reading may pass
        bad = problems(R)
        if bad and not problems(R.T):
            bad, R = [], R.T
            mon.config("a_to_cell argument: vectors are the columns")
        elif not bad:
            mon.config("a_to_cell argument: vectors are the rows")
        R_ok = not bad
        mon.check("post:%s.reduce_cell chosen vectors are the shortest non-coplanar lattice vectors" % m, R_ok,
                  observed=None if R_ok else R, detail="; ".join(bad) or None)
    # --- the returned cell ----------------------------------------------------------------------------------
    same = equivalent(G, Gr)
    edges = sorted(r[:3])
    shortest = max(abs(a - b) for a, b in zip(edges, lam5)) <= 1e-8 * lam5[2]
    ok = same and shortest
    finding = None
    if not ok and transposed_basis_metric(G, Gr, lam5):
        finding = FINDING
    mon.check("post:%s.reduce_cell same lattice" % m, ok, observed=None if ok else r,
              expected=None if ok else "metric N'GN with integer unimodular N and edges = successive minima %s" % ([round(x, 6) for x in lam5],),
              detail=None if ok else {"cell": cell, "lattice_equivalent": bool(same), "edges_are_minima": bool(shortest)}, finding=finding)
    if ok:
        mon.config("full property observed to hold")


def setup(ctx):
    from xfab import tools, laue
    ctx.T, ctx.L = tools, laue
    ctx.seen = {}
    ctx.in_reduce = {}
    install(ctx, tools)
    install(ctx, laue)


KINDS = ["oblique", "near_orth", "orthogonal", "special", "ties", "unimodular", "special", "unimodular", "oblique", "small", "integer"]


def reducedish(rng):
    """a cell that is its own reduced cell (Niggli-like: angles 60..120 with a<=b<=c comfortably)"""
    for _ in range(1000):
        abc = np.sort(rng.uniform(3, 9, 3))
        ang = rng.uniform(75, 105, 3)
        c = [float(abc[0]), float(abc[1]), float(abc[2]), float(ang[0]), float(ang[1]), float(ang[2])]
        if oracle.gram_det_angular(c) > 0.3:
            return c
    raise RuntimeError


def workload(ctx):
    rng = ctx.rng(1)
    for i in range(ctx.n(700, 20000)):
        kind = KINDS[i % len(KINDS)]
        if kind == "oblique":
            c, _ = gen.cell(rng, ["generic", "oblique", "one90", "two_equal"][int(rng.integers(4))])
            c = [float(x) for x in np.concatenate([np.array(c[:3]) / max(1.0, min(c[:3]) / 3.0), c[3:]])]
        elif kind == "near_orth":
            c, _ = gen.cell(rng, "near_orth")
        elif kind == "integer":
            # whole-number parameters, handed over as Python ints / an integer array
            c = [int(v) for v in rng.integers(2, 12, 3)] + [int(v) for v in rng.choice([60, 75, 90, 90, 100, 120, 135, 150], 3)]
            if oracle.gram_det_angular(c) < 0.05:
                continue
        elif kind == "small":
            # sub-Angstrom axes (reciprocal-space or reduced-unit usage): absolute tolerances inside the search matter here
            c, _ = gen.cell(rng, ["generic", "near_orth", "one90"][int(rng.integers(3))])
            ratio = max(c[:3]) / min(c[:3])
            if ratio > 4:
                c = [float(x) for x in rng.uniform(1.0, 3.0, 3)] + c[3:]
                if oracle.gram_det_angular(c) < 0.05:
                    continue
            f = float(rng.uniform(0.15, 2.0)) / max(c[:3])
            c = [c[0] * f, c[1] * f, c[2] * f] + c[3:]
        elif kind == "orthogonal":
            a, b, cc = (float(x) for x in rng.uniform(2, 12, 3))
            c = [[a, b, cc], [a, a, cc], [a, a, a], [a, b, b]][int(rng.integers(4))] + [90.0, 90.0, 90.0]
        elif kind == "special":
            if rng.random() < 0.5:
                ang = [float(rng.choice([45.0, 60.0, 90.0, 90.0, 120.0, 135.0])) for _ in range(3)]
                base = float(rng.choice([1.0, 1.5, 2.0, 3.0]))
                c = [base * float(rng.integers(2, 16)) for _ in range(3)] + ang
            else:
                # one oblique special angle, the other two 90 deg: lattice vectors lying exactly between two Cartesian axes
                ang = [90.0, 90.0, 90.0]
                ang[int(rng.integers(3))] = float(rng.choice([45.0, 135.0, 60.0, 120.0]))
                c = [float(x) for x in rng.uniform(2, 16, 3)] if rng.random() < 0.5 else [float(rng.integers(2, 16)) for _ in range(3)]
                c = c + ang
            if oracle.gram_det_angular(c) < 0.05:
                continue
        elif kind == "ties":
            a, cc = float(rng.uniform(3, 8)), float(rng.uniform(3, 8))
            c = [[a, a, a, 90.0, 90.0, 90.0], [a, a, cc, 90.0, 90.0, 90.0], [a, a, cc, 90.0, 90.0, 120.0], [a, a, a, 60.0, 60.0, 60.0],
                 [a, a, a, 109.47122063449069, 109.47122063449069, 109.47122063449069], [a, cc, cc, 90.0, 90.0, 90.0],
                 [4.05, 4.05, 4.05, 90.0, 90.0, 90.0], [a, a, a, 75.0, 75.0, 75.0]][int(rng.integers(8))]
        else:
            # a reduced lattice (oblique, or cubic / tetragonal / orthorhombic) described in another basis: entries up to 3 in modulus,
            # half of them products of elementary shears (not triangular, not a permutation)
            j = int(rng.integers(4))
            if j == 0:
                a, b, cc = (float(x) for x in np.sort(rng.uniform(3, 9, 3)))
                base = [[a, a, a], [a, a, cc], [a, b, cc]][int(rng.integers(3))] + [90.0, 90.0, 90.0]
            else:
                base = reducedish(rng)
            if rng.random() < 0.5:
                while True:
                    M = rng.integers(-1, 2, (3, 3))
                    if abs(round(np.linalg.det(M))) == 1:
                        break
            else:
                while True:
                    M = np.eye(3, dtype=int)
                    for _ in range(int(rng.integers(2, 6))):
                        E = np.eye(3, dtype=int)
                        r, q = rng.choice(3, 2, replace=False)
                        E[r, q] = int(rng.choice([-2, -1, 1, 2]))
                        M = M @ E
                    M = M[:, rng.permutation(3)]
                    if np.max(np.abs(M)) <= 3:
                        break
            G = M.T @ oracle.metric(base) @ M
            c = oracle.cell_from_metric(G)
            if oracle.gram_det_angular(c) < 0.02:
                continue
        yield "reduce", {"cell": [int(x) for x in c] if kind == "integer" else [float(x) for x in c], "kind": kind}


def case_reduce(ctx, p):
    mon = ctx.mon
    c = p["cell"]
    mon.config("kind:" + p["kind"])
    if max(abs(a - 90.0) for a in c[3:]) > 1e-6:
        mon.nontriv(c)
    for mod, m in ((ctx.T, "tools"), (ctx.L, "laue")):
        del ctx.seen[m][:]
        ctx.in_reduce[m] = True
        try:
            arg = np.array(c) if p["kind"] == "orthogonal" or (p["kind"] == "integer" and c[0] % 2) else (tuple(c) if p["kind"] == "integer" and c[1] % 2 else c)
            # the default search range, left out / passed by position / passed by keyword
            form = int(c[0] * 1e6) % 3
            if form == 0:
                mod.reduce_cell(arg)
            elif form == 1:
                mod.reduce_cell(arg, 3)
            else:
                mod.reduce_cell(arg, uvw=3)
            mon.config("call form:%s" % ("reduce_cell(cell)", "reduce_cell(cell, 3)", "reduce_cell(cell, uvw=3)")[form])
        except Exception as exc:
            mon.check("workload:%s.reduce_cell raises on a valid cell" % m, False, observed=repr(exc), detail=c)
        finally:
            ctx.in_reduce[m] = False
        if p["kind"] in ("orthogonal", "ties", "unimodular", "oblique") and int(c[0] * 1e6) % 3 == 0:
            # the same float64 array, seen once, then given new contents in place, then handed in again
            held = np.array(c, float)
            held[:3] *= 1.0625            # numbers the module has not seen before: its first sight of them is this very object
            ctx.in_reduce[m] = True
            try:
                mod.reduce_cell(held)
                held[:3] *= 1.0 + 0.37 * ((int(c[1] * 1e6) % 5) + 1) / 5.0
                held[:3] = held[[1, 2, 0]] if int(c[2] * 1e6) % 2 and p["kind"] == "orthogonal" else held[:3]
                del ctx.seen[m][:]
                mod.reduce_cell(held)
            except Exception as exc:
                mon.check("workload:%s.reduce_cell raises on a valid cell" % m, False, observed=repr(exc), detail=held)
            finally:
                ctx.in_reduce[m] = False


CASES = {"reduce": case_reduce}
