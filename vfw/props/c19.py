"""C19 - parameter sets survive save/load and stay consistent under any call sequence."""
import os
import shutil
import struct

import math

import numpy as np

from vfw import boot, observe

ID = "C19"
RULE = ("random sequences (length <= 30) of addpar, set, set_parameters, set_varylist, set_variable_values, update_other, "
        "update_yourself, saveparameters, loadparameters (same object, fresh object, hand-written files with numeric-looking strings "
        "and hyphenated names) over a pool of 10 names; after every step the whole observable state is compared with a dictionary "
        "model; values: ints (0, negative, > 2^53, up to 10^300), floats from random bit patterns incl. -0.0, subnormals, 1.797e308, "
        "17-digit values, space-free non-numeric strings; non-trivial = sequence with >= 3 mutating steps incl. a save/load; "
        "distinct = distinct operation sequence")
ASSUMPTIONS = ["the executable model is the 40-line dictionary model in this file (documented coercion: int if int() parses, else float if float() parses, else stripped string; '-' -> '_' in names on load)",
               "ints beyond 10^300 and strings containing blanks are outside the generator (the file format cannot carry them)",
               "floats are compared by their IEEE bit pattern, ints and strings by type and value"]
FLOORS = {"model:state agrees after step": 2000, "model:save -> load into a fresh object gives the same mapping": 150,
          "model:varied values follow varylist order": 2000}
NAMES = ["cell_a", "cell_b", "wavelength", "t_x", "o11", "fit-tol", "y-center", "spacegroup", "distance", "chi", "o-1-2", "z-center-px"]


def same_value(a, b):
    if type(a) is not type(b):
        if isinstance(a, (float, np.floating)) and isinstance(b, (float, np.floating)):
            pass
        else:
            return False
    if isinstance(a, float):
        return struct.pack("d", a) == struct.pack("d", float(b))
    return a == b


def same_map(a, b):
    return set(a) == set(b) and all(same_value(a[k], b[k]) for k in a)


def coerce(value):
    """documented coercion of a string on load / set_parameters"""
    if not isinstance(value, str):
        return value
    try:
        return int(value)
    except ValueError:
        pass
    try:
        return float(value)
    except ValueError:
        return value.strip()


class Model(object):
    def __init__(self):
        self.p = {}
        self.varylist = []
        self.variable_list = []

    def addpar(self, name, value, vary, can_vary):
        self.p[name] = value
        if vary and name not in self.varylist:
            self.varylist.append(name)
        if can_vary and name not in self.variable_list:
            self.variable_list.append(name)

    def coerce_all(self):
        for k in list(self.p):
            self.p[k] = coerce(self.p[k])

    def load_text(self, text):
        for line in text.splitlines(True):
            parts = line.split(" ")
            if len(parts) != 2:
                continue
            self.p[parts[0].replace("-", "_")] = parts[1]
        self.coerce_all()


def gen_value(rng):
    k = int(rng.integers(0, 12))
    if k == 0:
        return int(rng.integers(-1000, 1000))
    if k == 1:
        return int(rng.choice([0, -1, 1, 2 ** 53 + 1, -(2 ** 63), 10 ** 30, 10 ** 300 + 7, 123456789012345678901234567890]))
    if k == 2:
        return int(rng.integers(-2 ** 62, 2 ** 62)) * int(rng.integers(1, 2 ** 40))
    if k in (3, 4):
        while True:
            x = struct.unpack("d", rng.bytes(8))[0]
            if x == x and abs(x) != float("inf"):
                return x
    if k == 5:
        return float(rng.choice([-0.0, 0.0, 5e-324, 2.2250738585072014e-308, 1.7976931348623157e308, -1.7976931348623157e308,
                                 0.1 + 0.2, 1 / 3, 2 / 3, 1e22, 1e23, 1e16, 123456789.12345678, 4.04 * 1.0000000000000002, 3.0, -7.0]))
    if k == 6:
        return float(rng.normal() * 10 ** rng.uniform(-8, 8))
    if k == 7:
        # the result of numpy arithmetic: a numpy.float64 (a float as far as isinstance goes); tagged, because the replay file is JSON
        return {"np.float64": float(rng.normal() * 10 ** rng.uniform(-8, 8) * math.sqrt(2.0))}
    if k == 8:
        return float(np.nextafter(rng.uniform(0, 10), 100))
    while True:
        n = int(rng.integers(1, 9))
        s = "".join(rng.choice(list("abcdefghijklmnopqrstuvwxyzABCXYZ/_.-+0123456789")) for _ in range(n))
        try:
            float(s)
        except ValueError:
            if s.strip() == s and s:
                return s


def gen_sequence(rng, maxlen):
    ops = []
    state_names = []
    canvary = []
    n = int(rng.integers(3, maxlen + 1))
    for step in range(n):
        r = rng.random()
        if not state_names:
            r = [0.1, 0.4, 0.3][int(rng.integers(3))]          # an empty object may be filled through addpar, set_parameters or set
        if r < 0.22:
            name = NAMES[int(rng.integers(len(NAMES)))]
            cv = bool(rng.random() < 0.6)
            vary = bool(cv and rng.random() < 0.5)
            ops.append(["addpar", name, gen_value(rng), vary, cv])
            if name not in state_names:
                state_names.append(name)
            if cv and name not in canvary:
                canvary.append(name)
        elif r < 0.36:
            name = state_names[int(rng.integers(len(state_names)))] if (state_names and rng.random() < 0.8) else NAMES[int(rng.integers(len(NAMES)))]
            ops.append(["set", name, gen_value(rng)])
            if name not in state_names:
                state_names.append(name)
        elif r < 0.46:
            d = {}
            for _ in range(int(rng.integers(1, 4))):
                name = NAMES[int(rng.integers(len(NAMES)))]
                d[name] = gen_value(rng)
                if name not in state_names:
                    state_names.append(name)
            ops.append(["set_parameters", d])
        elif r < 0.56 and canvary:
            k = int(rng.integers(0, len(canvary) + 1))
            vl = [canvary[i] for i in rng.permutation(len(canvary))[:k]]
            ops.append(["set_varylist", vl])
        elif r < 0.66:
            ops.append(["set_variable_values", [gen_value(rng) for _ in range(8)]])
        elif r < 0.72:
            attrs = [NAMES[i] for i in rng.permutation(len(NAMES))[:3]]
            ops.append(["update_other", attrs])
        elif r < 0.78:
            attrs = {NAMES[i]: gen_value(rng) for i in rng.permutation(len(NAMES))[:3]}
            ops.append(["update_yourself", attrs])
        elif r < 0.88:
            ops.append(["save_load_fresh"])
        elif r < 0.94:
            ops.append(["save_load_self"])
        else:
            lines = []
            for _ in range(int(rng.integers(1, 5))):
                name = NAMES[int(rng.integers(len(NAMES)))]
                val = str(rng.choice(["12", "-7", "0012", "1e3", "1.5", "-0.0", "1_000", "0x10", "nan", "inf", "abc", "P21/c", "1.", ".5",
                                      "+3", "1e400", "12345678901234567890", "3.0000000000000004", "1d3"]))
                lines.append("%s %s\n" % (name, val))
                nm = name.replace("-", "_")
                if nm not in state_names:
                    state_names.append(nm)
            if rng.random() < 0.3:
                lines.append("malformed line with blanks\n")
            ops.append(["load_text", "".join(lines)])
    return ops


def setup(ctx):
    from xfab import parameters
    ctx.P = parameters
    ctx.dir = os.path.join(boot.WORK, "c19-%d-%d" % (os.getpid(), ctx.shard))
    os.makedirs(ctx.dir, exist_ok=True)
    for f in ("addpar", "set_varylist", "set_variable_values", "set_parameters", "saveparameters", "loadparameters",
              "dumbtypecheck", "update_yourself", "update_other"):
        observe.watch("parameters.%s" % f, getattr(parameters.parameters, f))


def workload(ctx):
    rng = ctx.rng(1)
    for i in range(ctx.n(500, 40000)):
        yield "sequence", {"ops": gen_sequence(rng, 30 if i % 4 else 8), "init": {NAMES[0]: 4.04} if i % 3 == 0 else {}}


class Bag(object):
    pass


def observe_state(ctx, obj, model, step, op):
    mon = ctx.mon
    live = obj.get_parameters()
    ok = isinstance(live, dict) and same_map(live, model.p)
    mon.check("model:state agrees after step", ok, observed=None if ok else {k: repr(v) for k, v in live.items()},
              expected=None if ok else {k: repr(v) for k, v in model.p.items()}, detail={"step": step, "op": op[0]})
    bad = []
    for k, v in model.p.items():
        try:
            if not same_value(obj.get(k), v):
                bad.append((k, repr(obj.get(k)), repr(v)))
        except Exception as exc:
            bad.append((k, repr(exc), repr(v)))
    mon.check("model:get returns the last value written", not bad, observed=bad[:3] or None, detail={"step": step, "op": op[0]})
    try:
        vals = obj.get_variable_values()
        want = [model.p[n] for n in model.varylist]
        ok = list(obj.varylist) == model.varylist and len(vals) == len(want) and all(same_value(a, b) for a, b in zip(vals, want))
    except Exception as exc:
        vals, want, ok = repr(exc), None, False
    mon.check("model:varied values follow varylist order", ok, observed=None if ok else [list(getattr(obj, "varylist", [])), repr(vals)],
              expected=None if ok else [model.varylist, repr(want)], detail={"step": step, "op": op[0]})
    ok = list(obj.get_variable_list()) == model.variable_list
    # the list of parameters that *can* vary is not named by the property: observed only
    mon.config("variable list agrees with the model" if ok else "variable list differs from the model")
    return ok


def decode(v):
    """undo the JSON tagging of numpy scalars (see gen_value)"""
    if isinstance(v, dict):
        if list(v) == ["np.float64"]:
            return np.float64(v["np.float64"])
        return {k: decode(x) for k, x in v.items()}
    if isinstance(v, list):
        return [decode(x) for x in v]
    return v


def case_sequence(ctx, p):
    mon, P = ctx.mon, ctx.P
    p = dict(p, init=decode(p["init"]), ops=decode(p["ops"]))
    obj = P.parameters(**p["init"])
    model = Model()
    for k, v in p["init"].items():
        model.addpar(k, v, False, False)
    path = os.path.join(ctx.dir, "p.par")
    nmut = 0
    saved = False
    for step, op in enumerate(p["ops"]):
        kind = op[0]
        mon.config("op:" + kind)
        try:
            if kind == "addpar":
                _, name, value, vary, cv = op
                obj.addpar(P.par(name, value, vary=vary, can_vary=cv, stepsize=0.1))
                model.addpar(name, value, vary, cv)
                nmut += 1
            elif kind == "set":
                obj.set(op[1], op[2])
                model.p[op[1]] = op[2]
                nmut += 1
            elif kind == "set_parameters":
                mine = dict(op[1])
                obj.set_parameters(mine)
                model.p.update(op[1])
                model.coerce_all()
                nmut += 1
                # the caller goes on using his own dictionary: that must not reach into the object
                for k in list(mine):
                    mine[k] = "overwritten-by-the-caller"
                mine["added_by_the_caller"] = 1
            elif kind == "set_varylist":
                vl = [v for v in op[1] if v in model.p and v in model.variable_list]
                obj.set_varylist(list(vl))
                model.varylist = list(vl)
                nmut += 1
            elif kind == "set_variable_values":
                vals = op[1][:len(model.varylist)]
                obj.set_variable_values(list(vals))
                for n, v in zip(model.varylist, vals):
                    model.p[n] = v
                nmut += 1
            elif kind == "update_other":
                other = Bag()
                for a in op[1]:
                    setattr(other, a, "untouched")
                obj.update_other(other)
                for a in op[1]:
                    want = model.p[a] if a in model.p else "untouched"
                    ok = same_value(getattr(other, a), want)
                    mon.check("model:update_other copies the current values", ok, observed=repr(getattr(other, a)), expected=repr(want))
                extra = [a for a in vars(other) if a not in op[1]]
                mon.check("model:update_other copies the current values", not extra, observed=extra or None, detail="attributes created")
            elif kind == "update_yourself":
                other = Bag()
                for a, v in op[1].items():
                    setattr(other, a, v)
                obj.update_yourself(other)
                for a, v in op[1].items():
                    if a in model.p:
                        model.p[a] = v
                nmut += 1
            elif kind == "save_load_fresh":
                obj.saveparameters(path)
                text = open(path).read()
                fresh = P.parameters()
                fresh.loadparameters(path)
                want = {k.replace("-", "_"): coerce(v) if isinstance(v, str) else v for k, v in model.p.items()}
                got = fresh.get_parameters()
                ok = same_map(got, want)
                if len(want) != len(model.p):
                    # 'a-b' and 'a_b' both present: which one survives the load is not specified by the property
                    mon.config("skipped:hyphen/underscore name collision")
                    ok = set(got) == set(want)
                mon.check("model:save -> load into a fresh object gives the same mapping", ok,
                          observed=None if ok else {k: repr(v) for k, v in got.items()},
                          expected=None if ok else {k: repr(v) for k, v in want.items()}, detail={"file": text[:400]})
                # the file itself: one 'name value' line per parameter
                lines = [l for l in text.split("\n") if l]
                names = sorted(l.split(" ")[0] for l in lines)
                ok = names == sorted(model.p) and all(len(l.split(" ")) == 2 for l in lines)
                # the layout of the file is not part of the property (only what a load gives back is): observed, not judged
                mon.config("saved file layout: one 'name value' line per parameter" if ok else "saved file layout: other")
                f2 = P.read_par_file(path)
                if len(want) == len(model.p):
                    mon.check("model:save -> load into a fresh object gives the same mapping", same_map(f2.get_parameters(), want), detail="read_par_file")
                saved = True
            elif kind == "save_load_self":
                obj.saveparameters(path)
                obj.loadparameters(path)
                model.load_text("".join("%s %s\n" % (k, str(model.p[k])) for k in sorted(model.p)))
                saved = True
                nmut += 1
            elif kind == "load_text":
                with open(path, "w") as fh:
                    fh.write(op[1])
                obj.loadparameters(path)
                model.load_text(op[1])
                saved = True
                nmut += 1
        except Exception as exc:
            mon.check("model:operation raises", False, observed=repr(exc), detail={"step": step, "op": op})
            return
        observe_state(ctx, obj, model, step, op)
    if nmut >= 3 and saved:
        mon.nontriv(repr(p["ops"]))
    try:
        os.unlink(path)
    except OSError:
        pass


CASES = {"sequence": case_sequence}


def finish(ctx):
    shutil.rmtree(ctx.dir, ignore_errors=True)
