"""C20 - input checks reject exactly the invalid inputs, and only while switched on."""
import math
import os
import subprocess
import sys

import numpy as np

from vfw import boot, contracts, gen, oracle, observe

ID = "C20"
RULE = ("random histories of 12-24 steps: assignments to xfab.CHECKS.activated (True, False and the invalid values 0, 1, None, 'True', "
        "numpy.True_, numpy.False_, [], 1.0) interleaved with calls of the 8 guarded APIs in tools and laue plus symmetry.Umis on "
        "inputs of class valid (exact rotations, float32-rounded, entrywise perturbed < 1e-7, Euler angles in [0,2pi] incl. the "
        "end points, right-handed UBIs) and invalid (orthonormality defect >= 1e-3 by construction: scaled, sheared, noisy; "
        "reflected; Euler angle outside by >= 1e-3; left-handed UBI; UB with det < 0); in between is not generated; "
        "non-trivial = history with >= 2 valid assignments and >= 1 invalid one; distinct = distinct history")
ASSUMPTIONS = ["model of the switch: state = last valid assignment (initially True); an invalid assignment raises ValueError and leaves the state unchanged",
               "check invocations are observed directly by wrappers on checks._check_rotation_matrix/_check_euler_angles/_check_ubi_matrix, not inferred from the absence of errors",
               "python -O coupling (activated reads False) is confirmed in one sub-process per run"]
FLOORS = {"history:switch state follows the model": 1000, "history:invalid input rejected while on": 300,
          "history:valid input accepted while on": 300, "history:no check runs while off": 300,
          "history:same result with checks off": 100}
ENV_TOGGLES = ("fp_raise", "log_debug")      # the switch is the subject here
ASSIGN = ["True", "False", "0", "1", "None", "'True'", "np.True_", "np.False_", "[]", "1.0"]


def decode(tag):
    return {"True": True, "False": False, "0": 0, "1": 1, "None": None, "'True'": "True", "np.True_": np.True_,
            "np.False_": np.False_, "[]": [], "1.0": 1.0}[tag]


APIS = ["u_to_euler", "u_to_rod", "u_to_ubi", "ubi_to_u", "ubi_to_u_and_eps", "euler_to_u", "ub_to_u_b", "Umis"]


def setup(ctx):
    import xfab
    from xfab import tools, laue, symmetry, checks
    ctx.X, ctx.T, ctx.L, ctx.S, ctx.C = xfab, tools, laue, symmetry, checks
    ctx.calls = []      # (name, raised) of every _check_* invocation since the last reset

    def mk(name):
        def after(args, kwargs, result, exc):
            ctx.calls.append((name, exc is not None))
        return after
    for f in ("_check_rotation_matrix", "_check_euler_angles", "_check_ubi_matrix"):
        observe.watch("checks.%s" % f, getattr(checks, f))
        contracts.spy(checks, f, after=mk(f))
    observe.watch("checks._checkState.activated(setter)", type(xfab.CHECKS).activated.fset)


def _rotation_variant(rng, U, cls):
    if cls == "exact":
        return U
    if cls == "float32":
        return U.astype(np.float32).astype(np.float64)
    if cls == "perturbed<1e-7":
        return U + rng.uniform(-1, 1, (3, 3)) * 10 ** rng.uniform(-12, -7)
    for _ in range(100):
        e = float(rng.choice([-1, 1]) * 10 ** rng.uniform(-3, 0))
        if cls == "scaled":
            V = U * (1 + e)
        elif cls == "sheared":
            N = np.zeros((3, 3))
            i, j = [(0, 1), (0, 2), (1, 2)][int(rng.integers(3))]
            N[i, j] = 1.0
            V = U @ (np.eye(3) + e * N)
        elif cls == "noisy":
            V = U + rng.uniform(-1, 1, (3, 3)) * abs(e) * 3
        elif cls == "reflected":
            D = np.eye(3)
            D[int(rng.integers(3)), int(rng.integers(3))] = 0
            V = U @ np.diag([1.0, 1.0, -1.0])
            return V
        else:
            raise ValueError(cls)
        if float(np.max(np.abs(V.T @ V - np.eye(3)))) >= 1e-3:
            return V
    raise RuntimeError("no invalid matrix produced")


VALID_ROT = ["exact", "float32", "perturbed<1e-7"]
INVALID_ROT = ["scaled", "sheared", "noisy", "reflected"]


def gen_call(rng):
    api = APIS[int(rng.integers(len(APIS)))]
    module = "tools" if rng.random() < 0.5 else "laue"
    valid = bool(rng.random() < 0.5)
    U, _, _ = gen.rotation(rng, ["uniform", "axis_aligned", "tiny_angle", "product", "near_180"][int(rng.integers(5))])
    while api in ("u_to_rod",) and oracle.rotation_angle_deg(U) > 179.0:
        # u_to_rod has no finite answer at 180 deg (C03 owns that neighbourhood); its 'Wrong trace of U' error is not an input check
        U = oracle.quat_to_mat(rng.normal(size=4))
    cell, _ = gen.cell(rng, "generic")
    step = {"api": api, "module": module, "valid": valid}
    if api in ("u_to_euler", "u_to_rod", "u_to_ubi"):
        cls = (VALID_ROT if valid else INVALID_ROT)[int(rng.integers(3 if valid else 4))]
        step.update(cls=cls, U=_rotation_variant(rng, U, cls).tolist(), cell=cell)
        if valid and rng.random() < 0.4:
            step["form"] = ["list", "tuple", "float32array"][int(rng.integers(3))]
            if step["form"] == "float32array":
                # what is judged is the matrix the function receives: the float32 image of U
                step["U"] = np.array(step["U"]).astype(np.float32).astype(np.float64).tolist()
        elif valid and rng.random() < 0.25:
            # accepted first, then damaged in place and handed in again: the same array object, new content
            i, j = int(rng.integers(3)), int(rng.integers(3))
            step["damage"] = {"i": i, "j": j, "delta": float(rng.choice([-1, 1]) * 10 ** rng.uniform(-2, 0)), "flip": bool(rng.random() < 0.3)}
    elif api == "Umis":
        cls = (VALID_ROT if valid else INVALID_ROT)[int(rng.integers(3 if valid else 4))]
        U2 = oracle.quat_to_mat(rng.normal(size=4))
        which = int(rng.integers(2 if valid else 3))
        if which == 2:
            # both operands invalid in a way that cancels in U1' U2: each one has to be rejected on its own
            a = _rotation_variant(rng, U, cls)
            b = np.linalg.inv(a).T @ U2
            if rng.random() < 0.5:
                a, b = b, a
            cls = cls + ", both operands (product is a rotation)"
        else:
            a, b = (_rotation_variant(rng, U, cls), U2) if which == 0 else (U2, _rotation_variant(rng, U, cls))
        step.update(cls=cls, U=a.tolist(), U2=b.tolist(), cs=int(rng.integers(1, 8)), module="symmetry")
    elif api in ("ubi_to_u", "ubi_to_u_and_eps"):
        k = oracle.TWO_PI if module == "tools" else 1.0
        B = oracle.upper_triangular_factor(oracle.recip_metric(cell) * k * k)
        ubi = np.linalg.inv(U @ B) * k
        cls = ["exact", "float32"][int(rng.integers(2))] if valid else "left-handed"
        if cls == "float32":
            ubi = ubi.astype(np.float32).astype(np.float64)
        if not valid:
            i, j = [(0, 1), (0, 2), (1, 2)][int(rng.integers(3))]
            if rng.random() < 0.5:
                ubi[[i, j]] = ubi[[j, i]]
            else:
                ubi[i] = -ubi[i]
        step.update(cls=cls, ubi=ubi.tolist(), cell=cell)
    elif api == "euler_to_u":
        a = [float(x) for x in rng.uniform(0, 2 * math.pi, 3)]
        if valid:
            cls = "in-range"
            if rng.random() < 0.3:
                a[int(rng.integers(3))] = float(rng.choice([0.0, 2 * math.pi]))
        else:
            cls = "out-of-range"
            a[int(rng.integers(3))] = float(rng.choice([-1, 1]) * 10 ** rng.uniform(-3, 1) + rng.choice([0.0, 2 * math.pi]))
            i = int(np.argmax([abs(x - math.pi) for x in a]))
            if 0 <= a[i] <= 2 * math.pi:
                a[i] = 2 * math.pi + 10 ** rng.uniform(-3, 1)
        step.update(cls=cls, angles=a)
    else:  # ub_to_u_b
        k = oracle.TWO_PI if module == "tools" else 1.0
        B = oracle.upper_triangular_factor(oracle.recip_metric(cell) * k * k)
        UB = U @ B
        cls = "det>0" if valid else "det<0"
        if valid and rng.random() < 0.5:
            UB = UB.astype(np.float32).astype(np.float64)
            cls = "det>0,float32"
        if not valid:
            UB = UB @ np.diag([1.0, -1.0, 1.0]) if rng.random() < 0.5 else -UB
        step.update(cls=cls, UB=UB.tolist())
    return step


def workload(ctx):
    rng = ctx.rng(1)
    for i in range(ctx.n(400, 30000)):
        steps = []
        for _ in range(int(rng.integers(12, 25))):
            if rng.random() < 0.4:
                r = rng.random()
                tag = "True" if r < 0.3 else "False" if r < 0.6 else ASSIGN[int(rng.integers(2, len(ASSIGN)))]
                steps.append({"assign": tag})
            else:
                steps.append(gen_call(rng))
        yield "history", {"steps": steps}
    yield "dash_O", {}


def as_arg(st, M):
    """the container the caller hands over: float64 array (default), nested list, nested tuple, or a float32-typed array"""
    form = st.get("form", "array")
    A = np.array(M, float)
    if form == "list":
        return A.tolist()
    if form == "tuple":
        return tuple(map(tuple, A.tolist()))
    if form == "float32array":
        return A.astype(np.float32)
    return A


def invoke(ctx, st, held=None):
    mod = {"tools": ctx.T, "laue": ctx.L, "symmetry": ctx.S}[st["module"]]
    api = st["api"]
    if api in ("u_to_euler", "u_to_rod"):
        return getattr(mod, api)(held if held is not None else as_arg(st, st["U"]))
    if api == "u_to_ubi":
        return mod.u_to_ubi(held if held is not None else as_arg(st, st["U"]), st["cell"])
    if api == "Umis":
        return mod.Umis(np.array(st["U"]), np.array(st["U2"]), st["cs"])
    if api == "ubi_to_u":
        return mod.ubi_to_u(np.array(st["ubi"]))
    if api == "ubi_to_u_and_eps":
        return mod.ubi_to_u_and_eps(np.array(st["ubi"]), st["cell"])
    if api == "euler_to_u":
        return mod.euler_to_u(*st["angles"])
    return mod.ub_to_u_b(np.array(st["UB"]))


def _flat(x):
    if isinstance(x, tuple):
        return np.concatenate([np.asarray(v, float).ravel() for v in x])
    return np.asarray(x, float).ravel()


def case_history(ctx, p):
    mon = ctx.mon
    CH = ctx.X.CHECKS
    CH.activated = True
    state = True
    nvalid = ninvalid = 0
    try:
        for i, st in enumerate(p["steps"]):
            if "assign" in st:
                v = decode(st["assign"])
                legal = v is True or v is False
                try:
                    CH.activated = v
                    raised = None
                except ValueError:
                    raised = "ValueError"
                except Exception as exc:
                    raised = repr(exc)
                if legal:
                    state = v
                    nvalid += 1
                else:
                    ninvalid += 1
                ok = (raised is None) if legal else (raised == "ValueError")
                mon.check("history:assignment accepted/rejected", ok, observed=raised or "accepted",
                          expected="accepted" if legal else "ValueError", detail=st["assign"])
                now = CH.activated
                mon.check("history:switch state follows the model", now is state or now == state and isinstance(now, bool),
                          observed=repr(now), expected=repr(state), detail={"step": i, "after": st["assign"]})
                mon.config("assign:" + st["assign"])
                continue
            if "damage" in st:
                held = np.array(st["U"], float)
                judge_call(ctx, CH, state, dict(st, cls=st["cls"] + ",first submission"), held)
                dmg = st["damage"]
                if dmg["flip"]:
                    held[:, dmg["j"]] *= -1
                else:
                    held[dmg["i"], dmg["j"]] += dmg["delta"]
                if float(np.max(np.abs(held.T @ held - np.eye(3)))) >= 1e-3 or np.linalg.det(held) < 0:
                    judge_call(ctx, CH, state, dict(st, valid=False, cls="damaged in place and resubmitted"), held)
                continue
            judge_call(ctx, CH, state, st, None)
    finally:
        CH.activated = True
    if nvalid >= 2 and ninvalid >= 1:
        mon.nontriv(repr(p["steps"])[:4000])


def judge_call(ctx, CH, state, st, held):
    mon = ctx.mon
    if True:
        if True:
            label = "%s.%s[%s%s]" % (st["module"], st["api"], st["cls"], "," + st["form"] if "form" in st else "")
            mon.config(("on " if state else "off ") + ("valid:" if st["valid"] else "invalid:") + st["api"])
            if "form" in st:
                mon.config("form:" + st["form"])
            del ctx.calls[:]
            try:
                res = invoke(ctx, st, held)
                raised = None
            except Exception as exc:
                res = None
                raised = exc
            by_check = any(r for _, r in ctx.calls)
            if state:
                if st["valid"]:
                    mon.check("history:valid input accepted while on", raised is None, observed=repr(raised), expected="no exception",
                              detail=label, finding=None)
                    # how the library organises its checking is not part of the property: observed, not judged
                    mon.config("while on: a _check_* function was invoked" if ctx.calls else "while on: no _check_* invocation seen")
                elif st["api"] == "ub_to_u_b":
                    # a left-handed U.B is neither an orientation matrix, nor Euler angles, nor a UBI: the statement names no
                    # class of invalid input for this function (the tree as found raises because the U it *derives* is improper;
                    # returning a proper U with a negative B33 instead is as good).  Observed, not judged.
                    mon.config("ub_to_u_b with det < 0 while on: %s" % ("raised " + type(raised).__name__ if raised is not None else "returned"))
                else:
                    ok = isinstance(raised, ValueError)
                    mon.config("rejection raised inside a _check_* function" if by_check else "rejection raised elsewhere")
                    mon.check("history:invalid input rejected while on", ok, observed=repr(raised), expected="ValueError",
                              detail=label)
            else:
                # whether a _check_* function is *entered* while off is the library's business; none may reject
                mon.check("history:no check runs while off", not by_check, observed=list(ctx.calls), expected="no input check raises",
                          detail=label)
                mon.config("while off: a _check_* function was entered" if ctx.calls else "while off: no _check_* invocation seen")
                if not st["valid"]:
                    bad = isinstance(raised, ValueError) and not isinstance(raised, np.linalg.LinAlgError)
                    if bad and st["api"] == "u_to_rod" and "trace" in str(raised).lower():
                        bad = False          # 1 + trace = 0: u_to_rod has no finite answer there; not an input check (see C03)
                    mon.check("history:invalid input not rejected while off", not bad, observed=repr(raised), expected="no ValueError",
                              detail=label)
                if st["valid"]:
                    mon.check("history:valid input accepted while off", raised is None, observed=repr(raised), detail=label)
                    if raised is None:
                        # reference value with the checks on (the switch is put back at once; the model state is unchanged)
                        CH.activated = True
                        try:
                            ref = invoke(ctx, st, None if held is None else held.copy())
                        except Exception:
                            ref = None
                        finally:
                            CH.activated = False
                        if ref is not None:
                            same = bool(np.array_equal(_flat(ref), _flat(res)))
                            mon.check("history:same result with checks off", same, observed=None if same else _flat(res),
                                      expected=None if same else _flat(ref), detail=label)


def case_dash_O(ctx, p):
    code = ("import numpy as np, xfab\n"
            "from xfab import tools\n"
            "xfab.CHECKS.activated = True\n"
            "print('activated', xfab.CHECKS.activated)\n"
            "try:\n"
            "    tools.u_to_rod(2*np.eye(3)); print('raised', False)\n"
            "except ValueError:\n"
            "    print('raised', True)\n")
    env = dict(os.environ, PYTHONPATH=boot.REPO)
    r = subprocess.run([sys.executable, "-O", "-B", "-W", "ignore", "-c", code], capture_output=True, text=True, timeout=120, env=env)
    out = r.stdout.split()
    ok = r.returncode == 0 and out == ["activated", "False", "raised", "False"]
    ctx.mon.check("dash-O:activated reads False and nothing is raised under python -O", ok, observed=(r.stdout + r.stderr)[-300:])


CASES = {"history": case_history, "dash_O": case_dash_O}
